"""C19 helpers: generator, real-code side, independent references, comparison."""
from __future__ import annotations

import math
import random
import sys
import warnings as _warnings
from dataclasses import replace as _dc_replace
from fractions import Fraction

from harness.corr import c19_stats as S

if hasattr(sys, "set_int_max_str_digits"):
    sys.set_int_max_str_digits(0)       # exact rationals on the wire can have thousands of digits

BATTR_FREE = ["minimization_successful", "rounding_errors", "maxevals_exceeded", "final_zero_gradient"]
BATTR_MODEL = ["final_zero_gradient_theta", "final_zero_gradient_omega", "final_zero_gradient_sigma",
               "estimate_near_boundary", "estimate_near_boundary_theta", "estimate_near_boundary_omega",
               "estimate_near_boundary_sigma"]
NATTR_FREE = ["sigdigs"]
NATTR_MODEL = ["rse", "rse_theta", "rse_omega", "rse_sigma"]
OPS = ["<", "<=", "==", "!=", ">=", ">"]
NPOOL = 17          # number of pool models built in worker_init
MAXP = 12           # per-parameter vectors are generated with this length and cut to the model's size
ALPHAS = ["0.05", "0.01", "0.001", "0.1", "0.5"]
MAXDF = 12


# ------------------------------------------------------------------ generation

def _dy(rng, lo, hi, den=8):
    """a dyadic rational as float (exact)."""
    return rng.randint(lo * den, hi * den) / den


def gen_ast(rng, real, depth=0):
    r = rng.random()
    if depth >= 3 or r < 0.45:
        batt = BATTR_FREE + (BATTR_MODEL if real else [])
        natt = NATTR_FREE + (NATTR_MODEL if real else (["rse"] if rng.random() < 0.05 else []))
        if rng.random() < 0.5:
            return ["b", rng.choice(batt)]
        a = rng.choice(natt)
        op = rng.choice(OPS)
        if a == "sigdigs":
            num = rng.choice(["0.1", "0", "3", "3.5", "5", "2", "10"])
        else:
            num = rng.choice(["0.4", "0.3", "0.25", "0.5", "1", "0.05", "2", "0"])
        if rng.random() < 0.25:
            return ["rcmp", num, op, a]
        return ["cmp", a, op, num]
    if r < 0.65:
        return ["and", gen_ast(rng, real, depth + 1), gen_ast(rng, real, depth + 1)]
    if r < 0.85:
        return ["or", gen_ast(rng, real, depth + 1), gen_ast(rng, real, depth + 1)]
    return ["not", gen_ast(rng, real, depth + 1)]


def gen_res(rng, ofv_pool, real):
    r = rng.random()
    ofv = None if r < 0.12 else rng.choice(ofv_pool)
    ms = rng.random() < 0.8
    cause = None if ms and rng.random() < 0.8 else rng.choice([None, "rounding_errors", "maxevals_exceeded", "rounding_errors"])
    sd = None if rng.random() < 0.1 else rng.choice([0.05, 0.1, 1.2, 3.0, 3.5, 4.1, 5.0])
    warn = [w for w in ["final_zero_gradient", "estimate_near_boundary", "other_warning"] if rng.random() < 0.15]
    d = {"ofv": ofv, "ms": ms, "cause": cause, "sd": sd, "warn": warn}
    if real:
        d["rse"] = None if rng.random() < 0.03 else [
            (None if rng.random() < 0.04 else rng.choice([0.05, 0.1, 0.25, 0.3, 0.35, 0.4, 0.45, 0.5, 0.9, 1.0, 2.5]))
            for _ in range(MAXP)]
        d["rse_extra"] = rng.random() < 0.1          # an index name that is no parameter of the model
        d["grd"] = [(None if rng.random() < 0.03 else (0.0 if rng.random() < 0.05 else rng.choice([-2.5, -0.001, 0.125, 1.0, 30.0])))
                    for _ in range(MAXP)]
        # estimates: "init", "low" (just above the lower bound), "far"
        d["est"] = [rng.choice(["init"] * 8 + ["low", "far"]) for _ in range(MAXP)]
    return d


def gen_rank_case(rng, tier):
    real = rng.random() < 0.45
    n = rng.choice([0, 1, 2, 3, 3, 4, 4, 5, 6, 7, 8]) if tier == "quick" else rng.choice([0, 1, 2, 3, 4, 5, 6, 8, 10, 14])
    base_ofv = _dy(rng, -400, 400)
    pool = [base_ofv + d for d in [-12.0, -7.5, -5.0, -4.0, -3.875, -3.75, -1.0, 0.0, 0.125, 2.0, 6.0]]
    pool = rng.sample(pool, rng.randint(2, 6)) + [base_ofv]
    rank_type = rng.choice(["ofv", "lrt", "lrt", "aic", "bic", "bic"] if real else ["ofv", "lrt", "lrt"])
    bic_type = None
    if rank_type == "bic":
        bic_type = rng.choice(["mixed", "fixed", "random", "iiv", "mixed"])
        if rng.random() < 0.1:
            bic_type = None
    if rank_type == "lrt":
        cutoff = rng.choice([None, None, "0.05", "0.01", "0.001", "0.5", ["0.05", "0.01"], ["0.1", "0.001"], ["0.01", "0.5"]])
    else:
        cutoff = rng.choice([None, None, None, "0", "1", "3.75", "3.875", "4", "-1", "0.125", "7.5"])
    models = []
    for i in range(n + 1):
        m = gen_res(rng, pool, real)
        if i == 0 and rng.random() < 0.9:      # base mostly fine
            m["ofv"], m["ms"] = base_ofv, True
        if real:
            m["pool"] = rng.randrange(NPOOL)
        else:
            m["npar"] = rng.randint(0, 6)
        models.append(m)
    base_fail = None
    if n and rng.random() < 0.12:
        # the base model is ineligible (NaN OFV or fails strictness) while candidates can pass
        base_fail = rng.choice(["nan", "strict"])
        if base_fail == "nan":
            models[0]["ofv"] = None
        else:
            models[0]["ms"], models[0]["cause"] = False, "maxevals_exceeded"
        for m in models[1:]:
            if rng.random() < 0.8:
                m["ms"] = True
                m["ofv"] = m["ofv"] if m["ofv"] is not None else rng.choice(pool)
    parent = None
    if rank_type == "lrt" and n and rng.random() < 0.6:
        parent = [rng.randrange(0, i + 1) if rng.random() < 0.8 else rng.choice([j for j in range(n + 1) if j != i + 1])
                  for i in range(n)]      # index into [base]+models; never the model itself
    penalties = None
    if rng.random() < 0.3:
        penalties = [_dy(rng, 0, 10, 4) if rng.random() < 0.7 else 0.0 for _ in range(n + 1)]
    r = rng.random()
    if base_fail == "strict":
        r = 0.2
    if r < 0.12:
        strict = None                       # ""
    elif r < 0.3:
        strict = ["b", "minimization_successful"]
    elif r < 0.4:
        strict = ["or", ["b", "minimization_successful"], ["and", ["b", "rounding_errors"], ["cmp", "sigdigs", ">=", "0.1"]]]
    else:
        strict = gen_ast(rng, real)
        if rng.random() < 0.5:
            strict = ["or", ["b", "minimization_successful"], strict]
    return {"kind": "rank", "real": real, "rank_type": rank_type, "bic_type": bic_type, "cutoff": cutoff,
            "strict": strict, "penalties": penalties, "parent": parent, "models": models,
            "seed": rng.randrange(1 << 30)}


def gen_lrt_case(rng, tier):
    n = rng.randint(0, 8)
    pofv = _dy(rng, -100, 100)
    ms = [[rng.randint(0, 8), None if rng.random() < 0.2 else pofv + rng.choice([-12.0, -6.0, -4.0, -3.875, -3.75, 0.0, 1.0, 4.0, 6.75])]
          for _ in range(n)]
    return {"kind": "lrt", "pn": rng.randint(0, 8), "pofv": None if rng.random() < 0.05 else pofv, "models": ms,
            "alpha": rng.choice(ALPHAS), "seed": rng.randrange(1 << 30)}


def gen_crit_case(rng, tier):
    return {"kind": "crit", "pool": rng.randrange(NPOOL), "ofv": None if rng.random() < 0.05 else _dy(rng, -500, 500),
            "seed": rng.randrange(1 << 30)}


def gen_cases(rng, n, tier):
    out = []
    for _ in range(n):
        r = rng.random()
        if r < 0.70:
            out.append(gen_rank_case(rng, tier))
        elif r < 0.80:
            out.append(gen_lrt_case(rng, tier))
        elif r < 0.85:
            out.append(gen_crit_case(rng, tier))
        else:
            out.append(S.gen_case(rng, tier))
    return out


def _dummy(ofv, ms=True, cause=None, sd=5.0, warn=(), npar=1):
    return {"ofv": ofv, "ms": ms, "cause": cause, "sd": sd, "warn": list(warn), "npar": npar}


def corpus_cases():
    MS = ["b", "minimization_successful"]
    tests = [_dummy(0.0), _dummy(-5.0, ms=False, cause="rounding_errors", npar=2), _dummy(-4.0, npar=2),
             _dummy(-4.0, npar=3), _dummy(1.0)]
    base = {"kind": "rank", "real": False, "rank_type": "ofv", "bic_type": None, "cutoff": None, "strict": MS,
            "penalties": None, "parent": None, "models": tests, "seed": 1}
    out = [base,
           dict(base, cutoff="1", seed=2),
           dict(base, rank_type="lrt", cutoff="0.05", seed=3),
           dict(base, penalties=[0.0, 0.0, 100.0, 0.0, 0.0], seed=4),
           dict(base, models=[_dummy(None)] + tests[1:], cutoff="1", seed=5),
           # all fail
           dict(base, models=[_dummy(None), _dummy(3.0, ms=False)], seed=6)]

    def real(pool, **kw):
        d = {"ofv": -10.0, "ms": True, "cause": None, "sd": 5.0, "warn": [], "pool": pool, "rse": [0.1] * MAXP,
             "rse_extra": False, "grd": [1.0] * MAXP, "est": ["init"] * MAXP}
        d.update(kw)
        return d
    g_om = [1.0] * MAXP
    g_om[3] = None          # IIV_CL of pheno: an omega gradient is NaN
    g_th = [1.0] * MAXP
    g_th[0] = None          # POP_CL: a theta gradient is NaN
    rb = {"kind": "rank", "real": True, "rank_type": "bic", "bic_type": "mixed", "cutoff": None, "strict": MS,
          "penalties": None, "parent": None, "models": [real(0, ofv=0.0), real(1), real(3), real(5)], "seed": 7}
    out += [rb, dict(rb, bic_type=None, seed=12),      # D3 (fixed 813764f): bic without bic_type = mixed
            # D1 (fixed a775272): final_zero_gradient_omega looked at the theta gradients for NaN
            dict(rb, rank_type="ofv", bic_type=None, strict=["not", ["b", "final_zero_gradient_omega"]],
                 models=[real(0, ofv=0.0), real(0, grd=g_om), real(0, grd=g_th, ofv=-12.0)], seed=8),
            # D2 (fixed 46020de): `rse` together with `rse_theta`
            dict(rb, rank_type="ofv", bic_type=None,
                 strict=["and", ["cmp", "rse", "<", "0.4"], ["cmp", "rse_theta", "<", "0.3"]],
                 models=[real(0, ofv=0.0), real(1)], seed=9),
            {"kind": "lrt", "pn": 2, "pofv": 0.0, "models": [[3, -3.0], [1, None], [4, -3.0], [2, 1.0]], "alpha": "0.05", "seed": 10},
            {"kind": "lrt", "pn": 2, "pofv": 0.0, "models": [[1, None]], "alpha": "0.05", "seed": 11}]
    # create_results: base ineligible (fails strictness / NaN OFV) while candidates pass; ties; all fail
    for j, (rtype, btype) in enumerate([("ofv", None), ("aic", None), ("bic", "mixed"), ("lrt", None)]):
        out.append(dict(rb, rank_type=rtype, bic_type=btype, seed=40 + j,
                        models=[real(0, ofv=600.0, ms=False), real(0, ofv=590.0), real(1, ofv=580.0), real(1, ofv=580.0)]))
        out.append(dict(rb, rank_type=rtype, bic_type=btype, seed=50 + j,
                        models=[real(0, ofv=None), real(0, ofv=590.0), real(1, ofv=595.0)]))
        out.append(dict(rb, rank_type=rtype, bic_type=btype, seed=60 + j,
                        models=[real(0, ofv=600.0, ms=False), real(0, ofv=590.0, ms=False), real(1, ofv=None)]))
    out += [{"kind": "crit", "pool": k, "ofv": 100.0, "seed": 20 + k} for k in range(NPOOL)]
    out += S.corpus_cases()
    return out


def shrink(case):
    if case.get("kind") == "rank":
        ms = case["models"]
        for i in range(1, len(ms)):
            # drop candidate i (index i in models_all); re-point parents at the base
            c = dict(case)
            c["models"] = ms[:i] + ms[i + 1:]
            if case["penalties"] is not None:
                c["penalties"] = case["penalties"][:i] + case["penalties"][i + 1:]
            if case["parent"] is not None:
                par = case["parent"][:i - 1] + case["parent"][i:]
                c["parent"] = [0 if p == i else (p - 1 if p > i else p) for p in par]
            yield c
        if case["penalties"] is not None:
            yield dict(case, penalties=None)
        if case["cutoff"] is not None:
            yield dict(case, cutoff=None)
        st = case["strict"]
        if st is not None:
            if st[0] in ("and", "or"):
                yield dict(case, strict=st[1])
                yield dict(case, strict=st[2])
            elif st[0] == "not":
                yield dict(case, strict=st[1])
    elif case.get("kind") == "lrt":
        ms = case["models"]
        for i in range(len(ms)):
            yield dict(case, models=ms[:i] + ms[i + 1:])
    elif case.get("kind") == "stats":
        yield from S.shrink(case)


# ------------------------------------------------------------------ real-code side

class DummyModel:
    def __init__(self, name, npar):
        self.name = name
        self.parameters = ["p%d" % i for i in range(npar)]


POOL = None


def worker_init():
    global np, pd, pharmpy_run, lrt, ModelfitResults, POOL, mres, chi2, ModelEntry, common
    _warnings.filterwarnings("ignore")
    import numpy as np  # noqa
    import pandas as pd  # noqa
    from scipy.stats import chi2  # noqa
    import pharmpy.modeling.lrt as lrt  # noqa
    import pharmpy.modeling.results as mres  # noqa
    import pharmpy.tools.run as pharmpy_run  # noqa
    from pharmpy.workflows import ModelEntry, ModelfitResults  # noqa
    S.worker_init()
    if POOL is None:
        POOL = build_pool()


def build_pool():
    import pharmpy.modeling as pm
    m = pm.load_example_model("pheno")
    half = m.replace(dataset=m.dataset[m.dataset["ID"] <= 25].reset_index(drop=True))
    mk = [
        lambda: m,
        lambda: pm.add_peripheral_compartment(m),
        lambda: pm.add_peripheral_compartment(pm.add_peripheral_compartment(m)),
        lambda: pm.add_iiv(m, ["S1"], "exp"),
        lambda: pm.fix_parameters(m, ["IIV_CL"]),
        lambda: pm.fix_parameters_to(m, {"IIV_VC": 0}),
        lambda: pm.remove_iiv(m, "CL"),
        lambda: pm.remove_iiv(m),
        lambda: pm.set_michaelis_menten_elimination(m),
        lambda: pm.create_joint_distribution(m),
        lambda: pm.set_combined_error_model(m),
        lambda: pm.fix_parameters(m, ["POP_VC"]),
        lambda: pm.fix_parameters(m, ["SIGMA"]),
        lambda: pm.add_iov(m, "FA1", ["ETA_CL"]),
        lambda: half,
        lambda: pm.add_peripheral_compartment(half),
        lambda: pm.remove_iiv(pm.add_peripheral_compartment(m), "VC"),
    ]
    assert len(mk) == NPOOL
    return [PoolModel(f()) for f in mk]


def fr(x):
    """float -> exact Fraction wire atom; None/NaN -> nan."""
    if x is None:
        return "nan"
    x = float(x)
    if math.isnan(x):
        return "nan"
    f = Fraction(x)
    return str(f.numerator) if f.denominator == 1 else f"{f.numerator}/{f.denominator}"


def unfr(s):
    return None if s == "nan" else Fraction(s)


class PoolModel:
    """A real pharmpy model plus what the Lean model needs to know about it."""

    def __init__(self, model):
        import pharmpy.modeling as pm
        self.model = model
        self.names = list(model.parameters.names)
        th, om, sg = set(pm.get_thetas(model).names), set(pm.get_omegas(model).names), set(pm.get_sigmas(model).names)
        self.cls = {n: ("theta" if n in th else "omega" if n in om else "sigma" if n in sg else "other") for n in self.names}
        nonfixed = [p.name for p in model.parameters if not p.fix]
        self.nonfixed = len(nonfixed)
        self.iiv_omegas = len([n for n in model.random_variables.iiv.parameter_names if n in nonfixed])
        self.nsubs = len(pm.get_ids(model))
        self.nobs = len(pm.get_observations(model))
        self.log_subs = math.log(self.nsubs)
        self.log_obs = math.log(self.nobs)
        self.omegas, self.vis = cat_inputs(model)
        # spec of the categorisation (order independent): random = omegas + everything met together with an eta;
        # fixed = everything met only without an eta
        rand = set(self.omegas)
        for has_eta, pars in self.vis:
            if has_eta:
                rand |= set(pars)
        fixed = set()
        for has_eta, pars in self.vis:
            if not has_eta:
                fixed |= set(pars) - rand
        self.spec_fixed, self.spec_rand = sorted(fixed), sorted(rand)
        self.theta_f = self.theta_r = None

    def counts(self, drv):
        if self.theta_f is None:
            if drv is None:
                self.theta_f, self.theta_r = len(self.spec_fixed), len(self.spec_rand)
            else:
                a = drv.ask(["categorize", self.omegas, [[h, p] for h, p in self.vis]])
                self.lean_cat = a
                self.theta_f, self.theta_r = len(a[0]), len(a[1])
        return [self.nonfixed, self.iiv_omegas, self.theta_f, self.theta_r, fr(self.log_subs), fr(self.log_obs)]

    def crit(self, ofv, rank_type, bic_type):
        """Documented formulas (docstrings of calculate_aic / calculate_bic)."""
        if rank_type in ("ofv", "lrt"):
            return ofv
        if rank_type == "aic":
            return ofv + 2 * self.nonfixed
        if bic_type == "fixed":
            return ofv + self.nonfixed * math.log(self.nobs)
        if bic_type == "random":
            return ofv + self.nonfixed * math.log(self.nsubs)
        if bic_type == "iiv":
            return ofv + self.iiv_omegas * math.log(self.nsubs)
        if bic_type == "mixed":
            return ofv + len(self.spec_rand) * math.log(self.nsubs) + len(self.spec_fixed) * math.log(self.nobs)
        raise KeyError(bic_type)


def cat_inputs(model):
    """The data `_categorize_parameters` extracts before its set algorithm runs."""
    import pharmpy.modeling as pm
    from pharmpy.modeling.random_variables import replace_non_random_rvs
    model = replace_non_random_rvs(model)
    indpars = pm.get_individual_parameters(model)
    allp = set(model.parameters.nonfixed.symbols)
    omegas = set(pm.get_omegas(model).symbols) & allp
    etas = set(model.random_variables.etas.symbols)
    eps = set(model.random_variables.epsilons.symbols)
    nm = lambda s: sorted(str(x) for x in s)
    vis = []
    for ip in indpars:
        syms = model.statements.before_odes.full_expression(ip).free_symbols
        vis.append([not syms.isdisjoint(etas), nm(syms & allp)])
    for y in model.dependent_variables.keys():
        syms = model.statements.after_odes.full_expression(y).free_symbols
        cureps = syms & eps
        cursig = (model.random_variables[cureps].free_symbols - cureps) & allp
        vis.append([not syms.isdisjoint(etas), nm((syms & allp) | cursig)])
    return nm(omegas), vis


def f_or_nan(x):
    return float("nan") if x is None else float(x)


def build_entry(i, m):
    """-> (model object, ModelfitResults, info dict for reference + wire)."""
    name = "base" if i == 0 else f"m{i}"
    info = {"name": name, "ofv": f_or_nan(m["ofv"]), "ms": m["ms"], "cause": m["cause"], "sd": f_or_nan(m["sd"]),
            "warn": m["warn"], "rse": None, "grd": [], "near": []}
    kw = dict(ofv=info["ofv"], minimization_successful=m["ms"], termination_cause=m["cause"],
              significant_digits=info["sd"], warnings=list(m["warn"]))
    if "pool" in m:
        pmod = POOL[m["pool"] % NPOOL]
        model = pmod.model.replace(name=name)
        names = pmod.names
        k = len(names)
        info["pm"] = pmod
        info["npar"] = k
        if m["rse"] is not None:
            idx = list(names) + (["EXTRA_PARAM"] if m["rse_extra"] else [])
            vals = [f_or_nan(v) for v in m["rse"][:k]] + ([0.45] if m["rse_extra"] else [])
            kw["relative_standard_errors"] = pd.Series(vals, index=idx)
            info["rse"] = [(pmod.cls.get(n, "other"), v) for n, v in zip(idx, vals)]
        gv = [f_or_nan(v) for v in m["grd"][:k]]
        kw["gradients"] = pd.Series(gv, index=names)
        info["grd"] = [(pmod.cls[n], v) for n, v in zip(names, gv)]
        ests = []
        for n, how in zip(names, m["est"][:k]):
            p = model.parameters[n]
            if how == "low" and p.lower > -float("inf"):
                ests.append(p.lower + (0.0005 if p.lower == 0 else abs(p.lower) * 0.001))
            elif how == "far":
                ests.append(p.init * 3 + 1.5)
            else:
                ests.append(p.init)
        pe = pd.Series(ests, index=names, dtype=float)
        kw["parameter_estimates"] = pe
        near = mres.check_parameters_near_bounds(model, pe)
        info["near"] = [(pmod.cls[n], bool(near[n])) for n in names]
    else:
        model = DummyModel(name, m["npar"])
        info["pm"] = None
        info["npar"] = m["npar"]
    return model, ModelfitResults(**kw), info


def wire_res(info):
    rse = "none" if info["rse"] is None else [[c, fr(v)] for c, v in info["rse"]]
    return [fr(info["ofv"]), info["ms"], info["cause"] or "", fr(info["sd"]), list(info["warn"]), rse,
            [[c, fr(v)] for c, v in info["grd"]], [[c, b] for c, b in info["near"]]]


def wire_ast(a):
    if a is None:
        return "none"
    k = a[0]
    if k == "b":
        return ["b", a[1]]
    if k == "cmp":
        return ["cmp", a[1], a[2], fr(float(a[3]))]
    if k == "rcmp":
        return ["rcmp", fr(float(a[1])), a[2], a[3]]
    if k == "not":
        return ["not", wire_ast(a[1])]
    return [k, wire_ast(a[1]), wire_ast(a[2])]


def render(a, rng, top=True):
    """AST -> a string of the documented grammar (random spacing / case / redundant parentheses)."""
    if a is None:
        return ""
    sp = lambda: rng.choice(["", " ", " ", "  "])
    cs = lambda w: w.upper() if rng.random() < 0.1 else (w.capitalize() if rng.random() < 0.05 else w)
    k = a[0]
    if k == "b":
        s = cs(a[1])
    elif k == "cmp":
        s = f"{cs(a[1])}{sp()}{a[2]}{sp()}{a[3]}"
    elif k == "rcmp":
        s = f"{a[1]}{sp()}{a[2]}{sp()}{cs(a[3])}"
    elif k == "not":
        inner = render(a[1], rng, top=False)
        if a[1][0] in ("and", "or") and not inner.startswith("("):
            inner = "(" + inner + ")"
        return f"{cs('not')} {inner}"
    else:
        parts = []
        for ch in (a[1], a[2]):
            t = render(ch, rng, top=False)
            if ch[0] in ("and", "or") and not t.startswith("("):
                t = "(" + t + ")"
            elif ch[0] == "not" and rng.random() < 0.3:
                t = "(" + t + ")"
            parts.append(t)
        s = f"{parts[0]} {cs(k)} {parts[1]}"
        if not top:
            return "(" + s + ")"
        return s
    if rng.random() < 0.1:
        return "(" + s + ")"
    return s


def ast_names(a, acc=None):
    acc = set() if acc is None else acc
    if a is None:
        return acc
    if a[0] == "b":
        acc.add(a[1])
    elif a[0] == "cmp":
        acc.add(a[1])
    elif a[0] == "rcmp":
        acc.add(a[3])
    else:
        for ch in a[1:]:
            ast_names(ch, acc)
    return acc


def ast_has_array_ne(a):
    if a is None or a[0] == "b":
        return False
    if a[0] == "cmp":
        return a[2] == "!=" and a[1] != "sigdigs"
    if a[0] == "rcmp":
        return a[2] == "!=" and a[3] != "sigdigs"
    return any(ast_has_array_ne(ch) for ch in a[1:])


# ---- documented semantics (docs/strictness.rst), written independently of the Lean model

def _cmp(op, e, c):
    return {"<": e < c, "<=": e <= c, "==": e == c, "!=": e != c, ">=": e >= c, ">": e > c}[op]


_FLIP = {"<": ">", "<=": ">=", "==": "==", "!=": "!=", ">=": "<=", ">": "<"}


def doc_strict(a, info):
    """True/False per the documentation; 'refuse' where the documentation lets the code refuse (RSE not available)."""
    if math.isnan(info["ofv"]):
        return False
    if a is None:
        return True
    names = ast_names(a)
    if info["rse"] is None and names & set(NATTR_MODEL):
        return "refuse"

    def arr(n):
        if n == "sigdigs":
            return [info["sd"]]
        if n == "rse":
            return [v for _, v in info["rse"]]
        return [v for c, v in info["rse"] if c == n[4:]]

    def ev(x):
        k = x[0]
        if k == "b":
            n = x[1]
            if n == "minimization_successful":
                return bool(info["ms"])
            if n == "rounding_errors":
                return info["cause"] == "rounding_errors"
            if n == "maxevals_exceeded":
                return info["cause"] == "maxevals_exceeded"
            if n == "final_zero_gradient":
                return "final_zero_gradient" in info["warn"]
            if n.startswith("final_zero_gradient_"):
                c = n[len("final_zero_gradient_"):]
                return any(v == 0 or math.isnan(v) for k2, v in info["grd"] if k2 == c)
            if n == "estimate_near_boundary":
                return any(b for _, b in info["near"])
            c = n[len("estimate_near_boundary_"):]
            return any(b for k2, b in info["near"] if k2 == c)
        if k == "cmp":
            return all(_cmp(x[2], e, float(x[3])) for e in arr(x[1]))
        if k == "rcmp":
            return all(_cmp(_FLIP[x[2]], e, float(x[1])) for e in arr(x[3]))
        if k == "not":
            return not ev(x[1])
        if k == "and":
            return ev(x[1]) and ev(x[2])
        return ev(x[1]) or ev(x[2])
    return bool(ev(a))


def frd(text):
    """decimal literal -> exact rational wire atom (significance levels are look-up keys, never computed with)."""
    f = Fraction(str(text))
    return str(f.numerator) if f.denominator == 1 else f"{f.numerator}/{f.denominator}"


def isf_table(alphas, maxdf):
    return [[frd(a), d, fr(float(chi2.isf(q=float(a), df=d)))] for a in alphas for d in range(1, maxdf + 1)]


def err_of(e):
    return ["err", type(e).__name__]


def close(a, b, tol=1e-9):
    """a: float or None(NaN) from the code; b: Fraction or None from the model."""
    if a is None or b is None:
        return a is None and b is None
    fb = float(b)
    return abs(a - fb) <= tol * max(1.0, abs(a), abs(fb))


def nn(x):
    """float -> None when NaN."""
    x = float(x)
    return None if math.isnan(x) else x


# ------------------------------------------------------------------ kind = rank

def run_rank(case, drv):
    rng = random.Random(case["seed"])
    k, mon, tags = [], [], []
    built = [build_entry(i, m) for i, m in enumerate(case["models"])]
    models = [b[0] for b in built]
    ress = [b[1] for b in built]
    infos = [b[2] for b in built]
    n = len(models)
    rt, bt, real = case["rank_type"], case["bic_type"], case["real"]
    ast = case["strict"]
    sstr = render(ast, rng)
    cut = case["cutoff"]
    if cut is None:
        cutoff = None
    elif isinstance(cut, list):
        cutoff = (float(cut[0]), float(cut[1]))
    else:
        cutoff = float(cut)
        if rt != "lrt" and cutoff == int(cutoff) and rng.random() < 0.5:
            cutoff = int(cutoff)
    parents = [0] * n if case["parent"] is None else [0] + list(case["parent"])
    parent_dict = None
    if case["parent"] is not None:
        parent_dict = {models[i].name: models[parents[i]].name for i in range(1, n)}
    pens = case["penalties"]
    kwargs = {}
    if rt == "bic" and bt is not None:
        kwargs["bic_type"] = bt
    tags += [f"rank:{rt}" + (f"/{bt}" if rt == "bic" else ""), f"ncand={n-1}", "real-models" if real else "dummy-models",
             "cutoff:" + ("none" if cut is None else "pair" if isinstance(cut, list) else "number"),
             "penalties" if pens else "no-penalties", "parents" if parent_dict else "no-parent-map",
             "strict:" + ("empty" if ast is None else ast[0])]

    # ---- the real code
    code_err = None
    try:
        df = pharmpy_run.rank_models(models[0], ress[0], models[1:], ress[1:], parent_dict=parent_dict, strictness=sstr,
                                     rank_type=rt, cutoff=cutoff, penalties=pens, **kwargs)
    except Exception as e:
        df = None
        code_err = e
        tags.append(f"raises:{type(e).__name__}")

    col = "ofv" if rt == "lrt" else rt
    rows_code = None
    if df is not None:
        rows_code = [(str(ix), nn(r[f"d{col}"]), nn(r[col]), nn(r["rank"])) for ix, r in df.iterrows()]
        tags.append("ranked=%d" % sum(1 for r in rows_code if r[3] is not None))
        ranks = sorted(r[3] for r in rows_code if r[3] is not None)
        if len(ranks) != len(set(ranks)):
            tags.append("has-ties")
        if math.isnan(infos[0]["ofv"]) or (rows_code and [r for r in rows_code if r[0] == "base"][0][3] is None):
            tags.append("base-failed")

    # ---- K: the Lean model on the same inputs
    float_tie = False
    cut_tie = False
    if drv is not None:
        ents = []
        for i, inf in enumerate(infos):
            cnt = inf["pm"].counts(drv) if inf["pm"] else [0, 0, 0, 0, "0", "0"]
            ents.append([wire_res(inf), cnt, inf["npar"], parents[i], fr(pens[i]) if pens else "0"])
        wco = "none" if cut is None else (["two", frd(cut[0]), frd(cut[1])] if isinstance(cut, list) else ["one", frd(cut)])
        alphas = set(["0.05", "0.01"])
        if cut is not None:
            alphas |= set(cut if isinstance(cut, list) else [cut])
        tab = isf_table(sorted(alphas), 16) if rt == "lrt" else []
        wrt = ["bic", bt or "none"] if rt == "bic" else rt
        ans = drv.ask(["rankfull", wire_ast(ast), wrt, wco, tab, ents])
        if isinstance(ans, list) and ans and ans[0] == "err":
            if code_err is None or err_of(code_err) != ans:
                k.append(f"rank_models: model {ans}, code {'rows' if code_err is None else err_of(code_err)} for strictness {sstr!r}")
        elif code_err is not None:
            k.append(f"rank_models: model returns rows, code raises {type(code_err).__name__}: {str(code_err)[:120]}")
        else:
            rows_m = [(infos[int(r[0])]["name"], unfr(r[1]), unfr(r[2]), None if r[3] == "nan" else int(r[3])) for r in ans[0]]
            dm = {r[0]: r for r in rows_m}
            # criterion values that coincide exactly (model) but differ in the last bits as floats (code), or vice versa:
            # which of the two is a tie is a rounding artefact of log(); ranks are then not compared (values still are)
            cvals = [r[2] for r in rows_code if r[2] is not None]
            mvals = [float(r[2]) for r in rows_m if r[2] is not None]
            float_tie = any(a != b and abs(a - b) <= 1e-9 * max(1.0, abs(a)) for vs in (cvals, mvals) for a in vs for b in vs) \
                and rt in ("bic",)
            if float_tie:
                tags.append("float-near-tie")
            # a BIC difference (log() inside) that equals the cut-off up to float rounding: on which side of the cut-off it falls is a
            # rounding artefact (code 3.750000000000007 vs exact 3.75); the case is then not compared
            cut_tie = rt == "bic" and cut is not None and not isinstance(cut, list) and any(
                r[1] is not None and abs(r[1] - float(cut)) <= 1e-9 * max(1.0, abs(float(cut))) for r in rows_code)
            if cut_tie:
                tags.append("float-near-cutoff")
            for name, d, v, rk in ([] if cut_tie else rows_code):
                mrow = dm.get(name)
                if mrow is None:
                    k.append(f"row {name} missing in model")
                    continue
                if (rk is None) != (mrow[3] is None) or (rk is not None and int(rk) != mrow[3] and not float_tie):
                    k.append(f"rank of {name}: model {mrow[3]} code {rk}")
                if not close(v, mrow[2]):
                    k.append(f"{col} of {name}: model {mrow[2]} code {v}")
                if not close(d, mrow[1]):
                    k.append(f"d{col} of {name}: model {mrow[1]} code {d}")
            # row order: rank sequence identical; names identical up to order within a rank group / the NaN group
            if not float_tie and not cut_tie and [r[3] for r in rows_m] != [None if r[3] is None else int(r[3]) for r in rows_code]:
                k.append(f"row order: model ranks {[r[3] for r in rows_m]} code {[r[3] for r in rows_code]}")
            best_m = None if ans[1] == "none" else infos[int(ans[1])]["name"]
            code_rank = {r[0]: r[3] for r in rows_code}
            if cut_tie:
                pass
            elif all(r[3] is None for r in rows_code):
                if best_m is not None:
                    k.append(f"best: model {best_m}, code has no ranked row")
            else:
                best_c = str(df["rank"].idxmin())
                if not float_tie and (best_m is None or code_rank.get(best_m) != code_rank.get(best_c)):
                    k.append(f"best: model {best_m} code {best_c}")

    # ---- create_results (tools/common.py): the model reported as best; no parent map reaches rank_models there
    cr = None
    # (the candidates of one tool run share the data set: summarize_individuals needs the same individuals in every model)
    if real and rng.random() < 0.7 and len({inf["pm"].nsubs for inf in infos}) == 1:
        from pharmpy.tools.common import ToolResults, create_results
        from pharmpy.workflows import Log
        tags.append("create_results")
        mes = [ModelEntry.create(model=m.replace(description=m.name), modelfit_results=_dc_replace(r, log=Log()),
                                 parent=models[0] if i else None)
               for i, (m, r) in enumerate(zip(models, ress))]
        try:
            res = create_results(ToolResults, mes[0], mes[0], mes[1:], rt, cutoff, **({"bic_type": bt} if bt else {}),
                                 strictness=sstr, penalties=pens)
            cr = {"final": res.final_model.name, "final_results_ok": any(res.final_results is me.modelfit_results for me in mes
                                                                         if me.model.name == res.final_model.name),
                  "rank": {str(ix): nn(v) for ix, v in res.summary_tool["rank"].items()}}
        except Exception as e:
            cr = {"err": e}
            tags.append(f"create_results-raises:{type(e).__name__}")
        if drv is not None:
            ents0 = [e[:3] + [0] + e[4:] for e in ents]
            tab0 = isf_table(sorted(alphas), 16) if rt == "lrt" else []
            ansc = drv.ask(["createresults", wire_ast(ast), wrt, wco, tab0, ents0])
            if isinstance(ansc, list) and ansc and ansc[0] == "err":
                if "err" not in cr or err_of(cr["err"]) != ansc:
                    k.append(f"create_results: model {ansc}, code {cr.get('final') if 'err' not in cr else err_of(cr['err'])}")
            elif "err" in cr:
                k.append(f"create_results: model final {ansc[1]}, code raises {type(cr['err']).__name__}: {str(cr['err'])[:100]}")
            else:
                fin_m = infos[int(ansc[1])]["name"]
                # tied rank-1 rows: pandas' unstable sort decides which one comes first
                if fin_m != cr["final"] and not float_tie and not cut_tie and not (cr["rank"].get(fin_m) == 1 and cr["rank"].get(cr["final"]) == 1):
                    k.append(f"create_results final model: model {fin_m} code {cr['final']} (ranks {cr['rank']})")

    # ---- monitors: the property statement on the real result
    # (1) strictness per model against the documented semantics
    strict_doc = [doc_strict(ast, inf) for inf in infos]
    strict_problem = False
    if any(s == "refuse" for s in strict_doc):
        # documented refusal ("Could not calculate relative standard error"): any exception class is accepted
        tags.append("rse-unavailable")
        if code_err is None:
            pass
        return {"k": k, "mon": mon, "tags": tags, "nontrivial": False}
    names_used = ast_names(ast)
    ambiguous = ast_has_array_ne(ast)
    if ambiguous:
        tags.append("array-!=")
    for i, inf in enumerate(infos):
        if ambiguous:
            break
        try:
            got = pharmpy_run.is_strictness_fulfilled(models[i], ress[i], sstr)
            got = bool(got)
        except Exception as e:
            got = e
        if isinstance(got, Exception) or got != strict_doc[i]:
            strict_problem = True
            rse_mix = "rse" in names_used and names_used & {"rse_theta", "rse_omega", "rse_sigma"}
            nan_grd_th = any(c == "theta" and math.isnan(v) for c, v in inf["grd"])
            nan_grd_os = any(c in ("omega", "sigma") and math.isnan(v) for c, v in inf["grd"])
            if isinstance(got, Exception) and rse_mix:
                cls = "strictness-rse-with-rse-class-raises"
            elif isinstance(got, Exception):
                cls = "strictness-raises-" + type(got).__name__
            elif names_used & {"final_zero_gradient_omega", "final_zero_gradient_sigma"} and (nan_grd_th or nan_grd_os):
                cls = "strictness-fzg-omega-sigma-nan-looks-at-theta"
            else:
                cls = "strictness-value"
            mon.append({"cls": cls, "what": f"is_strictness_fulfilled({sstr!r}) on {inf['name']} gives "
                        f"{('raises ' + type(got).__name__ + ': ' + str(got)[:80]) if isinstance(got, Exception) else got}, "
                        f"documented semantics give {strict_doc[i]} (ms={inf['ms']}, cause={inf['cause']}, sigdigs={inf['sd']}, "
                        f"warnings={inf['warn']}, rse={inf['rse']}, gradients={inf['grd']}, near_bound={inf['near']})"})
            break
    if strict_problem or ambiguous:
        # consequences of a strictness discrepancy are not reported a second time under another class
        return {"k": k, "mon": mon, "tags": tags, "nontrivial": True}

    # (2) documented criterion, eligibility, competition ranks
    if rt == "bic" and bt is None:
        # rank_type='bic' without bic_type: calculate_bic documents 'mixed' as its default
        tags.append("bic-default-type")
        if code_err is not None and any(strict_doc):
            mon.append({"cls": "bic-without-bic-type-raises", "what": f"rank_models(rank_type='bic') without bic_type raises "
                        f"{type(code_err).__name__}: {str(code_err)[:100]}"})
            return {"k": k, "mon": mon, "tags": tags, "nontrivial": False}
        bt = "mixed"
    if code_err is not None:
        mon.append({"cls": "rank-raises-" + type(code_err).__name__,
                    "what": f"rank_models raised {type(code_err).__name__}: {str(code_err)[:200]} (strictness {sstr!r})"})
        return {"k": k, "mon": mon, "tags": tags, "nontrivial": True}

    def reference(parents):
        crit = []
        for i, inf in enumerate(infos):
            if not strict_doc[i]:
                crit.append(None)
            else:
                v = inf["pm"].crit(inf["ofv"], rt, bt) if inf["pm"] else inf["ofv"]
                crit.append(v + (pens[i] if pens else 0.0))
        ref = crit[0]
        elig = []
        for i, inf in enumerate(infos):
            if crit[i] is None:
                elig.append(False)
            elif i == 0:
                elig.append(True)
            elif rt == "lrt":
                p = infos[parents[i]]
                df_ = inf["npar"] - p["npar"]
                if cutoff is None:
                    alpha = 0.05 if df_ >= 0 else 0.01
                elif isinstance(cutoff, tuple):
                    alpha = cutoff[0] if df_ >= 0 else cutoff[1]
                else:
                    alpha = cutoff
                crit_v = 0.0 if df_ == 0 else (float(chi2.isf(alpha, df_)) if df_ > 0 else -float(chi2.isf(alpha, -df_)))
                dofv = p["ofv"] - inf["ofv"]
                elig.append(bool(dofv >= crit_v))
            elif cutoff is not None and ref is not None:
                elig.append(bool(ref - crit[i] > cutoff))
            else:
                elig.append(True)
        return crit, elig

    crit, elig = reference(parents)
    ref = crit[0]
    vals = [crit[i] for i in range(n) if elig[i]]
    near_tie = any(a != b and abs(a - b) <= 1e-7 * max(1.0, abs(a)) for a in vals for b in vals)
    code = {r[0]: r for r in rows_code}
    if set(code) != {inf["name"] for inf in infos} or len(rows_code) != n:
        mon.append({"cls": "rank-rows", "what": f"rows {sorted(code)} do not match the models"})
        return {"k": k, "mon": mon, "tags": tags, "nontrivial": True}
    for i, inf in enumerate(infos):
        _, d, v, rk = code[inf["name"]]
        if (rk is not None) != elig[i]:
            why = "strictness" if not strict_doc[i] else ("lrt" if rt == "lrt" else "cutoff")
            mon.append({"cls": "rank-eligibility-" + why, "what": f"{inf['name']}: ranked={rk is not None} but eligible={elig[i]} "
                        f"(criterion {crit[i]}, reference {ref}, cutoff {cutoff}, rank_type {rt})"})
            break
        if elig[i]:
            if not close(v, Fraction(crit[i])):
                mon.append({"cls": "criterion-value", "what": f"{inf['name']}: reported {col}={v}, documented formula gives {crit[i]}"})
                break
            want_d = None if ref is None else ref - crit[i]
            if not close(d, None if want_d is None else Fraction(want_d)):
                mon.append({"cls": "delta-value", "what": f"{inf['name']}: reported d{col}={d}, reference - value = {want_d}"})
                break
            want = 1 + sum(1 for x in vals if x < crit[i])
            if not near_tie and int(rk) != want:
                mon.append({"cls": "rank-order", "what": f"{inf['name']}: rank {rk}, competition rank on the criterion is {want} "
                            f"(eligible values {sorted(vals)})"})
                break
    # row order: no failed row above an eligible one; ranks non-decreasing
    seq = [r[3] for r in rows_code]
    seen_nan = False
    for j, rk in enumerate(seq):
        if rk is None:
            seen_nan = True
        elif seen_nan:
            mon.append({"cls": "failed-above-eligible", "what": f"row order {[(r[0], r[3]) for r in rows_code]}"})
            break
        elif j and seq[j - 1] is not None and seq[j - 1] > rk:
            mon.append({"cls": "rows-not-sorted", "what": f"row order {[(r[0], r[3]) for r in rows_code]}"})
            break
    # best = top-ranked eligible = first row
    if any(elig) and not mon:
        best = str(df["rank"].idxmin())
        if best != rows_code[0][0] or code[best][3] != 1 or (not near_tie and crit[[inf["name"] for inf in infos].index(best)] != min(vals)):
            mon.append({"cls": "best-not-top", "what": f"best {best}; rows {[(r[0], r[3]) for r in rows_code]}"})
    # the model reported as best by create_results = top-ranked eligible model (LRT against the base model there);
    # the base model only when nothing is eligible
    if cr is not None:
        crit0, elig0 = reference([0] * n)
        vals0 = [crit0[i] for i in range(n) if elig0[i]]
        near0 = any(a != b and abs(a - b) <= 1e-7 * max(1.0, abs(a)) for a in vals0 for b in vals0)
        names_ = [inf["name"] for inf in infos]
        if "err" in cr:
            all_fail = all(c is None for c in crit0)
            if not (isinstance(cr["err"], ValueError) and "All models fail" in str(cr["err"]) and all_fail and rt != "lrt"):
                mon.append({"cls": "create-results-raises", "what": f"create_results raised {type(cr['err']).__name__}: {str(cr['err'])[:160]}"})
        elif not any(elig0):
            tags.append("create_results:none-eligible")
            if cr["final"] != "base":
                mon.append({"cls": "final-model-not-base-when-none-eligible", "what": f"final model {cr['final']}, no model is eligible"})
        else:
            fi = names_.index(cr["final"])
            tags.append("create_results:base-" + ("eligible" if elig0[0] else "ineligible"))
            if not elig0[fi] or (not near0 and crit0[fi] != min(vals0)):
                mon.append({"cls": "final-model-not-top-eligible", "what": f"create_results reports {cr['final']} as final model "
                            f"(eligible={elig0[fi]}, criterion {crit0[fi]}); eligible models and criteria "
                            f"{[(names_[i], crit0[i]) for i in range(n) if elig0[i]]}; rank column {cr['rank']}"})
            elif not cr["final_results_ok"]:
                mon.append({"cls": "final-results-not-of-final-model", "what": f"final_results is not the results object of {cr['final']}"})
    # summarize_tool (tools/common.py) wraps the same frame; on real models also check it keeps rows and ranks
    if real and parent_dict is None and rng.random() < 0.4:
        tags.append("summarize_tool")
        from pharmpy.tools.common import summarize_tool
        mes = [ModelEntry.create(model=m, modelfit_results=r) for m, r in zip(models, ress)]
        try:
            st = summarize_tool(mes[1:], mes[0], rt, cutoff, bic_type=bt or "mixed", strictness=sstr, penalties=pens)
            if list(st.index) != list(df.index) or [nn(x) for x in st["rank"]] != seq:
                mon.append({"cls": "summarize-tool-differs", "what": "summarize_tool rows/ranks differ from rank_models"})
            for i, inf in enumerate(infos):
                if int(st.loc[inf["name"], "n_params"]) != inf["pm"].nonfixed:
                    mon.append({"cls": "summarize-tool-nparams", "what": f"{inf['name']}: n_params {st.loc[inf['name'], 'n_params']}"})
                    break
        except ValueError as e:
            if "All models fail" not in str(e) or any(elig) and rt != "lrt":
                mon.append({"cls": "summarize-tool-raises", "what": f"{e}"})
    nontrivial = sum(1 for c in crit if c is not None) >= 2
    return {"k": k, "mon": mon, "tags": tags, "nontrivial": nontrivial}


# ------------------------------------------------------------------ kind = lrt

def run_lrt(case, drv):
    k, mon, tags = [], [], [f"lrt-n={len(case['models'])}"]
    alpha = float(case["alpha"])
    parent = DummyModel("parent", case["pn"])
    pofv = f_or_nan(case["pofv"])
    kids = [DummyModel(f"c{i}", npar) for i, (npar, _) in enumerate(case["models"])]
    ofvs = [f_or_nan(o) for _, o in case["models"]]
    tab = isf_table([case["alpha"]], 16)
    for kid, o in zip(kids, ofvs):
        df_ = len(kid.parameters) - case["pn"]
        tags.append("df" + ("0" if df_ == 0 else "+" if df_ > 0 else "-"))
        c = lrt.cutoff(parent, kid, alpha)
        t = bool(lrt.test(parent, kid, pofv, o, alpha))
        want_c = 0.0 if df_ == 0 else (float(chi2.isf(alpha, df_)) if df_ > 0 else -float(chi2.isf(alpha, -df_)))
        if c != want_c or lrt.degrees_of_freedom(parent, kid) != df_:
            mon.append({"cls": "lrt-cutoff", "what": f"cutoff(df={df_}, alpha={alpha}) = {c}, chi-square quantile {want_c}"})
        if t != bool(pofv - o >= want_c):
            mon.append({"cls": "lrt-test", "what": f"test(df={df_}, dofv={pofv - o}, alpha={alpha}) = {t}, cut-off {want_c}"})
        if df_ > 0 and not math.isnan(pofv - o):
            p = lrt.p_value(parent, kid, pofv, o)
            want_p = float(chi2.sf(pofv - o, df_))
            if not close(p, Fraction(want_p)):
                mon.append({"cls": "lrt-p-value", "what": f"p_value(dofv={pofv - o}, df={df_}) = {p}, chi2.sf gives {want_p}"})
            if abs(p - alpha) > 1e-9 and t != (p <= alpha):
                mon.append({"cls": "lrt-p-value-vs-test", "what": f"p={p} alpha={alpha} test={t}"})
        if drv is not None:
            mc = drv.ask(["lrt-cutoff", tab, df_, frd(case["alpha"])])
            if mc != fr(c):
                k.append(f"lrt.cutoff(df={df_}, alpha={alpha}): model {mc} code {fr(c)}")
            mt = drv.ask(["lrt-test", tab, case["pn"], len(kid.parameters), fr(pofv), fr(o), frd(case["alpha"])])
            if mt != ("true" if t else "false"):
                k.append(f"lrt.test(df={df_}, parent {pofv}, child {o}, alpha={alpha}): model {mt} code {t}")
    best = lrt.best_of_many(parent, kids, pofv, ofvs, alpha)
    got = "parent" if best is parent else str(kids.index(best))
    finite = [(o, i) for i, o in enumerate(ofvs) if not math.isnan(o)]
    if not finite:
        want = "parent"
        tags.append("best-of-many:all-nan")
    else:
        o, i = min(finite)
        df_ = len(kids[i].parameters) - case["pn"]
        want_c = 0.0 if df_ == 0 else (float(chi2.isf(alpha, df_)) if df_ > 0 else -float(chi2.isf(alpha, -df_)))
        want = str(i) if pofv - o >= want_c else "parent"
        tags.append("best-of-many:" + ("child" if want != "parent" else "parent"))
    if got != want:
        mon.append({"cls": "best-of-many", "what": f"best_of_many -> {got}, lowest-OFV candidate tested against the parent -> {want} "
                    f"(parent {case['pn']} params ofv {pofv}; candidates {case['models']}; alpha {alpha})"})
    if drv is not None:
        m = drv.ask(["best-of-many", tab, case["pn"], fr(pofv), [[len(kd.parameters), fr(o)] for kd, o in zip(kids, ofvs)], frd(case["alpha"])])
        if m != got:
            k.append(f"best_of_many: model {m} code {got}")
    return {"k": k, "mon": mon, "tags": tags, "nontrivial": True}


# ------------------------------------------------------------------ kind = crit

def run_crit(case, drv):
    k, mon, tags = [], [], [f"crit-pool={case['pool']}"]
    pmod = POOL[case["pool"] % NPOOL]
    model = pmod.model
    ofv = f_or_nan(case["ofv"])
    f, r = mres._categorize_parameters(model)
    cf, cr = sorted(str(x) for x in f), sorted(str(x) for x in r)
    nonfixed = {p.name for p in model.parameters if not p.fix}
    if set(cf) & set(cr) or not (set(cf) | set(cr)) <= nonfixed:
        mon.append({"cls": "categorize-not-a-partition", "what": f"fixed {cf} random {cr} nonfixed {sorted(nonfixed)}"})
    if cf != pmod.spec_fixed or cr != pmod.spec_rand:
        mon.append({"cls": "categorize-spec", "what": f"_categorize_parameters gives fixed {cf} random {cr}; "
                    f"definition (random = omegas + parameters of expressions with an eta, fixed = the other visited ones) gives "
                    f"{pmod.spec_fixed} / {pmod.spec_rand}"})
    cnt = pmod.counts(drv)
    if drv is not None:
        if [cf, cr] != pmod.lean_cat:
            k.append(f"_categorize_parameters: model {pmod.lean_cat} code {[cf, cr]}")
    blank = [fr(ofv), True, "", "5", [], "none", [], []]
    for rt, bt in [("aic", None), ("bic", "mixed"), ("bic", "fixed"), ("bic", "random"), ("bic", "iiv")]:
        got = mres.calculate_aic(model, ofv) if rt == "aic" else mres.calculate_bic(model, ofv, type=bt)
        got = nn(got)
        want = None if math.isnan(ofv) else pmod.crit(ofv, rt, bt)
        if not close(got, None if want is None else Fraction(want)):
            mon.append({"cls": "criterion-formula", "what": f"{rt}/{bt} of pool model {case['pool']} at ofv {ofv}: {got}, documented formula {want}"})
        if drv is not None:
            m = drv.ask(["rankval", blank, cnt, "none", ["bic", bt] if rt == "bic" else rt])
            if not close(got, unfr(m) if isinstance(m, str) else None) or not isinstance(m, str):
                k.append(f"{rt}/{bt}: model {m} code {got}")
    try:
        mres.calculate_bic(model, ofv, type="nonsense")
        mon.append({"cls": "bic-unknown-type-accepted", "what": "calculate_bic(type='nonsense') returned"})
    except ValueError:
        pass
    return {"k": k, "mon": mon, "tags": tags, "nontrivial": True}


def run_case(case, drv):
    kind = case.get("kind")
    if kind == "rank":
        return run_rank(case, drv)
    if kind == "lrt":
        return run_lrt(case, drv)
    if kind == "crit":
        return run_crit(case, drv)
    if kind == "stats":
        return S.run_case(case, drv)
    raise ValueError(f"unknown case kind {kind!r}")
