"""C04, public-API part: whole control streams with generated $THETA/$OMEGA/$SIGMA layouts, edit sequences through
pharmpy.modeling, read-back monitors, and replay of every ThetaRecord.update/remove call of the real update_thetas on
the Lean model."""
from __future__ import annotations

import math
import random

from harness.corr import c04_util as U

INF = float("inf")
_LOG = None  # list collecting (kind, root_before, args, result) while an edit sequence runs


# ================================================================== generation

def gen_api_case(rng: random.Random, tier: str):
    nth_rec = rng.choice([1, 1, 2, 3])
    thetas = []
    for _ in range(nth_rec):
        txt, metas = U.gen_theta_record(rng, nitems=rng.choice([1, 2, 2, 3]), named=rng.random() < 0.3,
                                        allow_xn=rng.random() < 0.5)
        thetas.append(txt)
    omegas = []
    for _ in range(rng.choice([1, 1, 2, 3])):
        if rng.random() < 0.6:
            txt, _ = U.gen_diag_record(rng, "$OMEGA", allow_xn=rng.random() < 0.5)
        else:
            txt, _ = U.gen_block_record(rng, "$OMEGA")
        omegas.append(txt)
    sigmas = []
    for _ in range(rng.choice([1, 1, 2])):
        if rng.random() < 0.75:
            txt, _ = U.gen_diag_record(rng, "$SIGMA", nitems=rng.choice([1, 1, 2]), allow_xn=False, allow_zero_fix=False)
        else:
            txt, _ = U.gen_block_record(rng, "$SIGMA", size=2)
        sigmas.append(txt)
    nmax = 4 if tier == "quick" else 7
    edits = [gen_edit(rng) for _ in range(rng.randint(1, nmax))]
    if rng.random() < 0.25:
        # unfix / fix / unfix (or the reverse) of one block or value of $OMEGA / $SIGMA
        which, i = rng.choice(["omega", "omega", "sigma"]), rng.randrange(1000)
        seq = [["unfix", which, i], ["fix", which, i], ["unfix", which, i]]
        if rng.random() < 0.5:
            seq = seq[1:] + [["fix", which, i]]
        edits = (edits[:1] if rng.random() < 0.5 else []) + seq[:rng.choice([1, 2, 3])]
    if rng.random() < 0.15:
        # removal of a random effect somewhere in the sequence (diagonal records with stand-alone comment lines need it)
        edits.insert(rng.randrange(len(edits) + 1), ["rmiiv", rng.randrange(1000)])
    return {"kind": "api", "thetas": thetas, "omegas": omegas, "sigmas": sigmas, "edits": edits, "seed": rng.randrange(1 << 30)}


def gen_edit(rng):
    r = rng.random()
    i = rng.randrange(1000)
    if r < 0.22:
        return ["init", rng.choice(["theta", "theta", "omega", "sigma"]), i, rng.choice([4.0, 0.25, 2.0, 1.5, 9.0])]
    if r < 0.32:
        return ["lower", i, rng.choice(["-inf", 0.5, 1.0, 3.0, 0.125])]
    if r < 0.42:
        return ["upper", i, rng.choice(["inf", 0.5, 1.0, 3.0, 1000.0])]
    if r < 0.52:
        return ["fix", rng.choice(["theta", "theta", "omega", "sigma"]), i]
    if r < 0.60:
        return ["unfix", rng.choice(["theta", "theta", "omega", "sigma"]), i]
    if r < 0.68:
        lower = rng.choice(["-inf", 0.0, 1.0])
        upper = rng.choice(["inf", "inf", 100.0])
        return ["addtheta", f"NEWP{rng.randint(1, 99)}", rng.choice([2.0, 23.0, 0.5, 1.0e-3]), lower, upper, rng.random() < 0.25]
    if r < 0.76:
        return ["rmtheta", i]
    if r < 0.83:
        return ["join", i, rng.randrange(1000)]
    if r < 0.89:
        return ["split", i]
    if r < 0.95:
        return ["addiiv", i, rng.choice(["add", "exp", "prop"])]
    return ["rmiiv", i]


def corpus_cases():
    base = {"kind": "api", "omegas": ["$OMEGA 0.1\n"], "sigmas": ["$SIGMA 1\n"], "seed": 11}
    return [
        dict(base, thetas=["$THETA (1)x2\n"], edits=[["init", "theta", 0, 4.0]]),
        dict(base, thetas=["$THETA (0,3,1E2) 2\n"], edits=[["init", "theta", 1, 4.0]]),
        dict(base, thetas=["$THETA (1)x2 3\n"], edits=[["rmtheta", 2]]),
        dict(base, thetas=["$THETA 1 2 ; B\n"], edits=[["rmtheta", 1]]),
        dict(base, thetas=["$THETA 1 2\n"], omegas=["$OMEGA BLOCK(2) SD CORR 0.1 0.25 0.2\n"], edits=[["init", "omega", 0, 4.0]]),
        dict(base, thetas=["$THETA 1 2\n"], omegas=["$OMEGA (0.1)x2 0.3\n"], edits=[["init", "omega", 0, 4.0]]),
        dict(base, thetas=["$THETA 1 2\n"], omegas=["$OMEGA 0.1 0.2 FIX 0.3\n"], edits=[["rmiiv", 1]]),
        dict(base, thetas=["$THETA 1 2\n"], omegas=["$OMEGA 0.1 0.2\n"], edits=[["join", 0, 1], ["split", 0]]),
        dict(base, thetas=["$THETA 1 2\n"], omegas=["$OMEGA 0.1\n 0.2\n ; IIV_V\n 0.3 ; IIV_KA\n"], edits=[["init", "omega", 2, 4.0], ["rmiiv", 1]]),
        dict(base, thetas=["$THETA 1 2\n"], omegas=["$OMEGA 0.1\n 0.2 ; IIV_V\n ; previous_value 0.4\n 0.3 ; IIV_KA\n"], edits=[["rmiiv", 1]]),
    ]


def shrink(case):
    ed = case["edits"]
    for i in range(len(ed)):
        if len(ed) > 1:
            c = dict(case)
            c["edits"] = ed[:i] + ed[i + 1:]
            yield c
    for key in ("thetas", "omegas", "sigmas"):
        for i in range(len(case[key])):
            if len(case[key]) > 1:
                c = dict(case)
                c[key] = case[key][:i] + case[key][i + 1:]
                yield c


# ================================================================== real-code side

def worker_init():
    global mod, create_record, ThetaRecord, OmegaRecord, Parameters, Parameter, Statements, Assignment, Expr
    global ModelSyntaxError, lark_errors, read_model_from_string, NoSuchRuleException
    import pharmpy.modeling as mod  # noqa
    from pharmpy.basic import Expr  # noqa
    from pharmpy.model import Assignment, ModelSyntaxError, Parameter, Parameters, Statements  # noqa
    from pharmpy.model.external.nonmem.records.factory import create_record  # noqa
    from pharmpy.model.external.nonmem.records.omega_record import OmegaRecord  # noqa
    from pharmpy.model.external.nonmem.records.theta_record import ThetaRecord  # noqa
    from pharmpy.internals.parse.generic import NoSuchRuleException  # noqa
    from pharmpy.modeling import read_model_from_string  # noqa
    import lark.exceptions as lark_errors  # noqa
    _install_recorders()


def _install_recorders():
    """Wrap ThetaRecord.update/remove so that every call made by update_thetas is recorded (arguments and result).
    The wrapped functions are the real ones; nothing in /repo is changed."""
    if getattr(ThetaRecord, "_c04_wrapped", False):
        return
    real_update, real_remove = ThetaRecord.update, ThetaRecord.remove

    def update(self, parameters):
        ps = [(p.init, p.lower, p.upper, p.fix) for p in parameters]
        try:
            res = real_update(self, parameters)
        except Exception as e:
            if _LOG is not None:
                _LOG.append(("update", self, ps, e))
            raise
        if _LOG is not None:
            _LOG.append(("update", self, ps, res))
        return res

    def remove(self, inds):
        res = real_remove(self, inds)
        if _LOG is not None:
            _LOG.append(("remove", self, list(inds), res))
        return res

    ThetaRecord.update = update
    ThetaRecord.remove = remove
    ThetaRecord._c04_wrapped = True

    real_oremove = OmegaRecord.remove

    def oremove(self, inds):
        res = real_oremove(self, inds)
        if _LOG is not None:
            _LOG.append(("oremove", self, list(inds), res))
        return res

    OmegaRecord.remove = oremove
    real_oupdate = OmegaRecord.update

    def oupdate(self, parameters):
        ps = [(float(p.init), bool(p.fix)) for p in parameters]
        res = real_oupdate(self, parameters)
        if _LOG is not None:
            _LOG.append(("oupdate", self, ps, res))
        return res

    OmegaRecord.update = oupdate


def count_thetas(texts):
    n = 0
    for t in texts:
        rec = create_record(t)
        n += len(rec)
    return n


def count_rvs(texts):
    n = 0
    for t in texts:
        rec = create_record(t)
        for names, inits, fix, same in rec.parse():
            n += 1 if len(inits) == 1 else int(round((math.sqrt(8 * len(inits) + 1) - 1) / 2))
    return n


def build_code(case):
    nth = count_thetas(case["thetas"])
    neta = count_rvs(case["omegas"])
    neps = count_rvs(case["sigmas"])
    pred = "".join(f"T{i} = THETA({i})\n" for i in range(1, nth + 1))
    pred += "".join(f"E{i} = ETA({i})\n" for i in range(1, neta + 1))
    terms = [f"T{i}" for i in range(1, nth + 1)] + [f"E{i}" for i in range(1, neta + 1)] + [f"EPS({i})" for i in range(1, neps + 1)]
    pred += "Y = " + " + ".join(terms) + "\n"
    return ("$PROBLEM p\n$INPUT ID TIME DV\n$DATA x.csv IGNORE=@\n$PRED\n" + pred + "".join(case["thetas"])
            + "".join(case["omegas"]) + "".join(case["sigmas"]) + "$ESTIMATION METHOD=1\n")


def theta_params(m):
    rvsyms = m.random_variables.free_symbols
    return [p for p in m.parameters if p.symbol not in rvsyms]


def rv_params(m, which):
    rvs = m.random_variables.etas if which == "omega" else m.random_variables.epsilons
    names = rvs.parameter_names
    return [m.parameters[n] for n in names if n in m.parameters.names]


def sig(x, n=12):
    x = float(x)
    if x == 0 or math.isinf(x) or math.isnan(x):
        return x
    return float(f"{x:.{n - 1}e}")


def snapshot(m):
    th = [(p.name, float(p.init), float(p.lower), float(p.upper), bool(p.fix)) for p in theta_params(m)]
    rvsyms = {str(s) for s in m.random_variables.free_symbols}
    om = {p.name: (sig(p.init), bool(p.fix)) for p in m.parameters if p.name in rvsyms}

    def dists(rvs):
        out = []
        for d in rvs:
            v = d.variance
            if len(d) == 1:
                var = [[str(v)]]
            else:
                var = [[str(v[i, j]) for j in range(len(d))] for i in range(len(d))]
            out.append((tuple(d.names), str(d.level).upper(), var))
        return out
    return {"thetas": th, "omegas": om, "etas": dists(m.random_variables.etas), "epsilons": dists(m.random_variables.epsilons)}


def positional(snap):
    """rename parameters whose name has the default form (THETA_i, OMEGA_i_j, SIGMA_i_j) to the default name of the position
    they have now; names carried by comments are kept"""
    import re
    ren = {}
    th = []
    for k, t in enumerate(snap["thetas"], 1):
        nm = t[0]
        if re.fullmatch(r"THETA_\d+", nm):
            ren[nm] = f"THETA_{k}"
        th.append((ren.get(nm, nm),) + tuple(t[1:]))
    out = {"thetas": th}
    for key, rec in (("etas", "OMEGA"), ("epsilons", "SIGMA")):
        e = 1
        dists = []
        for names, level, var in snap[key]:
            n = len(names)
            for i in range(n):
                for j in range(i + 1):
                    nm = var[i][j]
                    if re.fullmatch(rec + r"_\d+_\d+", nm):
                        ren.setdefault(nm, f"{rec}_{e + i}_{e + j}")
            dists.append((names, level, [[ren.get(x, x) for x in row] for row in var]))
            e += n
        out[key] = dists
    out["omegas"] = {ren.get(n, n): v for n, v in snap["omegas"].items()}
    return out


def nameless(snap):
    """the snapshot with parameter names erased: values by position"""
    out = {"thetas": [t[1:] for t in snap["thetas"]]}
    for key in ("etas", "epsilons"):
        out[key] = [(names, level, [[snap["omegas"].get(x) for x in row] for row in var]) for names, level, var in snap[key]]
    return out


def has_misplaced_default_name(snap):
    import re
    for k, t in enumerate(snap["thetas"], 1):
        if re.fullmatch(r"THETA_\d+", t[0]) and t[0] != f"THETA_{k}":
            return True
    for key, rec in (("etas", "OMEGA"), ("epsilons", "SIGMA")):
        e = 1
        for names, level, var in snap[key]:
            n = len(names)
            for i in range(n):
                for j in range(i + 1):
                    if re.fullmatch(rec + r"_\d+_\d+", var[i][j]) and var[i][j] != f"{rec}_{e + i}_{e + j}":
                        return True
            e += n
    return False


REFUSALS = (ValueError, NotImplementedError)


def block_of(m, pname):
    """names of all parameters of the distribution that has `pname` in its variance"""
    for d in m.random_variables:
        if pname in d.parameter_names:
            return list(d.parameter_names)
    return [pname]


def apply_edit(m, ed, tags):
    """returns the edited model, or None when the edit does not apply to this model (skipped)"""
    op = ed[0]
    if op == "init":
        _, which, i, f = ed
        ps = theta_params(m) if which == "theta" else rv_params(m, which)
        if not ps:
            return None
        p = ps[i % len(ps)]
        if which == "theta":
            v = p.init * f if p.init != 0 else f
            if not (p.lower < v < p.upper) or abs(v) >= 1e6:
                return None
        else:
            diag = p.lower == 0 or "_".join(p.name.split("_")[-2:-1]) == p.name.split("_")[-1]
            is_diag = any(str(d.variance) == p.name if len(d) == 1 else any(str(d.variance[k, k]) == p.name for k in range(len(d)))
                          for d in m.random_variables)
            if p.init == 0:
                return None
            v = p.init * f if (is_diag and f >= 1) else p.init * 0.5 if not is_diag else p.init * f
            if is_diag and f < 1 and len(block_of(m, p.name)) > 1:
                return None  # shrinking a variance inside a block may lose positive definiteness
        return mod.set_initial_estimates(m, {p.name: v})
    if op in ("lower", "upper"):
        _, i, d = ed
        ps = theta_params(m)
        if not ps:
            return None
        p = ps[i % len(ps)]
        if op == "lower":
            v = -INF if d == "-inf" else p.init - d
            if v == p.init and p.upper == INF:
                return None
            return mod.set_lower_bounds(m, {p.name: v})
        v = INF if d == "inf" else p.init + d
        return mod.set_upper_bounds(m, {p.name: v})
    if op in ("fix", "unfix"):
        _, which, i = ed
        ps = theta_params(m) if which == "theta" else rv_params(m, which)
        if not ps:
            return None
        p = ps[i % len(ps)]
        names = [p.name] if which == "theta" else block_of(m, p.name)
        if op == "unfix" and any(m.parameters[n].init == 0 for n in names):
            return None
        return (mod.fix_parameters if op == "fix" else mod.unfix_parameters)(m, names)
    if op == "addtheta":
        _, name, init, lower, upper, fix = ed
        if name in m.parameters.names:
            return None
        lower = -INF if lower == "-inf" else lower
        upper = INF if upper == "inf" else upper
        if not (lower < init < upper):
            return None
        return mod.add_population_parameter(m, name, init, lower=lower, upper=upper, fix=fix)
    if op == "rmtheta":
        ps = theta_params(m)
        if len(ps) < 2:
            return None
        p = ps[ed[1] % len(ps)]
        sym = p.symbol
        users = [s for s in m.statements if isinstance(s, Assignment) and sym in s.expression.free_symbols]
        y = m.statements.find_assignment("Y")
        if len(users) != 1 or users[0] is y or users[0].expression != sym:
            # a parameter that is used elsewhere (e.g. after add_iiv) or not at all
            if users:
                return None
            new_sts = m.statements
        else:
            tsym = users[0].symbol
            if any(tsym in s.expression.free_symbols for s in m.statements if s is not y and isinstance(s, Assignment)):
                return None
            new_y = Assignment(y.symbol, y.expression.subs({tsym: 0}))
            new_sts = Statements([new_y if s is y else s for s in m.statements if s is not users[0]])
        new_ps = Parameters.create([q for q in m.parameters if q.name != p.name])
        return m.replace(statements=new_sts, parameters=new_ps).update_source()
    etas = [d for d in m.random_variables.etas]
    names = m.random_variables.etas.names
    if op == "join":
        # documented precondition of create_joint_distribution: IIV etas that are not fixed
        cand = [n for d in etas for n in d.names if str(d.level).upper() == "IIV"
                and not any(m.parameters[pn].fix for pn in d.parameter_names)]
        if len(cand) < 2:
            return None
        a, b = cand[ed[1] % len(cand)], cand[ed[2] % len(cand)]
        if a == b:
            return None
        return mod.create_joint_distribution(m, [a, b])
    if op == "split":
        cand = [n for d in etas if len(d) > 1 for n in d.names]
        if not cand:
            return None
        return mod.split_joint_distribution(m, [cand[ed[1] % len(cand)]])
    if op == "addiiv":
        ts = [str(s.symbol) for s in m.statements if isinstance(s, Assignment) and str(s.symbol).startswith("T")
              and not (s.expression.free_symbols & set(m.random_variables.free_symbols | {Expr.symbol(n) for n in m.random_variables.names}))]
        if not ts:
            return None
        return mod.add_iiv(m, [ts[ed[1] % len(ts)]], ed[2])
    if op == "rmiiv":
        if len(names) < 2:
            return None
        return mod.remove_iiv(m, [names[ed[1] % len(names)]])
    raise RuntimeError(f"unknown edit {ed}")


def _replay_block_update(rec, args, res, drv, k, tags):
    """K: OmegaRecord.update of a BLOCK(n) record (non-CHOLESKY, non-SAME) vs the Lean scale conversion fromCovE"""
    from fractions import Fraction
    from harness.corr import c04
    if drv is None or not rec.root.find("block") or rec.root.find("same"):
        return
    try:
        fix, sd, corr, chol = rec._block_flags()
    except ModelSyntaxError:
        return
    if chol:
        tags.append("k:api-omega-block-cholesky-skipped")
        return
    size = int(str(rec.root.subtree("block").subtree("size")))
    cov = [v for v, _ in args]
    if len(cov) != size * (size + 1) // 2:
        return
    m = drv.ask(["fromcov", sd, corr, size, [[Fraction(v).numerator, Fraction(v).denominator] for v in cov]])
    raw = []
    for node in res.root.subtrees("omega"):
        n = int(str(node.subtree("n").leaf("INT"))) if node.find("n") else 1
        raw += [float(str(node.subtree("init")))] * n
    if m[0] != "ok":
        tags.append("k:api-omega-block-irrational")
        return
    mv = [int(a) / int(b) for a, b in m[1]]
    tags.append("k:api-omega-block-update")
    if [c04.sig(v) for v in mv] != [c04.sig(v) for v in raw]:
        k.append(f"update_random_variable_records -> OmegaRecord.update({str(rec.root)!r}, {cov}): model {mv} code {raw}")
    # token level (FIX handling, xn split, spelling)
    fixes = {f for _, f in args}
    if len(fixes) == 1:
        newfix = fixes.pop()
        ws, news, olds = U.block_update_args(rec, cov, size, sd, corr, newfix)
        m = drv.ask(["bupdate", U.brec_wire(rec.root), ws, news, olds, bool(newfix)])
        want = ["ok", U.norm(U.brec_wire(res.root))]
        tags.append("k:api-omega-block-tokens")
        if m != want:
            k.append(f"update_random_variable_records -> OmegaRecord.update(BLOCK {str(rec.root)!r}, fix={newfix}): model {str(m)[:500]} code {str(want)[:500]}")


def _param_records(code):
    """texts of the $THETA / $OMEGA / $SIGMA records of a control stream, in order"""
    recs, cur = [], None
    for line in code.splitlines(keepends=True):
        if line.startswith("$"):
            cur = [line] if line[:4].upper() in ("$THE", "$OME", "$SIG") else None
            if cur is not None:
                recs.append(cur)
        elif cur is not None:
            cur.append(line)
    return ["".join(r) for r in recs]


def theta_item_table(code):
    """[(facts, n)] for every theta item of every $THETA record of a control stream, in order"""
    from harness.corr import c04
    out = []
    cur = None
    recs = []
    for line in code.splitlines(keepends=True):
        if line.startswith("$"):
            cur = [line] if line.upper().startswith("$THETA") else None
            if cur is not None:
                recs.append(cur)
        elif cur is not None:
            cur.append(line)
    for r in recs:
        rec = create_record("".join(r))
        for nd in c04.item_nodes(rec):
            out.append(c04.item_facts(nd))
    return out


def run_api_case(case, drv):
    from harness.corr import c04
    global _LOG
    k, mon, tags = [], [], ["kind:api"]
    try:
        code0 = build_code(case)
        m0 = read_model_from_string(code0)
    except (ModelSyntaxError, lark_errors.LarkError, NoSuchRuleException) as e:
        tags.append("layout-refused:" + type(e).__name__)
        return {"k": k, "mon": mon, "tags": tags, "nontrivial": False}
    s0 = snapshot(m0)
    items0 = theta_item_table(code0)
    if any(f["n"] > 1 for f in items0):
        tags.append("layout:theta-xn")
    for t in case["omegas"] + case["sigmas"]:
        for w in ("BLO", "SD", "STA", "COR", "FIX", ")x", "DIA"):
            if w in t.upper().replace(")X", ")x"):
                tags.append("layout:rv-" + w.strip(")"))
    # ---- no-op write: an unmodified model keeps the spelling of every parameter record
    try:
        code_noop = m0.update_source().code
    except Exception as e:
        code_noop = None
        mon.append({"cls": "noop-update-internal-error", "what": f"update_source() of the unmodified model raised {type(e).__name__}: {str(e)[:150]}"})
    if code_noop is not None:
        a, b = _param_records(code0), _param_records(code_noop)
        tags.append("op:noop-write")
        if a != b:
            for ra, rb in zip(a, b):
                if ra != rb:
                    up = ra.upper()
                    if "BLO" in up and "COR" in up:
                        cls = "omega-block-corr-noop-respelled"
                    else:
                        cls = "noop-record-rewritten"
                    mon.append({"cls": cls, "what": f"update_source() of the unmodified model rewrites {ra!r} as {rb!r}"})
                    break
            else:
                mon.append({"cls": "noop-record-rewritten", "what": f"update_source() of the unmodified model changes the number of parameter records: {a} -> {b}"})
    m = m0
    history = []
    _LOG = []
    applied = []
    failed = None
    try:
        for ed in case["edits"]:
            try:
                m2 = apply_edit(m, ed, tags)
            except REFUSALS as e:
                tags.append(f"edit-refused:{ed[0]}:{type(e).__name__}")
                continue
            except Exception as e:  # internal error while editing / writing back
                failed = (ed, e)
                break
            if m2 is None:
                tags.append("edit-skipped:" + ed[0])
                continue
            m = m2
            applied.append(ed)
            tags.append("edit:" + ed[0])
            history.append([(p.name, float(p.init), float(p.lower), float(p.upper), bool(p.fix)) for p in theta_params(m)])
    finally:
        log, _LOG = _LOG, None
    # ---- K: replay every recorded ThetaRecord.update/remove call on the Lean model; record-level monitors on it
    call_classes = []
    for kind, rec, args, res in log:
        w = U.rec_wire(rec.root) if kind in ("update", "remove") else None
        if kind == "oupdate":
            if rec.root.find("block") or rec.root.find("bare_block"):
                _replay_block_update(rec, args, res, drv, k, tags)
                if len(list(res.root.subtrees("omega"))) > len(list(rec.root.subtrees("omega"))) and c04.block_named_xn(rec):
                    call_classes.append({"cls": "omega-block-repeat-split-comment",
                                         "what": f"OmegaRecord.update splits a (v)xn node of {str(rec.root)!r} that is followed by a name comment"})
            else:
                if drv is not None:
                    c04.k_diag_update(rec, args, res, drv, k, "update_random_variable_records -> ")
                    tags.append("k:api-omega-diag-update")
                pos = 0
                for nd in c04.diag_items(rec):
                    n = int(str(nd.subtree("n").leaf("INT"))) if nd.find("n") else 1
                    if n > 1 and any(a != args[pos] for a in args[pos:pos + n]):
                        call_classes.append({"cls": "omega-diag-repeat-split", "what": f"OmegaRecord.update splits {str(nd)!r}"})
                    pos += n
            continue
        if kind == "update":
            if drv is not None:
                mres = drv.ask(["update", w, [U.param_wire(*t) for t in args]])
                if isinstance(res, Exception):
                    want = ["err", type(res).__name__]
                else:
                    want = ["ok", U.norm(U.rec_wire(res.root))]
                if mres != want:
                    k.append(f"update_thetas -> ThetaRecord.update({str(rec.root)!r}, {args}): model {str(mres)[:500]} code {str(want)[:500]}")
            tags.append("k:api-theta-update")
            if isinstance(res, Exception):
                continue
            # the in-memory tree may hold tokens the lexer would classify differently (NUMERIC '-inf'): parse its text
            rtxt, _ = c04.try_record("$THETA" + str(rec.root))
            if rtxt is None:
                continue
            old = c04.py_parse(rtxt)
            if isinstance(old, tuple) or len(args) != len(old):
                continue
            facts = [c04.item_facts(nd) for nd in c04.item_nodes(rec)]
            sub = []
            c04._monitor_update({"rec": "$THETA" + str(rec.root)}, rec, facts, old, list(args), res, None, [], sub, [])
            call_classes += sub
        elif kind == "oremove":
            if rec.root.find("block") or rec.root.find("bare_block") or not args:
                continue
            if drv is not None:
                mres = drv.ask(["dremove", U.drec_wire(rec.root), [i for i, _ in args]])
                if mres != U.norm(U.drec_wire(res.root)):
                    k.append(f"update_random_variable_records -> OmegaRecord.remove({str(rec.root)!r}, {args}): model {str(mres)[:400]} code {str(res.root)!r}")
                tags.append("k:api-omega-diag-remove")
            nitems = len(list(rec.root.subtrees("diag_item")))
            removed = {i for i, _ in args}
            kept = set(range(nitems)) - removed
            sub = []
            if not any(nd.find("n") for nd in rec.root.subtrees("diag_item")) and \
                    c04.monitor_diag_remove_names("$" + str(rec.name).upper().lstrip("$"), rec, removed, res, sub):
                call_classes += sub
            if drv is not None:
                c04.k_diag_names(res, drv, k, f"update_random_variable_records -> OmegaRecord.remove({args}): ")
            if any(nd.find("n") for nd in rec.root.subtrees("diag_item")):
                call_classes.append({"cls": "omega-diag-repeat-remove", "what": f"OmegaRecord.remove({args}) on {str(rec.root)!r}: indices count etas, items are counted"})
            elif kept and (nitems - 1) in removed:
                call_classes.append({"cls": "omega-diag-remove-last-item", "what": f"OmegaRecord.remove({args}) on {str(rec.root)!r} drops the final newline of the record: {str(res.root)!r}"})
            if kept and removed and max(kept) > min(removed):
                call_classes.append({"cls": "omega-diag-remove-before-kept-item", "what": f"OmegaRecord.remove({args}) on {str(rec.root)!r} keeps an item after a removed one"})
        else:
            if drv is not None:
                mres = drv.ask(["remove", w, args])
                if mres != U.norm(U.rec_wire(res.root)):
                    k.append(f"update_thetas -> ThetaRecord.remove({str(rec.root)!r}, {args}): model {str(mres)[:500]} code {str(res.root)!r}")
            tags.append("k:api-theta-remove")
            n_items = len(c04.item_nodes(rec))
            if any(c04.item_facts(nd)["n"] > 1 for nd in c04.item_nodes(rec)) and args:
                call_classes.append({"cls": "theta-repeat-remove", "what": f"ThetaRecord.remove({args}) on {str(rec.root)!r}: indices count parameters, items are counted"})
    ops = sorted({e[0] for e in applied} | ({failed[0][0]} if failed else set()))
    import re as _re
    diag_xn_named = any(_re.search(r"\)x\d+[ \t]*;[ \t]*[A-Za-z_]", t) for t in case["omegas"] + case["sigmas"])
    ctx = dict(items0=items0, s0=s0, applied=applied, ops=ops, call_classes=call_classes, diag_xn_named=diag_xn_named)
    # spelling findings of the record-level monitors are findings of this case too
    for c in call_classes:
        if c["cls"] in ("theta-unchanged-bound-respelled", "theta-unchanged-init-respelled", "theta-frame"):
            mon.append(c)
    if failed is not None:
        ed, e = failed
        cls = classify_api(ctx, None, None, "internal:" + type(e).__name__, ed)
        mon.append({"cls": cls, "what": f"edit {ed} after {applied} on thetas={case['thetas']} omegas={case['omegas']} raised {type(e).__name__}: {str(e)[:200]}"})
        return {"k": k, "mon": mon, "tags": tags, "nontrivial": bool(applied)}
    if not applied:
        return {"k": k, "mon": mon, "tags": tags, "nontrivial": False}
    s1 = snapshot(m)
    code1 = m.code
    domain = all(c04.in_nonmem_domain(t[1:]) for t in s1["thetas"])
    if not domain:
        tags.append("param-outside-nm-domain")
    try:
        m2 = read_model_from_string(code1)
    except (ModelSyntaxError, lark_errors.LarkError, NoSuchRuleException, ValueError) as e:
        if domain:
            cls = classify_api(ctx, s1, None, "unreadable:" + type(e).__name__, None)
            mon.append({"cls": cls, "what": f"after {applied} the code cannot be read ({type(e).__name__}: {str(e)[:120]}): "
                        + _excerpt(code1)})
        return {"k": k, "mon": mon, "tags": tags, "nontrivial": True}
    s2 = snapshot(m2)
    if (domain or s1["thetas"] == s2["thetas"]) and s1 != s2 and positional(s1) != positional(s2) \
            and nameless(s1) == nameless(s2) and has_misplaced_default_name(s1):
        # default names at the wrong position also collide with the reader's own default names (OMEGA_6_6 -> OMEGA_6_6_)
        mon.append({"cls": "default-parameter-name-renumbered",
                    "what": f"after {applied}: default-form names at other positions; thetas {[t[0] for t in s1['thetas']]} vs "
                            f"{[t[0] for t in s2['thetas']]}, rv parameters {sorted(s1['omegas'])} vs {sorted(s2['omegas'])}"})
        return {"k": k, "mon": mon, "tags": tags, "nontrivial": True}
    if (domain or s1["thetas"] == s2["thetas"]) and s1 != s2 and positional(s1) == positional(s2):
        mon.append({"cls": "default-parameter-name-renumbered",
                    "what": f"after {applied}: a parameter named by the default scheme keeps its old number in memory but is read back "
                            f"under the name of its new position: thetas {[t[0] for t in s1['thetas']]} vs {[t[0] for t in s2['thetas']]}, "
                            f"rv parameters {sorted(s1['omegas'])} vs {sorted(s2['omegas'])}"})
    misplaced = has_misplaced_default_name(dict(s1, thetas=[]))
    s1, s2 = positional(s1), positional(s2)
    # random-variable part alone: equal once names are erased, and the in-memory model has default-form names at other
    # positions (they also collide with the reader's own default names: OMEGA_2_2 -> OMEGA_2_2_)
    rv1 = {kk: s1[kk] for kk in ("etas", "epsilons", "omegas")}
    rv2 = {kk: s2[kk] for kk in ("etas", "epsilons", "omegas")}
    if rv1 != rv2 and misplaced:
        n1, n2 = nameless(dict(s1, thetas=[])), nameless(dict(s2, thetas=[]))
        if n1 == n2:
            mon.append({"cls": "default-parameter-name-renumbered",
                        "what": f"after {applied}: rv parameters with default-form names at other positions: {sorted(s1['omegas'])} vs {sorted(s2['omegas'])}"})
            s2 = dict(s2, etas=s1["etas"], epsilons=s1["epsilons"], omegas=s1["omegas"])
    if domain and s1["thetas"] != s2["thetas"]:
        cls = classify_api(ctx, s1, s2, "thetas", None)
        mon.append({"cls": cls, "what": f"after {applied}: in-memory thetas {s1['thetas']} but code reads back {s2['thetas']}: " + _excerpt(code1)})
    for key in ("etas", "epsilons"):
        if s1[key] != s2[key]:
            cls = classify_api(ctx, s1, s2, key, None)
            mon.append({"cls": cls, "what": f"after {applied}: in-memory {key} {s1[key]} but code reads back {s2[key]}: " + _excerpt(code1)})
    if s1["omegas"] != s2["omegas"] and s1["etas"] == s2["etas"] and s1["epsilons"] == s2["epsilons"]:
        cls = classify_api(ctx, s1, s2, "omegas", None)
        diff = {n: (s1["omegas"].get(n), s2["omegas"].get(n)) for n in set(s1["omegas"]) | set(s2["omegas"])
                if s1["omegas"].get(n) != s2["omegas"].get(n)}
        mon.append({"cls": cls, "what": f"after {applied}: omega/sigma parameters differ (memory, re-read) {diff}: " + _excerpt(code1)})
    # ---- spelling of unchanged thetas (positions are comparable when no theta was added or removed)
    theta_failed = any(c["cls"].startswith("theta-") or c["cls"].startswith("api-theta") or c["cls"].startswith("api-code") for c in mon
                       if c["cls"] not in ("theta-unchanged-bound-respelled", "theta-unchanged-init-respelled", "theta-frame"))
    if not theta_failed and not ({"addtheta", "rmtheta"} & set(ops)) and len(s0["thetas"]) == len(s1["thetas"]):
        try:
            items1 = theta_item_table(code1)
        except Exception:
            items1 = None
        if items1 is not None and len(items1) == len(items0):
            pos = 0
            for f0, f1 in zip(items0, items1):
                n = f0["n"]
                if f1["n"] != n:
                    break
                o, nw = s0["thetas"][pos:pos + n], s1["thetas"][pos:pos + n]
                pos += n
                never_changed = all([t[1:] for t in h[pos - n:pos]] == [t[1:] for t in o] for h in history)
                l1 = f0["low"] if (f1["low"] is None and o[0][2] == -INF) else f1["low"]
                u1 = f0["up"] if (f1["up"] is None and o[0][3] == INF) else f1["up"]
                if never_changed and [t[1:] for t in o] == [t[1:] for t in nw] and \
                        (f0["init"], f0["low"], f0["up"]) != (f1["init"], l1, u1):
                    only_bounds = f0["init"] == f1["init"]
                    mon.append({"cls": "theta-unchanged-bound-respelled" if only_bounds else "theta-frame",
                                "what": f"after {applied}: theta item {f0['text']!r} became {f1['text']!r} although its parameter did not change"})
    return {"k": k, "mon": mon, "tags": tags, "nontrivial": True}


def _excerpt(code):
    i = code.find("$THETA")
    j = code.find("$EST")
    return repr(code[i:j])[:600]


def classify_api(ctx, s1, s2, what, ed):
    """decidable witness class of an API-level failure: the class of the failing ThetaRecord.update/remove call when a
    record-level monitor failed on one of the recorded calls, otherwise built from the kind of difference and the edits"""
    ops = ctx["ops"]
    if what == "thetas" or what.startswith("unreadable") or what.startswith("internal"):
        for c in ctx["call_classes"]:
            if c["cls"].startswith("theta-") and c["cls"] not in ("theta-unchanged-bound-respelled", "theta-unchanged-init-respelled", "theta-frame"):
                return c["cls"]
    names = [c["cls"] for c in ctx["call_classes"]]
    if what in ("etas", "epsilons", "omegas") or what.startswith("unreadable") or what.startswith("internal"):
        if "omega-diag-repeat-remove" in names:
            return "omega-diag-repeat-remove"
        if "omega-diag-remove-before-kept-item" in names and "join" in ops + ([ed[0]] if ed else []):
            return "omega-join-inside-diag-record"
        if "omega-diag-remove-last-item" in names and what.startswith("unreadable"):
            return "omega-diag-remove-last-item"
        if "omega-diag-remove-name-readback" in names and what in ("etas", "epsilons", "omegas"):
            return "omega-diag-remove-name-readback"
        if "omega-block-repeat-split-comment" in names and what in ("etas", "epsilons"):
            return "omega-block-repeat-split-comment"
        if "omega-diag-repeat-split" in names and what in ("etas", "epsilons", "omegas"):
            if ctx.get("diag_xn_named") and what != "omegas":
                return "omega-diag-repeat-split-comment"
            return "omega-diag-repeat-split-fix"
    if what == "thetas":
        same_values = s1 is not None and s2 is not None and [t[1:] for t in s1["thetas"]] == [t[1:] for t in s2["thetas"]]
        if same_values and any(f["inner_comment"] for f in ctx["items0"]):
            return "theta-inner-comment-edit"
        if "rmtheta" in ops and same_values:
            return "theta-remove-comment-kept"
        return "api-theta-readback"
    if what.startswith("unreadable"):
        return "api-code-unreadable"
    if what.startswith("internal"):
        return f"api-{what}"
    # the class is the kind of difference, never the mix of edits (that is in the message)
    return f"api-{what}-readback"


def _adjacent(f):
    """RPAR immediately followed by FIX or xn in the item text"""
    import re
    return re.search(r"\)(FIX|x\d)", f["text"]) is not None
