"""C20 — Estimation results are read faithfully from NONMEM output.

Writer : a reference writer following /repo/docs/NONMEM.rst (Python mirror of
         lean/PharmpyModel/C20/Spec.lean; the two are compared line by line on every case).
K      : Lean model (PharmpyModel/C20/{Model,Tables}.lean) vs pharmpy.model.external.nonmem.table
         (NONMEMTableFile / ExtTable / PhiTable / CovTable) on the written files: number of tables,
         title metadata, raw frame, ExtTable.data_frame and every row-selecting property,
         CovTable.data_frame, PhiTable.iofv/etas/etc_data.
Mon    : the property statement on the real code, computed from the structured case only
         (no Lean): parse(render(x)) == x for values / indices / labels, designated rows of the
         .ext file, THETA/OMEGA/SIGMA order and renaming, fixed rows/columns dropped, ETC
         matrices indexed symmetrically; cov/cor/coi/se relations of pharmpy.modeling on positive
         definite matrices; JSON round trip of ModelfitResults.
"""
from __future__ import annotations

import math
import os
import random
import shutil
from fractions import Fraction

from harness.corr import c20_iterdf

ID = "C20"
DRIVER = "drv_c20"
LEAN_TARGETS = ["PharmpyProofs.C20.IterDfProperties", "PharmpyProofs.C20.Properties", "PharmpyProofs.C20.CovProperties", "PharmpyProofs.C20.ResultsProperties",
                "PharmpyProofs.C20.JsonProperties", "PharmpyProofs.C20.LstProperties", "drv_c20"]
PROPERTIES = ["PharmpyProofs/C20/IterDfProperties.lean", "PharmpyProofs/C20/Properties.lean", "PharmpyProofs/C20/CovProperties.lean",
              "PharmpyProofs/C20/ResultsProperties.lean", "PharmpyProofs/C20/JsonProperties.lean",
              "PharmpyProofs/C20/LstProperties.lean"]
LEAN_SOURCES = ["PharmpyModel/C20/*.lean", "PharmpyModel/Generated/ExtCodes.lean", "PharmpyProofs/C20/*.lean",
                "Drivers/C20.lean", "PharmpyModel/Core/Sexp.lean"]
TIME_LIMIT = {"quick": 900, "thorough": 3000}
CASE_CPU_LIMIT = 60
RULE = ("synthetic NONMEM output files rendered by the reference writer (docs/NONMEM.rst: 13-wide right-justified cells, "
        "d.dddddE+xx estimates, integer index columns, 22-wide plain-decimal OBJ, left-justified header) from structured "
        "cases: .ext (1-6 thetas, omega/sigma blocks, fixed entries, 1-3 estimation steps, iteration rows, any subset of "
        "the special rows -1000000000..-1000000008, OBJ/SAEMOBJ/MCMCOBJ header), .phi (ETA/ETC or PHI/PHC, all-zero "
        "individuals), .cov/.cor/.coi (THETA,SIGMA,OMEGA order, symmetric, fixed rows/columns zero), $TABLE output "
        "(12-wide d.ddddE+xx cells, several tables, repeated header lines, NOTITLE, NOLABEL); K-only hostile variants "
        "(cells wider than the field, truncated rows, blank lines, missing first title); positive definite matrices for "
        "the cov/cor/coi/se relations; ModelfitResults JSON round trips. non-trivial = at least 2 data rows and 3 "
        "columns (or a 2x2 matrix); distinct = distinct case JSON")
TRUSTED = [
    "Lean 4.33 kernel; axioms propext, Quot.sound, Classical.choice only (audited per theorem each run)",
    "hand-written model PharmpyModel/C20/{Num,Model,Tables}.lean tied to table.py by the correspondence run of this invocation",
    "translator harness/translate/c20_extcodes.py (Python ast -> Generated/ExtCodes.lean, refuses unknown shapes)",
    "pandas read_table (C tokenizer, float_precision='round_trip'): whitespace splitting, NaN padding of short rows, "
    "correctly rounded decimal->double conversion; modelled by readFrame/parseNum and compared on every case",
    "numpy tril_indices / fancy assignment order (flattened_to_symmetric), compared on every case",
    "harness/corr/c20.py (generator, Python mirror of the reference writer, canonicalisation)",
]
ASSUMPTIONS = [
    "the reference writer follows docs/NONMEM.rst; three-digit exponents and names wider than the header field are "
    "outside the documented format (exercised by K only)",
    "a cell value read by pandas is compared with the correctly rounded double of the written decimal (exact equality)",
    "matrix relations (cor = D^-1 cov D^-1, coi = cov^-1, se = sqrt(diag cov)) are checked numerically with relative "
    "tolerance 1e-8 on well conditioned positive definite matrices; the Lean side proves index/selection logic only",
]

SPECIAL = [-1000000000 - k for k in range(9)]
C_FINAL, C_SE, C_EIGEN, C_COND, C_SDCORR, C_SDCORR_SE, C_FIXED = SPECIAL[:7]


def budget(tier):
    return int(os.environ.get("VERIF_BUDGET", 0)) or {"quick": 1000, "thorough": 16000}[tier]


def translators():
    from harness.translate import c20_extcodes
    return [("T5-ext-codes", c20_extcodes.run)]


# ---------------------------------------------------------------- reference writer (mirror of Spec.lean)

def nat_digits(n: int) -> str:
    return str(n)


def pad_digits(k: int, n: int) -> str:
    return "" if k == 0 else str(n % 10 ** k).rjust(k, "0")


def render_cell(c) -> str:
    t = c[0]
    if t == "i":
        return str(c[1])
    if t == "s":
        _, neg, d, mant, exp = c
        a = abs(exp)
        ed = pad_digits(2, a) if a < 100 else str(a)
        return ("-" if neg else "") + pad_digits(1, mant // 10 ** d) + "." + pad_digits(d, mant) + "E" + \
            ("-" if exp < 0 else "+") + ed
    if t == "f":
        _, neg, ip, k, fp = c
        return ("-" if neg else "") + str(ip) + "." + pad_digits(k, fp)
    if t == "l":
        return c[1]
    raise ValueError(c)


def cell_value(c):
    """exact value of a numeric cell (Fraction), or the label"""
    t = c[0]
    if t == "i":
        return Fraction(c[1])
    if t == "s":
        _, neg, d, mant, exp = c
        return Fraction(-mant if neg else mant) * Fraction(10) ** (exp - d)
    if t == "f":
        _, neg, ip, k, fp = c
        v = Fraction(ip * 10 ** k + fp % 10 ** k, 10 ** k)
        return -v if neg else v
    return c[1]


def cell_ok(c):
    return c[0] != "s" or c[3] < 10 ** (c[2] + 1)


def render_field(col, tok):
    w, al = col
    if al == "r":
        return " " * max(0, w - len(tok)) + tok
    return " " + tok + " " * max(0, w - len(tok))


def render_row(cols, toks):
    return "".join(render_field(c, t) for c, t in zip(cols, toks))


def render_header(hw, names):
    if not names:
        return " "
    return " " + "".join(n + " " * max(0, hw - len(n)) for n in names[:-1]) + names[-1]


def render_body(tab):
    return [render_header(tab["hw"], tab["names"])] + [render_row(tab["cols"], [render_cell(c) for c in r]) for r in tab["rows"]]


def is_token(t):
    return t != "" and " " not in t and "\t" not in t


def fits_field(col, tok):
    return is_token(tok) and (col[1] == "l" or len(tok) < col[0])


def table_fits(tab):
    names = tab["names"]
    if not names or len(set(names)) != len(names) or len(names) != len(tab["cols"]):
        return False
    if not all(is_token(n) for n in names) or not all(len(n) < tab["hw"] for n in names[:-1]):
        return False
    for r in tab["rows"]:
        if len(r) != len(tab["cols"]) or not all(cell_ok(c) for c in r):
            return False
        if not all(fits_field(col, render_cell(c)) for col, c in zip(tab["cols"], r)):
            return False
    return True


def table_fits_records(tab):
    """header-less table (NOLABEL): at least one column, every row one fitting cell per column"""
    if not tab["cols"]:
        return False
    for r in tab["rows"]:
        if len(r) != len(tab["cols"]) or not all(cell_ok(c) for c in r):
            return False
        if not all(fits_field(col, render_cell(c)) for col, c in zip(tab["cols"], r)):
            return False
    return True


def render_title(tab):
    w = tab["now"]
    s = "TABLE NO." + str(tab["number"]).rjust(w)
    ti = tab.get("title")
    if ti is None:
        return s
    s += ": " + ti["method"]
    if ti["design"] is not None:
        s += ": " + ti["design"]
    s += ": "
    if ti["goal"] is not None:
        s += "Goal Function=" + ti["goal"] + ": "
    names = ["Problem=", " Subproblem=", " Superproblem1=", " Iteration1=", " Superproblem2=", " Iteration2="]
    return s + "".join(n + str(v) for n, v in zip(names, ti["nums"]))


def title_fits(tab):
    return len(str(tab["number"])) < tab["now"]


def table_lines(tab, case):
    """lines of one table incl. title (unless notitle) and repeated headers"""
    body = render_body(tab)
    if case.get("nolabel"):
        body = body[1:]
        header = None
    else:
        header = body[0]
    rep = tab.get("repeat", 0)
    if rep and header is not None:
        out = [header]
        for i, l in enumerate(body[1:]):
            if i and i % rep == 0:
                out.append(header)
            out.append(l)
        body = out
    if case.get("notitle"):
        return body
    return [render_title(tab)] + body


# ---------------------------------------------------------------- generation

METHODS = ["First Order", "First Order Conditional Estimation", "First Order Conditional Estimation with Interaction",
           "Laplacian Conditional Estimation", "Iterative Two Stage", "Importance Sampling",
           "Objective Function Evaluation by Importance Sampling", "Stochastic Approximation Expectation-Maximization",
           "MCMC Bayesian Analysis", "First Order (Evaluation)", "First Order Conditional Estimation with Interaction (Evaluation)",
           "NUTS Bayesian Analysis", "Importance Sampling assisted by MAP Estimation (No Prior)"]
GOALS = ["MINIMUM VALUE OF OBJECTIVE FUNCTION", "FINAL VALUE OF OBJECTIVE FUNCTION", "AVERAGE VALUE OF LIKELIHOOD FUNCTION",
         "FINAL VALUE OF LIKELIHOOD FUNCTION"]
DESIGNS = ["D-OPTIMALITY", "A-OPTIMALITY", "DS-OPTIMALITY", "T_OPTIMALITY"]


def gen_sci(rng, d=5, zero_p=0.0, wide=False, neg_p=0.35):
    if rng.random() < zero_p:
        return ["s", False, d, 0, 0]
    mant = rng.randint(10 ** d, 10 ** (d + 1) - 1)
    r = rng.random()
    if wide and r < 0.5:
        exp = rng.choice([-100, -101, -123, 100, 105, -300])
    elif r < 0.75:
        exp = rng.randint(-6, 3)
    elif r < 0.95:
        exp = rng.randint(-30, 30)
    else:
        exp = rng.choice([-99, 99, -98, 98, -50, 50])
    return ["s", rng.random() < neg_p, d, mant, exp]


def gen_obj(rng, zero=False):
    if zero:
        return ["f", False, 0, 16, 0]
    r = rng.random()
    ip = 0 if r < 0.15 else rng.randint(1, 10 ** rng.randint(1, 6))
    k = 17 if ip == 0 else 17 - len(str(ip))
    return ["f", rng.random() < 0.3, ip, k, rng.randrange(10 ** k)]


def gen_title(rng, ext_like=True):
    m = rng.choice(METHODS)
    return {"method": m, "design": rng.choice(DESIGNS) if rng.random() < 0.15 else None,
            "goal": rng.choice(GOALS) if rng.random() < 0.6 else None,
            "nums": [rng.choice([1, 1, 1, 2, 12]), rng.choice([0, 0, 1, 3]), rng.choice([0, 0, 1]), rng.choice([0, 0, 7]),
                     rng.choice([0, 0, 1]), rng.choice([0, 0, 25])]}


def tri_labels(prefix, n):
    return [f"{prefix}({i},{j})" for i in range(1, n + 1) for j in range(1, i + 1)]


def gen_config(rng):
    nth = rng.randint(1, 6)
    if rng.random() < 0.05:
        nth = rng.randint(9, 12)
    oblocks = [rng.choice([1, 1, 2, 3]) for _ in range(rng.randint(1, 3))]
    while sum(oblocks) > 4:
        oblocks.pop()
    sblocks = [rng.choice([1, 1, 2])]
    no, ns = sum(oblocks), sum(sblocks)

    def used(blocks):
        u, off = set(), 0
        for b in blocks:
            for i in range(b):
                for j in range(i + 1):
                    u.add((off + i + 1, off + j + 1))
            off += b
        return u

    thetas = [f"THETA{i}" for i in range(1, nth + 1)]
    sig = tri_labels("SIGMA", ns)
    om = tri_labels("OMEGA", no)
    uo, us = used(oblocks), used(sblocks)
    labels = thetas + sig + om           # NONMEM order
    fixed = {}
    for t in thetas:
        fixed[t] = rng.random() < 0.25
    # blocks are fixed as a whole
    fixb = [rng.random() < 0.2 for _ in oblocks]
    off = 0
    for b, fx in zip(oblocks, fixb):
        for i in range(b):
            for j in range(i + 1):
                fixed[f"OMEGA({off+i+1},{off+j+1})"] = fx
        off += b
    fs = rng.random() < 0.15
    for lab in sig:
        fixed[lab] = fs
    unused = {}
    for lab in om:
        i, j = map(int, lab[6:-1].split(","))
        unused[lab] = (i, j) not in uo
    for lab in sig:
        i, j = map(int, lab[6:-1].split(","))
        unused[lab] = (i, j) not in us
    for t in thetas:
        unused[t] = False
    for lab in labels:
        if unused[lab]:
            fixed[lab] = True
    if all(fixed.values()):
        fixed[thetas[0]] = False
    return {"labels": labels, "fixed": fixed, "unused": unused, "neta": no}


def gen_ext(rng, hostile):
    cfg = gen_config(rng)
    labels = cfg["labels"]
    ntab = rng.choice([1, 1, 1, 2, 3])
    tables = []
    number = rng.choice([1, 1, 1, 2, 11, 100, 12345, 99998])
    for _ in range(ntab):
        objname = rng.choice(["OBJ", "OBJ", "OBJ", "SAEMOBJ", "MCMCOBJ"])
        names = ["ITERATION"] + labels + [objname]
        cols = [[13, "r"]] * (1 + len(labels)) + [[22, "r"]]
        rows = []
        r = rng.random()
        start = 0 if r < 0.85 else rng.choice([1, 5])
        step = rng.choice([1, 1, 5, 10])
        nit = rng.randint(0, 7)
        if rng.random() < 0.08:
            nit = -1  # no iteration rows at all
        its = [start + k * step for k in range(nit + 1)]
        base = {lab: (["s", False, 5, 0, 0] if cfg["unused"][lab] else gen_sci(rng, wide=hostile and rng.random() < 0.3))
                for lab in labels}

        def est_row(it):
            cells = [["i", it]]
            for lab in labels:
                if cfg["fixed"][lab]:
                    cells.append(base[lab])
                else:
                    cells.append(gen_sci(rng, wide=hostile and rng.random() < 0.1))
            cells.append(gen_obj(rng))
            return cells
        for it in its:
            rows.append(est_row(it))
        # special rows
        r = rng.random()
        if r < 0.55:
            present = SPECIAL[:rng.choice([1, 2, 7, 8, 9])]
        elif r < 0.8:
            present = [c for c in SPECIAL if rng.random() < 0.6]
        elif r < 0.9:
            present = []
        else:
            present = [c for c in SPECIAL[1:] if rng.random() < 0.6]
        for code in present:
            cells = [["i", code]]
            for lab in labels:
                if code == C_FIXED:
                    cells.append(["s", False, 5, 100000 if cfg["fixed"][lab] else 0, 0])
                elif code == C_FINAL:
                    cells.append(base[lab] if cfg["fixed"][lab] else gen_sci(rng))
                elif code in (C_SE, C_SDCORR_SE):
                    cells.append(["s", False, 5, 100000, 10] if cfg["fixed"][lab] else gen_sci(rng, neg_p=0))
                elif code in (C_EIGEN, C_COND):
                    cells.append(gen_sci(rng, zero_p=0.5, neg_p=0))
                else:
                    cells.append(gen_sci(rng, zero_p=0.2))
            cells.append(gen_obj(rng, zero=code != C_FINAL))
            rows.append(cells)
        if not rows and rng.random() < 0.7:
            rows.append(est_row(0))
        tables.append({"number": number, "now": 6, "title": gen_title(rng), "hw": 13, "names": names, "cols": cols,
                       "rows": rows, "repeat": 0})
        number += rng.choice([1, 1, 2])
    return {"kind": "ext", "suffix": ".ext", "tables": tables, "fixed": cfg["fixed"]}


def gen_phi(rng, hostile):
    neta = rng.randint(1, 4)
    ntab = rng.choice([1, 1, 2])
    tables = []
    base = rng.choice([0, 0, 9, 98, 4711])
    for k in range(base, base + ntab):
        em = rng.random() < 0.3
        e, c = ("PHI", "PHC") if em else ("ETA", "ETC")
        names = ["SUBJECT_NO", "ID"] + [f"{e}({i})" for i in range(1, neta + 1)] + tri_labels(c, neta) + ["OBJ"]
        ncell = neta + neta * (neta + 1) // 2
        cols = [[13, "r"]] * (2 + ncell) + [[22, "r"]]
        rows = []
        ids = sorted(rng.sample(range(1, 60), rng.randint(0, 6)))
        for s, i in enumerate(ids, start=1):
            r_ = rng.random()
            if r_ < 0.2:       # no observations: zero in every column
                cells = [["s", False, 5, 0, 0] for _ in range(ncell)] + [["f", False, 0, 16, 0]]
            elif r_ < 0.35:    # First Order / all OMEGA fixed to zero: ETA and ETC all zero, but an individual OFV
                cells = [["s", False, 5, 0, 0] for _ in range(ncell)] + [gen_obj(rng)]
            else:
                cells = [gen_sci(rng, zero_p=0.1, wide=hostile and rng.random() < 0.1) for _ in range(ncell)] + [gen_obj(rng)]
            rows.append([["i", s], ["i", i]] + cells)
        tables.append({"number": k + 1, "now": 6, "title": gen_title(rng), "hw": 13, "names": names, "cols": cols,
                       "rows": rows, "repeat": 0})
    return {"kind": "phi", "suffix": ".phi", "tables": tables, "neta": neta}


def gen_cov(rng, hostile):
    cfg = gen_config(rng)
    labels = cfg["labels"]
    n = len(labels)
    suffix = rng.choice([".cov", ".cor", ".coi"])
    zero = [cfg["fixed"][lab] for lab in labels]
    m = [[None] * n for _ in range(n)]
    for i in range(n):
        for j in range(i + 1):
            if zero[i] or zero[j]:
                v = ["s", False, 5, 0, 0]
            else:
                v = gen_sci(rng, zero_p=0.1 if i != j else 0.0, neg_p=0.0 if i == j else 0.4,
                            wide=hostile and rng.random() < 0.1)
            m[i][j] = m[j][i] = v
    names = ["NAME"] + labels
    cols = [[13, "l"]] + [[13, "r"]] * n
    rows = [[["l", labels[i]]] + m[i] for i in range(n)]
    tables = [{"number": rng.choice([1, 1, 2, 10, 321]), "now": 6, "title": gen_title(rng), "hw": 13, "names": names, "cols": cols,
               "rows": rows, "repeat": 0}]
    return {"kind": "cov", "suffix": suffix, "tables": tables}


GEN_COLS = ["ID", "TIME", "DV", "PRED", "IPRED", "CWRES", "RES", "WRES", "MDV", "CIPREDI", "G11", "H11", "AMT", "WT", "_X1"]


def gen_generic(rng, hostile):
    r = rng.random()
    notitle = r < 0.3
    nolabel = rng.random() < (0.3 if notitle else 0.08)     # NOHEADER, or NOLABEL alone (title lines stay)
    ntab = 1 if notitle else rng.choice([1, 1, 2, 3])
    ncol = rng.randint(1, 7)
    names = rng.sample(GEN_COLS, ncol)
    wide = rng.random() < 0.3      # FORMAT=s1PE13.5
    w, d = (13, 5) if wide else (12, 4)
    tables = []
    base = rng.choice([0, 0, 0, 8, 41, 97])
    for k in range(base, base + ntab):
        nrow = rng.randint(0 if not nolabel else 1, 12)   # a NOLABEL table without records is an empty file
        rows = [[gen_sci(rng, d=d, zero_p=0.15, wide=hostile and rng.random() < 0.1) for _ in range(ncol)] for _ in range(nrow)]
        if nrow >= 2 and rng.random() < 0.35:
            # repeated records (constant covariates, several records per individual): a record may equal an earlier one, the first included
            for i in range(1, nrow):
                if rng.random() < 0.45:
                    rows[i] = [list(c) for c in rows[rng.randrange(i)]]
        tables.append({"number": k + 1, "now": 3, "title": None, "hw": w, "names": names, "cols": [[w, "r"]] * ncol,
                       "rows": rows, "repeat": rng.choice([0, 0, 1, 2, 3, 5])})
    return {"kind": "generic", "suffix": rng.choice(["", ".tab", ".dta"]), "tables": tables, "notitle": notitle,
            "nolabel": nolabel}


def gen_mut(rng, case):
    """textual hostile edits (K only)"""
    muts = []
    for _ in range(rng.randint(1, 2)):
        r = rng.random()
        if r < 0.2:
            muts.append(["blank", rng.randint(0, 30)])
        elif r < 0.4:
            muts.append(["truncate", rng.randint(1, 30), rng.randint(5, 40)])
        elif r < 0.5:
            muts.append(["droptitle"])
        elif r < 0.65:
            muts.append(["dupline", rng.randint(1, 30)])
        elif r < 0.8:
            muts.append(["append", rng.randint(1, 30), rng.choice([" 7", " 1.5E+00 2", " X"])])
        else:
            muts.append(["tabs", rng.randint(0, 30)])
    return muts


def apply_muts(lines, muts):
    lines = list(lines)
    for m in muts:
        if not lines:
            break
        if m[0] == "blank":
            lines.insert(m[1] % (len(lines) + 1), "")
        elif m[0] == "truncate":
            i = m[1] % len(lines)
            lines[i] = lines[i][:m[2]]
        elif m[0] == "droptitle":
            lines = lines[1:]
        elif m[0] == "dupline":
            i = m[1] % len(lines)
            lines.insert(i, lines[i])
        elif m[0] == "append":
            i = m[1] % len(lines)
            lines[i] = lines[i] + m[2]
        elif m[0] == "tabs":
            i = m[1] % len(lines)
            lines[i] = lines[i].replace("  ", "\t ", 2)
    return lines


def gen_corr_structure(rng, n):
    """a: mixing matrix (correlation structure = normalised a a^T + n I, eigenvalues well away from 0);
    blocks: exact zero correlations between different blocks"""
    a = [[round(rng.uniform(-1, 1), 3) for _ in range(n)] for _ in range(n)]
    nb = rng.choice([1, 1, 2, 3])
    blocks = [rng.randrange(nb) for _ in range(n)]
    return a, blocks


def gen_scales(rng, n):
    """standard deviations spread over many decades within one matrix (units!): (co)variances from 1e-14 to 1e6"""
    r = rng.random()
    if r < 0.25:
        return [10 ** rng.uniform(-1, 1) for _ in range(n)]          # ordinary
    if r < 0.5:
        return [10 ** rng.uniform(-7, -3.5) for _ in range(n)]       # everything small (variances < 1e-7)
    return [10 ** rng.uniform(-7, 3) for _ in range(n)]              # mixed


def gen_relations(rng):
    n = rng.randint(2, 6)
    a, blocks = gen_corr_structure(rng, n)
    return {"kind": "relations", "a": a, "blocks": blocks, "scale": gen_scales(rng, n),
            "rescale": [rng.randint(-40, 40) for _ in range(n)]}


def gen_rundir(rng):
    """a complete run directory (mod, csv, lst, ext and any non-empty subset of cov/cor/coi); parameters in file order
    THETA1.., SIGMA(1,1), OMEGA(i,i); any of them FIXed (at least one estimated); any of the special ext rows absent"""
    nth = rng.randint(1, 4)
    nom = rng.randint(1, min(2, nth))
    n = nth + nom + 1
    a, blocks = gen_corr_structure(rng, n)
    files = rng.choice([["cov"], ["cov", "coi"], ["coi"], ["cor"], ["cov", "cor"], ["cov", "cor", "coi"], ["cor", "coi"]])
    est = [10 ** rng.uniform(-4, 2) for _ in range(n)]
    rel = [10 ** rng.uniform(-2.5, -0.7) for _ in range(n)]       # relative standard errors
    r = rng.random()
    if r < 0.35:
        fixed = [False] * n
    elif r < 0.6:
        fixed = [i == rng.randrange(n) for i in range(n)]             # exactly one, any position
    else:
        fixed = [rng.random() < 0.4 for _ in range(n)]
    if all(fixed):
        fixed[rng.randrange(n)] = False
    r = rng.random()
    rows = {"se": True, "sdcorr": True, "sdcorr_se": True, "fixedrow": True}
    if r < 0.12:
        rows["fixedrow"] = False          # NM 7.2: FIX flags from the model
    elif r < 0.18:
        rows["sdcorr_se"] = False         # pharmpy treats this as an aborted covariance step
    elif r < 0.24:
        rows["se"] = rows["sdcorr_se"] = False
        files = []                        # no covariance step results at all: NONMEM writes no .cov/.cor/.coi either
    elif r < 0.30:
        rows["sdcorr"] = False
    return {"kind": "rundir", "nth": nth, "nom": nom, "a": a, "blocks": blocks, "est": est,
            "se": [e * q for e, q in zip(est, rel)], "files": files, "fixed": fixed, "rows": rows,
            "table": gen_table_pattern(rng)}


LST_CUTS = ["complete", "complete", "before-first-tbln", "no-lst", "between-blocks", "mid-block", "fewer-blocks", "more-blocks"]


def gen_lst_run(rng):
    """one run: ext with 1-3 estimation tables, lst blocks (#TBLN) with their own numbers, and how the lst is cut"""
    ntab = rng.choice([1, 1, 2, 3])
    blocks = [{"n": i + 1, "ok": rng.random() < 0.6, "feval": rng.randint(5, 999), "sig": round(rng.uniform(1, 5), 1),
               "time": round(rng.uniform(0.01, 90), 2)} for i in range(ntab)]
    cut = rng.choice(LST_CUTS)
    d = {"ntab": ntab, "blocks": blocks, "cut": cut}
    if cut == "mid-block":
        d["cut_block"], d["cut_line"] = rng.randrange(ntab), rng.randint(1, 9)
    elif cut == "between-blocks":
        d["keep"] = rng.randint(0, ntab - 1) if ntab > 1 else 0
    elif cut == "fewer-blocks":
        d["keep"] = rng.randint(0, ntab - 1)
    elif cut == "more-blocks":
        d["blocks"] = blocks + [{"n": ntab + 1, "ok": True, "feval": rng.randint(5, 999), "sig": 3.0, "time": 1.0}]
    return d


def gen_runseq(rng):
    """several runs read one after the other in ONE process, in a given order (some read twice)"""
    runs = [gen_lst_run(rng) for _ in range(rng.randint(2, 4))]
    order = list(range(len(runs)))
    rng.shuffle(order)
    if rng.random() < 0.5:
        order.append(rng.choice(order))
    return {"kind": "runseq", "runs": runs, "order": order}


def gen_json(rng):
    cfg = gen_config(rng)
    labs = [lab for lab in cfg["labels"] if not cfg["fixed"][lab]]
    nonmem = rng.random() < 0.6   # values with 6 significant digits, as read from NONMEM output

    def val(lo=-5.0, hi=5.0):
        if nonmem:
            c = gen_sci(rng)
            return float(cell_value(c))
        return rng.uniform(lo, hi) * 10 ** rng.randint(-4, 3)
    return {"kind": "json", "labels": labs, "nonmem": nonmem, "pe": {lab: val() for lab in labs},
            "ofv": float(cell_value(gen_obj(rng))) if nonmem else rng.uniform(-1e4, 1e4),
            "se": {lab: abs(val()) for lab in labs} if rng.random() < 0.7 else None,
            "ids": sorted(rng.sample(range(1, 50), rng.randint(1, 5))), "neta": rng.randint(1, 3),
            "matrix": rng.random() < 0.6, "frames": [gen_index_kind(rng) for _ in range(2)]}


INDEX_KINDS = ["range0", "range", "range", "ints", "multi-named", "multi-unnamed", "named", "empty", "float", "str",
               "multi3", "dups", "reserved-name"]


def gen_index_kind(rng):
    """index of a residuals/predictions-like frame: every kind pandas produces on pharmpy's code paths"""
    kind = rng.choice(INDEX_KINDS)
    n = 0 if kind == "empty" else rng.randint(1, 6)
    d = {"kind": kind, "n": n, "ncol": rng.randint(1, 3)}
    if kind == "range":
        d["start"], d["step"] = rng.randint(0, 5), rng.choice([1, 1, 2, 2, 3, 7])
        if d["start"] == 0 and d["step"] == 1:
            d["start"] = 1
    elif kind in ("ints", "named", "reserved-name"):
        d["labels"] = sorted(rng.sample(range(0, 40), n))
    elif kind == "dups":
        n = d["n"] = max(n, 2)
        labs = sorted(rng.choice(range(0, 6)) for _ in range(n))
        labs[1] = labs[0]
        d["labels"] = labs
    elif kind in ("multi-named", "multi-unnamed", "multi3"):
        ids = sorted(rng.choice(range(1, 4)) for _ in range(n))
        seen, labs = {}, []
        for i in ids:
            seen[i] = seen.get(i, -1) + 1
            labs.append([i, seen[i] * 0.5] + ([seen[i] % 2] if kind == "multi3" else []))
        d["labels"] = labs
    elif kind == "float":
        d["labels"] = [0.25 + 0.5 * i for i in range(n)]
    elif kind == "str":
        d["labels"] = [f"r{i}" for i in rng.sample(range(30), n)]
    return d


TABLE_PATTERNS = ["none", "sparse", "sparse", "single-leading-dose", "regular", "obs-only", "irregular", "dose-last",
                  "every-third", "one-row"]


def gen_table_pattern(rng):
    """dose/observation layout of the $TABLE rows (True = observation record)"""
    pat = rng.choice(TABLE_PATTERNS)
    if pat == "none":
        return {"pattern": pat, "rows": []}
    if pat == "sparse":                # one dose + one observation per individual: observations at rows 1, 3, 5, ...
        nid = rng.randint(1, 5)
        rows = [[i + 1, o] for i in range(nid) for o in (False, True)]
    elif pat == "single-leading-dose":  # rows 1..n-1
        rows = [[1, False]] + [[1, True] for _ in range(rng.randint(1, 6))]
    elif pat == "regular":
        nid, m = rng.randint(1, 3), rng.randint(1, 3)
        rows = [[i + 1, o] for i in range(nid) for o in [False] + [True] * m]
    elif pat == "obs-only":
        rows = [[i // 2 + 1, True] for i in range(rng.randint(1, 6))]
    elif pat == "dose-last":
        rows = [[1, True] for _ in range(rng.randint(1, 4))] + [[1, False]]
    elif pat == "every-third":
        nid = rng.randint(1, 4)
        rows = [[i + 1, o] for i in range(nid) for o in (False, False, True)]
    elif pat == "one-row":
        rows = [[1, rng.random() < 0.5]]
    else:
        rows = [[i // 3 + 1, rng.random() < 0.6] for i in range(rng.randint(2, 9))]
    return {"pattern": pat, "rows": rows}


def gen_cases(rng, n, tier):
    out = []
    for _ in range(n):
        r = rng.random()
        hostile = rng.random() < 0.12
        if r < 0.38:
            c = gen_ext(rng, hostile)
        elif r < 0.55:
            c = gen_phi(rng, hostile)
        elif r < 0.72:
            c = gen_cov(rng, hostile)
        elif r < 0.86:
            c = gen_generic(rng, hostile)
        elif r < 0.92:
            c = c20_iterdf.gen_iterdf(rng)
        elif r < 0.945:
            c = gen_relations(rng)
        elif r < 0.97:
            c = gen_rundir(rng)
        elif r < 0.985:
            c = gen_runseq(rng)
        else:
            c = gen_json(rng)
        if c["kind"] in ("ext", "phi", "cov", "generic"):
            c.setdefault("notitle", False)
            c.setdefault("nolabel", False)
            c["muts"] = gen_mut(rng, c) if hostile and rng.random() < 0.6 else []
        c["seed"] = rng.randrange(1 << 30)
        out.append(c)
    return out


def _S(m, e, d=5, neg=False):
    return ["s", neg, d, m, e]


def corpus_cases():
    ti = {"method": "First Order Conditional Estimation with Interaction", "design": None,
          "goal": "MINIMUM VALUE OF OBJECTIVE FUNCTION", "nums": [1, 0, 0, 0, 0, 0]}
    names = ["ITERATION", "THETA1", "THETA2", "SIGMA(1,1)", "OMEGA(1,1)", "OMEGA(2,1)", "OMEGA(2,2)", "OBJ"]
    cols = [[13, "r"]] * 7 + [[22, "r"]]
    z = _S(0, 0)

    def row(it, a, obj):
        return [["i", it]] + a + [obj]
    ext = {"kind": "ext", "suffix": ".ext", "notitle": False, "nolabel": False, "muts": [], "seed": 1,
           "fixed": {"THETA1": False, "THETA2": True, "SIGMA(1,1)": False, "OMEGA(1,1)": False, "OMEGA(2,1)": True,
                     "OMEGA(2,2)": False},
           "tables": [{"number": 1, "now": 6, "title": ti, "hw": 13, "names": names, "cols": cols, "repeat": 0, "rows": [
               row(0, [_S(469307, -3), _S(100916, 0), _S(130865, -2), _S(309626, -2), z, _S(311280, -2)], ["f", False, 587, 14, 36644134661617]),
               row(12, [_S(469555, -3), _S(100916, 0), _S(164251, -2, neg=True), _S(293502, -2), z, _S(279060, -2)], ["f", False, 586, 14, 27605628188053]),
               row(C_FINAL, [_S(469555, -3), _S(100916, 0), _S(164251, -2, neg=True), _S(293502, -2), z, _S(279060, -2)], ["f", False, 586, 14, 27605628188053]),
               row(C_SE, [_S(210036, -4), _S(100000, 10), _S(337976, -3), _S(134153, -2), _S(100000, 10), _S(747651, -3)], ["f", False, 0, 16, 0]),
               row(C_FIXED, [z, _S(100000, 0), z, z, _S(100000, 0), z], ["f", False, 0, 16, 0])]}]}
    # aborted run: no special rows -> fallback to the last iteration
    ext2 = {**ext, "seed": 2, "tables": [{**ext["tables"][0], "rows": ext["tables"][0]["rows"][:2]}]}
    # touching fields (K only): a 13-character cell
    ext3 = {**ext, "seed": 3, "tables": [{**ext["tables"][0], "rows": [
        row(0, [_S(469307, -3), _S(100000, -100, neg=True), z, z, z, z], ["f", False, 1, 16, 5])]}]}
    gen = {"kind": "generic", "suffix": "", "notitle": True, "nolabel": True, "muts": [], "seed": 4,
           "tables": [{"number": 1, "now": 3, "title": None, "hw": 12, "names": ["ID", "TIME", "DV"], "cols": [[12, "r"]] * 3,
                       "repeat": 0, "rows": [[_S(10000, 0, 4), _S(0, 0, 4), _S(17300, 1, 4)], [_S(10000, 0, 4), _S(20000, 0, 4), _S(31000, 1, 4)],
                                             [_S(20000, 0, 4), _S(0, 0, 4), _S(0, 0, 4)]]}]}
    gen2 = {**gen, "seed": 5, "nolabel": False, "notitle": False,
            "tables": [{**gen["tables"][0], "repeat": 1}, {**gen["tables"][0], "number": 2, "repeat": 2}]}
    # NOLABEL alone: title lines stay, no header line (first record was lost on this path before f017b8d)
    gen3 = {**gen, "seed": 6, "nolabel": True, "notitle": False,
            "tables": [{**gen["tables"][0]}, {**gen["tables"][0], "number": 2}]}
    # a run directory with a .cor file (parse_modelfit_results raised ValueError before df2cfce), small-scale parameters
    rd = {"kind": "rundir", "nth": 2, "nom": 1, "a": [[0.6, 0.2, 0.7, 0.3], [-0.3, -0.5, -0.5, 0.2], [0.1, 0.1, 0.3, -0.5], [0.3, 0.6, -0.8, -0.3]],
          "blocks": [0, 0, 1, 0], "est": [0.0042, 0.00075, 0.011, 0.032], "se": [6.1e-05, 2.3e-05, 0.0023, 0.0075],
          "files": ["cov", "cor", "coi"], "seed": 7}
    rd2 = {**rd, "files": ["cor"], "seed": 8}
    allrows = {"se": True, "sdcorr": True, "sdcorr_se": True, "fixedrow": True}
    # FIXed parameters in several positions (a fixed THETA is absent from the sd/corr rows -1000000004/-5)
    rd3 = {**rd, "files": ["cov"], "fixed": [False, True, False, False], "rows": allrows, "seed": 9}
    rd4 = {**rd, "files": ["cov", "coi"], "fixed": [True, False, True, False], "rows": {**allrows, "fixedrow": False}, "seed": 10}
    # no sd/corr row -1000000004 (NaN fallback was indexed by (step, iteration) before df197aa)
    rd5 = {**rd, "files": ["cov"], "fixed": [False, False, True, False], "rows": {**allrows, "sdcorr": False}, "seed": 11}
    # sparse design: one dose + one observation per individual -> residuals carry RangeIndex(1, n, 2)
    rd6 = {**rd, "files": ["cov"], "fixed": [False] * 4, "rows": allrows, "seed": 12,
           "table": {"pattern": "sparse", "rows": [[1, False], [1, True], [2, False], [2, True], [3, False], [3, True]]}}
    rd7 = {**rd6, "seed": 13, "table": {"pattern": "single-leading-dose", "rows": [[1, False], [1, True], [1, True], [1, True]]}}
    js = {"kind": "json", "labels": ["THETA1", "OMEGA(1,1)"], "nonmem": True, "pe": {"THETA1": 1.5, "OMEGA(1,1)": 0.25}, "ofv": 12.5,
          "se": None, "ids": [1, 2], "neta": 1, "matrix": False, "seed": 14,
          "frames": [{"kind": "range", "n": 3, "ncol": 2, "start": 1, "step": 2},
                     {"kind": "multi-named", "n": 3, "ncol": 1, "labels": [[1, 0.0], [1, 0.5], [2, 0.0]]}]}
    blk = lambda n, fe: {"n": n, "ok": True, "feval": fe, "sig": 3.6, "time": 0.32}
    # a complete run, then a run whose lst was cut off before its first #TBLN, then the first again
    seq = {"kind": "runseq", "seed": 15, "order": [0, 1, 0, 2],
           "runs": [{"ntab": 1, "blocks": [blk(1, 107)], "cut": "complete"},
                    {"ntab": 1, "blocks": [blk(1, 55)], "cut": "before-first-tbln"},
                    {"ntab": 2, "blocks": [blk(1, 31), blk(2, 77)], "cut": "fewer-blocks", "keep": 1}]}
    # phi file of a First Order fit: ETA / ETC all zero, individual OFV non-zero (such individuals have observations)
    zc = ["s", False, 5, 0, 0]
    phi = {"kind": "phi", "suffix": ".phi", "notitle": False, "nolabel": False, "muts": [], "seed": 16, "neta": 1,
           "tables": [{"number": 1, "now": 6, "title": ti, "hw": 13, "names": ["SUBJECT_NO", "ID", "ETA(1)", "ETC(1,1)", "OBJ"],
                       "cols": [[13, "r"]] * 4 + [[22, "r"]], "repeat": 0,
                       "rows": [[["i", 1], ["i", 1], zc, zc, ["f", False, 5, 16, 9473520242962552]],
                                [["i", 2], ["i", 2], zc, zc, ["f", False, 0, 16, 0]],
                                [["i", 3], ["i", 4], _S(959341, -2), _S(221606, -2), ["f", False, 9, 16, 9823422194015698]]]}]}
    return [ext, ext2, ext3, gen, gen2, gen3, rd, rd2, rd3, rd4, rd5, rd6, rd7, js, seq, phi] + c20_iterdf.corpus()


def shrink(case):
    if "tables" not in case:
        return
    tabs = case["tables"]
    if len(tabs) > 1:
        for i in range(len(tabs)):
            yield {**case, "tables": tabs[:i] + tabs[i + 1:]}
    for ti, t in enumerate(tabs):
        for i in range(len(t["rows"])):
            if case["kind"] == "cov":
                continue
            nt = {**t, "rows": t["rows"][:i] + t["rows"][i + 1:]}
            yield {**case, "tables": tabs[:ti] + [nt] + tabs[ti + 1:]}
        if t.get("repeat"):
            yield {**case, "tables": tabs[:ti] + [{**t, "repeat": 0}] + tabs[ti + 1:]}
    if case.get("muts"):
        for i in range(len(case["muts"])):
            yield {**case, "muts": case["muts"][:i] + case["muts"][i + 1:]}


# ---------------------------------------------------------------- real-code side

def worker_init():
    global pd, np, NONMEMTableFile, ExtTable, PhiTable, CovTable, NONMEMTable, scratch_root, modeling, results_mod
    import numpy as np  # noqa
    import pandas as pd  # noqa
    from pharmpy.model.external.nonmem.table import CovTable, ExtTable, NONMEMTable, NONMEMTableFile, PhiTable  # noqa
    import pharmpy.modeling as modeling  # noqa
    from harness.common.paths import scratch_root  # noqa


def is_nan(v):
    try:
        return v is None or (isinstance(v, float) and math.isnan(v)) or bool(pd.isna(v))
    except (TypeError, ValueError):
        return False


def same(tok, v):
    """model token vs value read by the code"""
    if np.ndim(v) != 0:
        return False
    if isinstance(v, str):
        return v == tok
    if tok == "":
        return is_nan(v)
    if is_nan(v):
        return False
    try:
        if isinstance(v, (bool, np.bool_)):
            return False
        return float(tok) == float(v)
    except (ValueError, OverflowError):
        return False


def same_exact(frac, v):
    """expected exact value (Fraction or label) vs value read by the code"""
    if np.ndim(v) != 0:
        return False
    if isinstance(frac, str):
        return isinstance(v, str) and v == frac
    if isinstance(v, str) or is_nan(v):
        return False
    return float(frac) == float(v)


def exc_kind(e):
    if isinstance(e, pd.errors.EmptyDataError):
        return "emptyData"
    if isinstance(e, pd.errors.ParserError):
        return "parserError"
    if isinstance(e, KeyError):
        return "keyError"
    if isinstance(e, ValueError):
        s = str(e)
        if "missing TABLE NO" in s:
            return "illegalFile"
        if "Broken table" in s:
            return "brokenExt"
        if "max()" in s:
            return "noIterations"
        if "duplicate" in s or "could not convert string to float" in s:
            return "unmodelled"
        if "shape" in s or "broadcast" in s:
            return "shapeError"
        return "ValueError:" + s[:60]
    return type(e).__name__ + ":" + str(e)[:60]


def frame_rows(df):
    return [list(map(str, df.columns)), [list(r) for r in df.itertuples(index=False, name=None)]]


def cmp_rows(what, mrows, crows, k):
    if len(mrows) != len(crows):
        k.append(f"{what}: model has {len(mrows)} rows, code {len(crows)}")
        return
    for i, (mr, cr) in enumerate(zip(mrows, crows)):
        if len(mr) != len(cr):
            k.append(f"{what}: row {i} model has {len(mr)} cells, code {len(cr)}")
            return
        for j, (t, v) in enumerate(zip(mr, cr)):
            if not same(t, v):
                k.append(f"{what}: row {i} col {j}: model {t!r} code {v!r}")
                return


def cmp_frame(what, mframe, df, k):
    """mframe = ['frame', cols, rows]"""
    cols, rows = frame_rows(df)
    if mframe[1] != cols:
        k.append(f"{what}: columns model {mframe[1]} code {cols}")
        return
    cmp_rows(what, mframe[2], rows, k)


def is_err(x):
    return isinstance(x, list) and len(x) == 2 and x[0] == "err"


def none_or(x):
    return "none" if x is None else ["some", x]


def code_meta(t):
    if t.number is None:
        return "none"
    title = "none"
    if t.problem is not None:
        title = [t.method, none_or(t.design_optimality), none_or(t.goal_function),
                 [str(x) for x in (t.problem, t.subproblem, t.superproblem1, t.iteration1, t.superproblem2, t.iteration2)]]
    return [str(t.number), "true" if t.is_evaluation else "false", title]


def series_like(x):
    """(labels or None, rows) of what _get_parameters / _get_ofv returned"""
    if isinstance(x, pd.DataFrame):
        return list(map(str, x.columns)), [list(r) for r in x.itertuples(index=False, name=None)]
    if isinstance(x, pd.Series):
        return list(map(str, x.index)), [list(x.values)]
    return None, [[x]]


def cmp_ext_prop(name, post, mval, t, k, tags):
    try:
        cval = getattr(t, name)
        cerr = None
    except Exception as e:  # noqa
        cval, cerr = None, exc_kind(e)
    if is_err(mval):
        if mval[1] == "unmodelled":
            tags.append("k-skip:unmodelled")
            return
        if cerr != mval[1]:
            k.append(f"ext.{name}: model {mval} code {cerr if cerr else 'value'}")
        return
    if cerr is not None:
        # scalar squeeze edge (one parameter column): `.name =`/`.values`/`.apply` on a numpy scalar
        if mval[0] == "params" and len(mval[1]) <= 1:
            tags.append("k-skip:squeeze-scalar")
            return
        if mval[0] == "params" and len(mval[2]) > 1 or mval[0] == "ofv" and len(mval[1]) > 1:
            tags.append("k-skip:duplicate-iteration-rows")
            return
        k.append(f"ext.{name}: model {str(mval)[:120]} code raises {cerr}")
        return
    if mval[0] == "ofv":
        cells = mval[1]
        if len(cells) != 1:
            tags.append("k-skip:duplicate-iteration-rows")
            return
        if not same(cells[0], cval):
            k.append(f"ext.{name}: model {cells[0]!r} code {cval!r}")
        return
    labels, rows = mval[1], mval[2]
    if len(rows) != 1 or len(labels) <= 1:
        tags.append("k-skip:squeeze-edge")
        return
    if post == "first-value":
        if not same(rows[0][0], cval):
            k.append(f"ext.{name}: model {rows[0][0]!r} code {cval!r}")
        return
    clabels, crows = series_like(cval)
    if clabels != labels:
        k.append(f"ext.{name}: labels model {labels} code {clabels}")
        return
    if post == "apply-bool":
        mb = [t_ == "" or float(t_) != 0 for t_ in rows[0]]
        cb = [bool(v) for v in crows[0]]
        if mb != cb:
            k.append(f"ext.{name}: model {mb} code {cb}")
        return
    cmp_rows(f"ext.{name}", rows, crows, k)


def read_code(path, case):
    try:
        return NONMEMTableFile(path, notitle=case["notitle"], nolabel=case["nolabel"]), None
    except Exception as e:  # noqa
        return None, e


def compare_model(case, lines, tf, ferr, drv, k, tags):
    kind = case["kind"]
    ans = drv.ask(["file", kind if not case["notitle"] else "generic", case["notitle"], case["nolabel"], lines])
    if is_err(ans):
        if ans[1] == "unmodelled":
            tags.append("k-skip:unmodelled")
            return
        ck = exc_kind(ferr) if ferr is not None else "tables"
        # an empty chunk cannot occur (a file has at least one line)
        if ck != ans[1]:
            k.append(f"file: model {ans} code {ck}")
        return
    if ferr is not None:
        k.append(f"file: model reads {len(ans)} tables, code raises {exc_kind(ferr)}")
        return
    if len(ans) != len(tf.tables):
        k.append(f"file: model {len(ans)} tables, code {len(tf.tables)}")
        return
    from harness.translate import c20_extcodes  # noqa  (post-processing kinds)
    for n, (mt, t) in enumerate(zip(ans, tf.tables)):
        _, mmeta, mraw, mviews = mt
        cm = code_meta(t)
        if mmeta != cm:
            k.append(f"table {n}: meta model {mmeta} code {cm}")
        cmp_frame(f"table {n} raw", mraw, t._df, k)
        if mviews[0] == "mixed":
            tags.append("k-skip:mixed-type-column")
        elif mviews[0] == "ext":
            if not isinstance(t, ExtTable):
                k.append(f"table {n}: model ExtTable, code {type(t).__name__}")
                continue
            try:
                df = t.data_frame
                derr = None
            except Exception as e:  # noqa
                df, derr = None, exc_kind(e)
            if is_err(mviews[1]):
                if mviews[1][1] == "unmodelled":
                    tags.append("k-skip:unmodelled")
                    continue
                if derr != mviews[1][1]:
                    k.append(f"table {n} ext.data_frame: model {mviews[1]} code {derr}")
            elif derr is not None:
                k.append(f"table {n} ext.data_frame: model frame, code raises {derr}")
            else:
                cmp_frame(f"table {n} ext.data_frame", mviews[1], df, k)
            for (name, mval) in mviews[2]:
                cmp_ext_prop(name, POSTS.get(name, "series"), mval, t, k, tags)
            try:
                cit = t.iterations
                ierr = None
            except Exception as e:  # noqa
                cit, ierr = None, exc_kind(e)
            mit = mviews[3]
            if is_err(mit):
                if mit[1] != "unmodelled" and ierr != mit[1]:
                    k.append(f"table {n} ext.iterations: model {mit} code {ierr}")
            elif ierr is not None:
                k.append(f"table {n} ext.iterations: model list, code raises {ierr}")
            else:
                mv = [Fraction(int(m)) * Fraction(10) ** int(e) for m, e in mit]
                if [float(x) for x in mv] != [float(x) for x in cit]:
                    k.append(f"table {n} ext.iterations: model {mv} code {cit}")
        elif mviews[0] == "cov":
            try:
                df = t.data_frame
                derr = None
            except Exception as e:  # noqa
                df, derr = None, exc_kind(e)
            mm = mviews[1]
            if is_err(mm):
                if mm[1] == "unmodelled":
                    tags.append("k-skip:unmodelled")
                elif derr != mm[1]:
                    k.append(f"table {n} cov.data_frame: model {mm} code {derr}")
            elif derr is not None:
                k.append(f"table {n} cov.data_frame: model matrix, code raises {derr}")
            else:
                if mm[1] != list(map(str, df.index)) or mm[2] != list(map(str, df.columns)):
                    k.append(f"table {n} cov.data_frame: labels model {mm[1]}/{mm[2]} code {list(df.index)}/{list(df.columns)}")
                else:
                    cmp_rows(f"table {n} cov.data_frame", mm[3], [list(r) for r in df.itertuples(index=False, name=None)], k)
        elif mviews[0] == "phi":
            compare_phi(n, mviews, t, k, tags)


def compare_phi(n, mviews, t, k, tags):
    _, miofv, metas, metc = mviews
    try:
        s = t.iofv
        c = [[i, v] for i, v in zip(s.index, s.values)]
        cerr = None
    except Exception as e:  # noqa
        c, cerr = None, exc_kind(e)
    if is_err(miofv):
        if cerr != miofv[1]:
            k.append(f"table {n} phi.iofv: model {miofv} code {cerr}")
    elif cerr is not None:
        k.append(f"table {n} phi.iofv: model list, code raises {cerr}")
    else:
        cmp_rows(f"table {n} phi.iofv", miofv, c, k)
    try:
        df = t.etas
        c = [list(map(str, df.columns)), [[i, list(r)] for i, r in zip(df.index, df.itertuples(index=False, name=None))]]
        cerr = None
    except Exception as e:  # noqa
        c, cerr = None, exc_kind(e)
    if is_err(metas):
        if cerr != metas[1]:
            k.append(f"table {n} phi.etas: model {metas} code {cerr}")
    elif cerr is not None:
        k.append(f"table {n} phi.etas: model frame, code raises {cerr}")
    else:
        if metas[0] != c[0]:
            k.append(f"table {n} phi.etas: columns model {metas[0]} code {c[0]}")
        else:
            cmp_rows(f"table {n} phi.etas ids", [[r[0]] for r in metas[1]], [[r[0]] for r in c[1]], k)
            cmp_rows(f"table {n} phi.etas", [r[1] for r in metas[1]], [r[1] for r in c[1]], k)
    try:
        ids, names, mats = t.etc_data()
        c = [list(ids), list(names), [[list(r) for r in m] for m in mats]]
        cerr = None
    except Exception as e:  # noqa
        c, cerr = None, exc_kind(e)
    if is_err(metc):
        if metc[1] == "unmodelled":
            tags.append("k-skip:unmodelled")
        elif cerr != metc[1]:
            k.append(f"table {n} phi.etc_data: model {metc} code {cerr}")
    elif cerr == "unmodelled":
        tags.append("k-skip:non-numeric-etc-cell")
    elif cerr is not None:
        k.append(f"table {n} phi.etc_data: model data, code raises {cerr}")
    else:
        if metc[1] != c[1]:
            k.append(f"table {n} phi.etc_data: names model {metc[1]} code {c[1]}")
        cmp_rows(f"table {n} phi.etc_data ids", [metc[0]], [c[0]], k)
        if len(metc[2]) != len(c[2]):
            k.append(f"table {n} phi.etc_data: model {len(metc[2])} matrices code {len(c[2])}")
        else:
            for q, (mm, cm) in enumerate(zip(metc[2], c[2])):
                cmp_rows(f"table {n} phi.etc_data matrix {q}", mm, cm, k)


POSTS = {}
DOCUMENTED_POSTS = {"final_parameter_estimates": "series", "standard_errors": "series", "condition_number": "first-value",
                    "omega_sigma_stdcorr": "series", "omega_sigma_se_stdcorr": "series", "fixed": "apply-bool",
                    "final_ofv": "series", "initial_ofv": "series"}


def _load_posts():
    """post-processing kind of each ExtTable property (from the translator; when the translator refuses the
    current source — already reported as a broken obligation — the documented kinds are used)"""
    from harness.translate import c20_extcodes
    POSTS.update(DOCUMENTED_POSTS)
    try:
        for name, getter, code, inc, fb, post in c20_extcodes.extract():
            POSTS[name] = post
    except Exception:  # noqa
        pass


# ---------------------------------------------------------------- monitors (structured case vs real code; no Lean)

def rename_label(lab):
    import re
    return re.sub(r"THETA(\d+)", r"THETA(\1)", lab)


def tos_order(labels):
    return [x for x in labels if x.startswith("THETA")] + [x for x in labels if x.startswith("OMEGA")] + \
        [x for x in labels if x.startswith("SIGMA")]


def exp_colname(name, typed):
    import re
    return re.sub(r"[A-Z]*OBJ", "OBJ", name) if typed else name


def mon_values(what, cls, exp_rows, crows, mon):
    if len(exp_rows) != len(crows):
        mon.append({"cls": cls, "what": f"{what}: {len(exp_rows)} rows written, {len(crows)} rows read"})
        return False
    for i, (er, cr) in enumerate(zip(exp_rows, crows)):
        if len(er) != len(cr):
            mon.append({"cls": cls, "what": f"{what}: row {i}: {len(er)} cells written, {len(cr)} read"})
            return False
        for j, (e, v) in enumerate(zip(er, cr)):
            if not same_exact(e, v):
                mon.append({"cls": cls, "what": f"{what}: row {i} column {j}: written {e if isinstance(e, str) else float(e)!r}, read {v!r}"})
                return False
    return True


def monitors(case, tf, ferr, mon, tags):
    kind = case["kind"]
    tabs = case["tables"]
    typed = kind in ("ext", "phi", "cov") and not case["notitle"]
    if ferr is not None:
        mon.append({"cls": "internal-error", "what": f"reading a well-formed {kind} file raised {type(ferr).__name__}: {ferr}"})
        return
    if len(tf.tables) != len(tabs):
        mon.append({"cls": "table-count", "what": f"{len(tabs)} tables written, {len(tf.tables)} read"})
        return
    for n, (spec, t) in enumerate(zip(tabs, tf.tables)):
        # title
        if not case["notitle"]:
            if t.number != spec["number"]:
                mon.append({"cls": "table-number", "what": f"table {n}: number {spec['number']} written, {t.number} read"})
            ti = spec["title"]
            if ti is not None:
                got = (t.method, t.design_optimality, t.goal_function, t.problem, t.subproblem, t.superproblem1, t.iteration1,
                       t.superproblem2, t.iteration2)
                want = (ti["method"], ti["design"], ti["goal"], *ti["nums"])
                if got != want:
                    mon.append({"cls": "title-metadata", "what": f"table {n}: title {want} written, {got} read"})
        # raw values
        names = [exp_colname(x, typed) for x in spec["names"]]
        exp_rows = [[cell_value(c) for c in r] for r in spec["rows"]]
        if case["nolabel"]:
            # no header line was written: every written record is a data row, columns are labelled by position
            df = t._df
            if not exp_rows:
                continue
            cls = "nolabel-first-row-lost" if case["notitle"] else "nolabel-titled-first-row-lost"
            if len(df) == len(exp_rows) - 1:
                mon.append({"cls": cls, "what": f"table {n}: NOLABEL table with {len(exp_rows)} records: {len(df)} records read "
                            f"(first record taken as header {list(df.columns)})"})
                continue
            if list(map(str, df.columns)) != [str(i) for i in range(len(spec["cols"]))]:
                mon.append({"cls": "labels-differ", "what": f"table {n}: NOLABEL table: columns {list(df.columns)}, expected positions"})
                continue
            mon_values(f"table {n}", "values-differ", exp_rows, [list(r) for r in df.itertuples(index=False, name=None)], mon)
            continue
        df = t._df
        if list(map(str, df.columns)) != names:
            mon.append({"cls": "labels-differ", "what": f"table {n}: columns {names} written, {list(df.columns)} read"})
            continue
        crows = [list(r) for r in df.itertuples(index=False, name=None)]
        if not mon_values(f"table {n}", "values-differ", exp_rows, crows, mon):
            continue
        if kind == "ext" and typed:
            mon_ext(n, spec, case, t, mon, tags)
        elif kind == "cov" and typed:
            mon_cov(n, spec, t, mon, tags)
        elif kind == "phi" and typed:
            mon_phi(n, spec, case, t, mon, tags)


def mon_ext(n, spec, case, t, mon, tags):
    labels = spec["names"][1:-1]
    order = tos_order(labels)
    pos = {lab: i + 1 for i, lab in enumerate(labels)}
    rows = spec["rows"]
    by_it = {}
    for r in rows:
        by_it.setdefault(r[0][1], r)
    nonneg = [r[0][1] for r in rows if r[0][1] >= 0]
    if not rows:
        tags.append("ext-empty")
        return

    def want_params(r, labs):
        return [rename_label(x) for x in labs], [cell_value(r[pos[x]]) for x in labs]

    def check_series(name, cls, r, labs, conv=None):
        try:
            s = getattr(t, name)
        except Exception as e:  # noqa
            mon.append({"cls": cls, "what": f"table {n}: {name} raised {type(e).__name__}: {e} although the row is present"})
            return
        wl, wv = want_params(r, labs)
        if not isinstance(s, pd.Series) or list(map(str, s.index)) != wl:
            mon.append({"cls": "ext-labels", "what": f"table {n}: {name} labels {wl} expected, got {list(getattr(s, 'index', []))}"})
            return
        for lab, w, v in zip(wl, wv, s.values):
            ok = (bool(v) == (w != 0)) if conv == "bool" else same_exact(w, v)
            if not ok:
                mon.append({"cls": cls, "what": f"table {n}: {name}[{lab}] = {v!r}, the designated row has {float(w)!r}"})
                return

    if len(labels) < 2:
        tags.append("ext-one-parameter")
        return
    # final estimates: row -1000000000, else the last iteration
    if C_FINAL in by_it:
        check_series("final_parameter_estimates", "ext-final-estimates-wrong-row", by_it[C_FINAL], order)
        tags.append("ext:final-row")
    elif nonneg:
        check_series("final_parameter_estimates", "ext-final-estimates-wrong-row", by_it[max(nonneg)], order)
        tags.append("ext:final-fallback")
    if C_SE in by_it:
        check_series("standard_errors", "ext-se-wrong-row", by_it[C_SE], order)
        tags.append("ext:se-row")
    else:
        try:
            t.standard_errors
            mon.append({"cls": "ext-se-wrong-row", "what": f"table {n}: standard_errors returned although row -1000000001 is absent"})
        except KeyError:
            pass
        except Exception as e:  # noqa
            mon.append({"cls": "internal-error", "what": f"table {n}: standard_errors raised {type(e).__name__}: {e}"})
    if C_FIXED in by_it:
        check_series("fixed", "ext-fixed-wrong", by_it[C_FIXED], order, conv="bool")
        tags.append("ext:fixed-row")
    nt = [x for x in order if "THETA" not in x]
    if C_SDCORR in by_it and len(nt) >= 2:
        check_series("omega_sigma_stdcorr", "ext-sdcorr-wrong-row", by_it[C_SDCORR], nt)
    if C_SDCORR_SE in by_it and len(nt) >= 2:
        check_series("omega_sigma_se_stdcorr", "ext-sdcorr-wrong-row", by_it[C_SDCORR_SE], nt)
    if C_COND in by_it:
        try:
            v = t.condition_number
            w = cell_value(by_it[C_COND][pos[order[0]]])
            if not same_exact(w, v):
                mon.append({"cls": "ext-cond-wrong", "what": f"table {n}: condition_number {v!r}, row -1000000003 has {float(w)!r}"})
        except Exception as e:  # noqa
            mon.append({"cls": "internal-error", "what": f"table {n}: condition_number raised {type(e).__name__}: {e}"})
    # objective function values
    if C_FINAL in by_it or nonneg:
        r = by_it[C_FINAL] if C_FINAL in by_it else by_it[max(nonneg)]
        try:
            v = t.final_ofv
            if not same_exact(cell_value(r[-1]), v):
                mon.append({"cls": "ext-ofv-wrong", "what": f"table {n}: final_ofv {v!r}, designated row has {float(cell_value(r[-1]))!r}"})
        except Exception as e:  # noqa
            mon.append({"cls": "ext-ofv-wrong", "what": f"table {n}: final_ofv raised {type(e).__name__}: {e}"})
    if 0 in by_it or C_FINAL in by_it:
        r = by_it[0] if 0 in by_it else by_it[C_FINAL]
        try:
            v = t.initial_ofv
            if not same_exact(cell_value(r[-1]), v):
                mon.append({"cls": "ext-ofv-wrong", "what": f"table {n}: initial_ofv {v!r}, designated row has {float(cell_value(r[-1]))!r}"})
        except Exception as e:  # noqa
            mon.append({"cls": "ext-ofv-wrong", "what": f"table {n}: initial_ofv raised {type(e).__name__}: {e}"})
    try:
        its = t.iterations
        if [float(x) for x in its] != [float(x) for x in nonneg]:
            mon.append({"cls": "ext-iterations", "what": f"table {n}: iterations {its}, written {nonneg}"})
    except Exception as e:  # noqa
        mon.append({"cls": "internal-error", "what": f"table {n}: iterations raised {type(e).__name__}: {e}"})


def mon_cov(n, spec, t, mon, tags):
    labels = spec["names"][1:]
    idx = {lab: i for i, lab in enumerate(labels)}
    val = lambda a, b: cell_value(spec["rows"][idx[a]][1 + idx[b]])
    order = tos_order(labels)
    # a parameter is dropped iff its row (= its column: the matrix is symmetric) is all zero
    keep = [a for a in order if any(val(a, b) != 0 for b in labels)]
    try:
        df = t.data_frame
    except Exception as e:  # noqa
        mon.append({"cls": "internal-error", "what": f"table {n}: CovTable.data_frame raised {type(e).__name__}: {e}"})
        return
    want = [rename_label(a) for a in keep]
    if list(map(str, df.index)) != want or list(map(str, df.columns)) != want:
        mon.append({"cls": "cov-labels", "what": f"table {n}: expected rows/columns {want}, got {list(df.index)} / {list(df.columns)}"})
        return
    tags.append(f"cov:dropped={len(labels) - len(keep)}")
    for a in keep:
        for b in keep:
            v = df.loc[rename_label(a), rename_label(b)]
            if not same_exact(val(a, b), v):
                mon.append({"cls": "cov-values", "what": f"table {n}: [{a},{b}] written {float(val(a, b))!r}, read {v!r}"})
                return


def mon_phi(n, spec, case, t, mon, tags):
    neta = case["neta"]
    rows = spec["rows"]
    ncell = neta + neta * (neta + 1) // 2
    kept = [r for r in rows if any(cell_value(c) != 0 for c in r[2:])]
    tags.append(f"phi:zero-individuals={len(rows) - len(kept)}")
    try:
        etas = t.etas
        ids, names, mats = t.etc_data()
        iofv = t.iofv
    except Exception as e:  # noqa
        mon.append({"cls": "internal-error", "what": f"table {n}: PhiTable raised {type(e).__name__}: {e}"})
        return
    want_ids = [r[1][1] for r in kept]
    if [float(x) for x in etas.index] != want_ids or [float(x) for x in ids] != want_ids or [float(x) for x in iofv.index] != want_ids:
        mon.append({"cls": "phi-ids", "what": f"table {n}: individuals {want_ids} expected, got {list(etas.index)}"})
        return
    if list(names) != [f"ETA({i})" for i in range(1, neta + 1)]:
        mon.append({"cls": "phi-labels", "what": f"table {n}: etc names {names}"})
        return
    for q, r in enumerate(kept):
        for i in range(neta):
            if not same_exact(cell_value(r[2 + i]), etas.iloc[q, i]):
                mon.append({"cls": "phi-etas-wrong", "what": f"table {n}: individual {r[1][1]} eta {i+1}: written {float(cell_value(r[2+i]))!r}, read {etas.iloc[q, i]!r}"})
                return
        if not same_exact(cell_value(r[-1]), iofv.iloc[q]):
            mon.append({"cls": "phi-iofv-wrong", "what": f"table {n}: individual {r[1][1]} iOFV"})
            return
        m = mats[q]
        for i in range(neta):
            for j in range(neta):
                a, b = max(i, j), min(i, j)
                w = cell_value(r[2 + neta + a * (a + 1) // 2 + b])
                if not same_exact(w, m[i][j]):
                    mon.append({"cls": "phi-etc-index", "what": f"table {n}: individual {r[1][1]} ETC[{i+1},{j+1}] = {m[i][j]!r}, ETC({a+1},{b+1}) written as {float(w)!r}"})
                    return


def corr_structure(case):
    n = len(case["a"])
    a = np.array(case["a"])
    m = a @ a.T + n * np.eye(n)
    b = np.array(case["blocks"])
    m = m * (b[:, None] == b[None, :])          # exact zeros between blocks (each block stays positive definite)
    d = np.sqrt(np.diag(m))
    return m / np.outer(d, d)


def frac_rows(m):
    return [[str(Fraction(float(x))) for x in r] for r in m]


def run_relations(case, drv, k, mon, tags):
    """cov2corr / corr2cov and the conversions built on them, evaluated scale-free (on the correlation scale)"""
    from pharmpy.internals.math import cov2corr, corr2cov
    from pharmpy.tools.external.nonmem.results import calculate_cov_cor_coi_ses
    n = len(case["a"])
    R = corr_structure(case)
    sd0 = np.array(case["scale"])
    cov = R * np.outer(sd0, sd0)
    cov = (cov + cov.T) / 2
    names = [f"P{i}" for i in range(n)]
    covdf = pd.DataFrame(cov, index=names, columns=names)
    sd = np.sqrt(np.diag(cov))
    tags.append(f"relations:n={n}")
    tags.append("relations:min-var=1e%d" % int(np.floor(np.log10(np.diag(cov).min()))))
    if np.any(cov == 0):
        tags.append("relations:exact-zeros")

    def bad(cls, what):
        mon.append({"cls": "relations-" + cls, "what": f"{what} (n={n}, variances {np.diag(cov).min():.1e}..{np.diag(cov).max():.1e})"})

    def check_cor(r, c, src, tol):
        """r is the correlation matrix of c: unit diagonal, r_ij * sd_i * sd_j = c_ij, zero iff zero"""
        r, c = np.asarray(r, dtype=float), np.asarray(c, dtype=float)
        s_ = np.sqrt(np.diag(c))
        if r.shape != c.shape:
            return bad("cor-shape", f"{src}: shape {r.shape}")
        if not np.all(np.abs(np.diag(r) - 1) <= 1e-12):
            return bad("cor-diag-not-one", f"{src}: diagonal of the correlation matrix is {np.diag(r)} for positive variances {np.diag(c)}")
        want = c / np.outer(s_, s_)
        if not np.all(np.abs(r - want) <= tol):
            i, j = np.unravel_index(np.argmax(np.abs(r - want)), r.shape)
            return bad("cor-not-cov-over-sd", f"{src}: cor[{i},{j}] = {r[i, j]!r}, cov[{i},{j}]/(se_i se_j) = {want[i, j]!r} (cov = {c[i, j]!r})")
        if not np.all(np.abs(r - r.T) <= tol):
            return bad("cor-asymmetric", f"{src}: correlation matrix not symmetric")
        return True

    # --- cov2corr itself, K against the exact rational model
    try:
        r = cov2corr(cov.copy())
    except Exception as e:  # noqa
        mon.append({"cls": "internal-error", "what": f"cov2corr raised {type(e).__name__}: {e}"})
        return
    check_cor(r, cov, "cov2corr(cov)", 1e-12)
    if drv is not None:
        table = [[str(Fraction(float(cov[i, i]))), str(Fraction(float(sd[i])))] for i in range(n)]
        ans = drv.ask(["cov2corr", frac_rows(cov), table])
        for i in range(n):
            for j in range(n):
                m = float(Fraction(ans[i][j]))
                if abs(m - r[i, j]) > 1e-12 * max(1.0, abs(m)):
                    k.append(f"cov2corr[{i},{j}]: model {m!r} code {r[i, j]!r} (cov {cov[i, j]!r})")
                    break
            else:
                continue
            break
        ans = drv.ask(["corr2cov", frac_rows(R), [str(Fraction(float(x))) for x in sd0]])
        c2 = corr2cov(R, sd0)
        for i in range(n):
            for j in range(n):
                m = float(Fraction(ans[i][j]))
                if abs(m - c2[i, j]) > 1e-12 * abs(m):
                    k.append(f"corr2cov[{i},{j}]: model {m!r} code {c2[i, j]!r}")
    # --- scale invariance (metamorphic; powers of two are exact in binary floating point)
    d2 = np.array([2.0 ** e for e in case["rescale"]])
    r2 = cov2corr(cov * np.outer(d2, d2))
    if not np.all(np.abs(r2 - r) <= 1e-12):
        i, j = np.unravel_index(np.argmax(np.abs(r2 - r)), r.shape)
        bad("cor-scale-dependent", f"cov2corr(D cov D)[{i},{j}] = {r2[i, j]!r} but cov2corr(cov)[{i},{j}] = {r[i, j]!r} for D = diag(2^{case['rescale']})")
    # --- round trip cov -> cor -> cov
    c3 = corr2cov(r, sd)
    if not np.all(np.abs(c3 - cov) <= 1e-12 * np.outer(sd, sd)):
        bad("cov-not-d-cor-d", "corr2cov(cov2corr(cov), se) differs from cov")
    # --- what results.py reports together, from each possible set of files
    for start in ("cov", "cor", "coi"):
        try:
            if start == "cov":
                c, r_, p, s_ = calculate_cov_cor_coi_ses(covdf, None, None, None)
            elif start == "cor":
                cordf = pd.DataFrame(R.copy(), index=names, columns=names)
                c, r_, p, s_ = calculate_cov_cor_coi_ses(None, cordf, None, pd.Series(sd0, index=names))
            else:
                # precision matrix computed on the correlation scale (well conditioned), then rescaled exactly
                coi = np.linalg.inv(R) / np.outer(sd0, sd0)
                coidf = pd.DataFrame(coi, index=names, columns=names)
                c, r_, p, s_ = calculate_cov_cor_coi_ses(None, None, coidf, None)
        except Exception as e:  # noqa
            mon.append({"cls": "internal-error", "what": f"calculate_cov_cor_coi_ses from {start} raised {type(e).__name__}: {e}"})
            continue
        cv, rv, pv, sv = c.values, r_.values, p.values, np.asarray(s_.values, dtype=float)
        # np.linalg.inv of a badly scaled matrix loses accuracy with the spread of the scales: tolerance on the
        # correlation scale, looser when an inverse was taken
        tol = 1e-9 if start != "coi" else 1e-5
        if not np.all(np.abs(sv / np.sqrt(np.diag(cv)) - 1) <= 1e-9):
            bad(f"se-from-{start}", f"from {start}: se != sqrt(diag(cov))")
        check_cor(rv, cv, f"correlation matrix reported with the covariance matrix (from {start})", tol)
        if not np.all(np.abs(cv / np.outer(sd, sd) - R) <= (1e-9 if start != "coi" else 1e-5)):
            bad(f"cov-from-{start}", f"from {start}: covariance matrix differs from the true one")
        ident = (pv * np.outer(sd, sd)) @ (cv / np.outer(sd, sd))
        if not np.all(np.abs(ident - np.eye(n)) <= 1e-5):
            bad(f"coi-from-{start}", f"from {start}: coi . cov != I (correlation scale)")
        for df_ in (c, r_, p):
            if list(df_.index) != names or list(df_.columns) != names:
                bad("labels", f"labels lost computing from {start}")


def sci_cell(x, d=5):
    """the cell NONMEM prints for x (1PE13.5)"""
    if x == 0:
        return ["s", False, d, 0, 0]
    t = f"{abs(x):.{d}E}"
    mant, exp = t.split("E")
    return ["s", x < 0, d, int(mant.replace(".", "")), int(exp)]


RUN_LST = """Mon Jan  1 10:00:00 CET 2024
$PROBLEM run
1NONLINEAR MIXED EFFECTS MODEL PROGRAM (NONMEM) VERSION 7.4.2
 ORIGINALLY DEVELOPED BY STUART BEAL, LEWIS SHEINER, AND ALISON BOECKMANN
1
 #TBLN:      1
 #METH: First Order Conditional Estimation with Interaction
 #TERM:
0MINIMIZATION SUCCESSFUL
 NO. OF FUNCTION EVALUATIONS USED:      107
 NO. OF SIG. DIGITS IN FINAL EST.:  3.6
 #TERE:
 Elapsed estimation  time in seconds:     0.32
 Elapsed covariance  time in seconds:     0.28
 Elapsed postprocess time in seconds:     0.09
1
 #OBJV:********************************************      586.276       **************************************************
1
Stop Time:
Mon Jan  1 10:00:04 CET 2024
"""


def model_name(lab):
    """name pharmpy gives an uncommented parameter: THETA1 -> THETA_1, OMEGA(2,1) -> OMEGA_2_1"""
    import re
    m = re.fullmatch(r"THETA\(?(\d+)\)?", lab)
    if m:
        return f"THETA_{m.group(1)}"
    m = re.fullmatch(r"(OMEGA|SIGMA)\((\d+),(\d+)\)", lab)
    return f"{m.group(1)}_{m.group(2)}_{m.group(3)}"


def series_items(x):
    """[(label, value)] of a reported Series, or a description of what it is instead"""
    if isinstance(x, pd.Series) and not isinstance(x.index, pd.MultiIndex):
        return [(str(i), v) for i, v in zip(x.index, x.values)]
    return None


def run_rundir(case, drv, k, mon, tags):
    """parse_modelfit_results on a complete run directory: estimates / standard errors (and their sd-corr forms) come
    from the designated ext rows for exactly the non-fixed parameters; what is reported together is consistent,
    whatever subset of .cov/.cor/.coi exists, whatever is FIXed and whatever the units of the parameters"""
    from pharmpy.model import Model
    from pharmpy.tools.external.nonmem.results import parse_modelfit_results
    nth, nom = case["nth"], case["nom"]
    files = case["files"]
    rowsp = case.get("rows", {"se": True, "sdcorr": True, "sdcorr_se": True, "fixedrow": True})
    tags.append("rundir:" + ("+".join(files) or "no-matrix-files"))
    # NONMEM order THETA, SIGMA, OMEGA
    om_labels = tri_labels("OMEGA", nom)
    nm = [f"THETA{i+1}" for i in range(nth)] + ["SIGMA(1,1)"] + om_labels
    par = [f"THETA{i+1}" for i in range(nth)] + ["SIGMA(1,1)"] + [f"OMEGA({i+1},{i+1})" for i in range(nom)]
    fixed = dict(zip(par, case.get("fixed", [False] * len(par))))
    free = [lab for lab in par if not fixed[lab]]
    n = len(free)
    tags.append(f"rundir:fixed-thetas={sum(fixed[x] for x in par[:nth])}")
    tags.append(f"rundir:fixed-other={sum(fixed[x] for x in par[nth:])}")
    tags += [f"rundir:no-{r_}-row" for r_, v in rowsp.items() if not v]
    sub = {"a": [r[:n] for r in case["a"][:n]], "blocks": case["blocks"][:n]}
    R = corr_structure(sub)
    est = dict(zip(par, case["est"]))
    sed_all = dict(zip(par, [float(cell_value(sci_cell(x))) for x in case["se"]]))
    se = np.array([sed_all[lab] for lab in free])
    idx = {lab: i for i, lab in enumerate(free)}
    cov_e = R * np.outer(se, se)
    covw = np.array([[float(cell_value(sci_cell(x))) for x in r] for r in cov_e])
    covw = (covw + covw.T) / 2
    corw = np.array([[float(cell_value(sci_cell(x))) for x in r] for r in R])
    np.fill_diagonal(corw, se)      # NONMEM prints the standard errors on the diagonal of the .cor table
    coiw = np.array([[float(cell_value(sci_cell(x))) for x in r] for r in np.linalg.inv(R) / np.outer(se, se)])
    tags.append("rundir:min-var=1e%d" % int(np.floor(np.log10(np.diag(covw).min()))))

    def full(m):
        """estimated-parameter matrix -> NONMEM's full table (fixed / unused elements: zero rows and columns)"""
        return [[(m[idx[a], idx[b]] if a in idx and b in idx else 0.0) for b in nm] for a in nm]
    title = {"method": "First Order Conditional Estimation with Interaction", "design": None, "goal": None, "nums": [1, 0, 0, 0, 0, 0]}

    def matrix_lines(m):
        tab = {"number": 1, "now": 6, "title": title, "hw": 13, "names": ["NAME"] + nm, "cols": [[13, "l"]] + [[13, "r"]] * len(nm),
               "rows": [[["l", a]] + [sci_cell(x) for x in row] for a, row in zip(nm, full(m))]}
        return [render_title(tab)] + render_body(tab)
    e = lambda lab: est.get(lab, 0.0)
    isvar = lambda lab: not lab.startswith("THETA")
    zero_obj = ["f", False, 0, 16, 0]
    row_fns = {
        C_SE: lambda lab: sed_all[lab] if lab in idx else 1e10,
        C_SDCORR: lambda lab: (np.sqrt(e(lab)) if isvar(lab) and lab in est else 0.0),
        C_SDCORR_SE: lambda lab: (sed_all[lab] / (2 * np.sqrt(e(lab))) if isvar(lab) and lab in idx else (0.0 if not isvar(lab) else 1e10)),
        C_FIXED: lambda lab: 0.0 if lab in idx else 1.0,
    }
    present = [C_FINAL] + [c for c, key in ((C_SE, "se"), (C_SDCORR, "sdcorr"), (C_SDCORR_SE, "sdcorr_se"), (C_FIXED, "fixedrow")) if rowsp[key]]

    def row(it, f, obj):
        return [["i", it]] + [sci_cell(f(lab)) for lab in nm] + [obj]
    ext_rows = [row(0, lambda lab: e(lab) if fixed.get(lab, True) else 1.1 * e(lab), ["f", False, 587, 14, 36644134661617]),
                row(9, e, ["f", False, 586, 14, 27605628188053]),
                row(C_FINAL, e, ["f", False, 586, 14, 27605628188053])] + \
               [row(c, row_fns[c], zero_obj) for c in present[1:]]
    ext_tab = {"number": 1, "now": 6, "title": title, "hw": 13, "names": ["ITERATION"] + nm + ["OBJ"],
               "cols": [[13, "r"]] * (1 + len(nm)) + [[22, "r"]], "rows": ext_rows}
    ext_lines = [render_title(ext_tab)] + render_body(ext_tab)
    written = {c: {lab: cell_value(cellv) for lab, cellv in zip(nm, r_[1:-1])} for c, r_ in zip([0, 9] + present, ext_rows)}
    fx = lambda lab: " FIX" if fixed[lab] else ""
    pred = [f"P{i+1} = THETA({i+1})" + (f"*EXP(ETA({i+1}))" if i < nom else "") for i in range(nth)]
    mod = ["$PROBLEM run", "$INPUT ID TIME DV", "$DATA run1.csv IGNORE=@", "$PRED"] + pred + \
          ["Y = " + "+".join(f"P{i+1}" for i in range(nth)) + " + EPS(1)"] + \
          [f"$THETA (0,{sci_to_str(est[f'THETA{i+1}'])}){fx(f'THETA{i+1}')}" for i in range(nth)] + \
          [f"$OMEGA {sci_to_str(est[f'OMEGA({i+1},{i+1})'])}{fx(f'OMEGA({i+1},{i+1})')}" for i in range(nom)] + \
          [f"$SIGMA {sci_to_str(est['SIGMA(1,1)'])}{fx('SIGMA(1,1)')}", "$ESTIMATION METHOD=1 INTER", "$COVARIANCE"]
    # $TABLE output with a dose/observation pattern (non-observation records have RES = WRES = CWRES = 0)
    trows = case.get("table", {"rows": []})["rows"]
    tcols = ["ID", "TIME", "MDV", "PRED", "RES", "WRES", "CWRES"]
    tab_lines, tab_cells = [], []
    if trows:
        trng = random.Random(case["seed"] ^ 0x5A5A)
        tags.append("rundir:table=" + case["table"]["pattern"])
        mod.append("$TABLE " + " ".join(tcols) + " NOAPPEND NOPRINT ONEHEADER FILE=sdtab1")
        tprev = {}
        for rid, obs in trows:
            tprev[rid] = tprev.get(rid, -1) + 1
            nz = lambda: gen_sci(trng, d=4, zero_p=0.0, neg_p=0.5)
            zero = ["s", False, 4, 0, 0]
            tab_cells.append([sci_cell(float(rid), 4), sci_cell(0.5 * tprev[rid], 4), sci_cell(0.0 if obs else 1.0, 4),
                              gen_sci(trng, d=4, neg_p=0)] + ([nz(), nz(), nz()] if obs else [zero, zero, zero]))
        ttab = {"number": 1, "now": 3, "title": None, "hw": 12, "names": tcols, "cols": [[12, "r"]] * len(tcols), "rows": tab_cells}
        tab_lines = [render_title(ttab)] + render_body(ttab)
    root = scratch_root() / f"c20-run-{os.getpid()}"
    root.mkdir(parents=True, exist_ok=True)
    try:
        (root / "run1.mod").write_text("\n".join(mod) + "\n")
        (root / "run1.csv").write_text("ID,TIME,DV\n1,0,1.0\n1,1,2.0\n2,0,1.5\n2,1,2.5\n")
        (root / "run1.lst").write_text(RUN_LST)
        (root / "run1.ext").write_text("\n".join(ext_lines) + "\n")
        if tab_lines:
            (root / "sdtab1").write_text("\n".join(tab_lines) + "\n")
        for f, m in (("cov", covw), ("cor", corw), ("coi", coiw)):
            if f in files:
                (root / f"run1.{f}").write_text("\n".join(matrix_lines(m)) + "\n")
        try:
            import warnings
            with warnings.catch_warnings():
                warnings.simplefilter("ignore")
                model = Model.parse_model(root / "run1.mod")
                res = parse_modelfit_results(model, root / "run1.mod")
        except Exception as ex:  # noqa
            if "cor" in files and isinstance(ex, ValueError) and "read-only" in str(ex):
                # decidable witness class: a run directory that contains a .cor file (covariance step successful)
                mon.append({"cls": "rundir-cor-file-read-only",
                            "what": f"files {files}: parse_modelfit_results raised ValueError: {ex} (np.fill_diagonal(cor.values, 1))"})
            else:
                mon.append({"cls": "internal-error", "what": f"parse_modelfit_results raised {type(ex).__name__}: {ex}"})
            return
    finally:
        shutil.rmtree(root, ignore_errors=True)
    if res is None:
        mon.append({"cls": "rundir-missing", "what": "parse_modelfit_results returned None"})
        return
    info = f"files {files}, FIX {[lab for lab in par if fixed[lab]]}, rows {[c for c in present]}"
    # ---- $TABLE-derived frames: values on the right records; then the JSON round trip of the whole results object
    if trows:
        obs_pos = [i for i, (_, o) in enumerate(trows) if o]
        tinfo = f"$TABLE pattern {case['table']['pattern']} ({len(trows)} records, observations at {obs_pos[:6]})"
        pr, rs = res.predictions, res.residuals
        if pr is None or list(pr.index) != list(range(len(trows))) or list(map(str, pr.columns)) != ["PRED"] or \
                not all(same_exact(cell_value(c[3]), v) for c, v in zip(tab_cells, pr["PRED"].values)):
            mon.append({"cls": "rundir-predictions", "what": f"{tinfo}: predictions {None if pr is None else (list(pr.index)[:6], list(pr.columns))}"})
        if rs is None or list(rs.index) != obs_pos or list(map(str, rs.columns)) != ["RES", "WRES", "CWRES"] or \
                not all(same_exact(cell_value(tab_cells[i][4 + j]), rs.iloc[q, j]) for q, i in enumerate(obs_pos) for j in range(3)):
            mon.append({"cls": "rundir-residuals-wrong-records",
                        "what": f"{tinfo}: residuals are reported for records {None if rs is None else list(rs.index)[:8]}"})
    roundtrip_results(res, drv, k, mon, tags, f"results of a run directory ({case.get('table', {}).get('pattern', 'no $TABLE')})")
    # pharmpy order: THETA, OMEGA, SIGMA; estimated parameters only
    order_labs = [lab for lab in ([f"THETA{i+1}" for i in range(nth)] + [f"OMEGA({i+1},{i+1})" for i in range(nom)] + ["SIGMA(1,1)"])
                  if not fixed[lab]]
    names = [model_name(lab) for lab in order_labs]
    reported = {"parameter_estimates": res.parameter_estimates, "parameter_estimates_sdcorr": res.parameter_estimates_sdcorr,
                "standard_errors": res.standard_errors, "standard_errors_sdcorr": res.standard_errors_sdcorr}

    # ---- K: the Lean model of results.py on the same ext file
    if drv is not None:
        mf = [[rename_label(lab), fixed[lab]] for lab in ([f"THETA{i+1}" for i in range(nth)] + [f"OMEGA({i+1},{i+1})" for i in range(nom)] + ["SIGMA(1,1)"])]
        ans = drv.ask(["run", ext_lines, mf])
        if is_err(ans) or ans == ["mixed"]:
            k.append(f"rundir: model {ans}, code returned results ({info})")
        else:
            def cmp_series(what, mrow, x):
                items = series_items(x)
                if items is None:
                    k.append(f"rundir {what}: model row, code {type(x).__name__} with index {getattr(getattr(x, 'index', None), 'names', None)} ({info})")
                    return
                ml = [model_name(lab) for lab, _ in mrow]
                if ml != [i for i, _ in items]:
                    k.append(f"rundir {what}: labels model {ml} code {[i for i, _ in items]} ({info})")
                    return
                for (lab, tok), (_, v) in zip(mrow, items):
                    if not same(tok, v):
                        k.append(f"rundir {what}[{lab}]: model {tok!r} code {v!r} ({info})")
                        return

            def cmp_nan(what, labels, x):
                items = series_items(x)
                if items is None or [i for i, _ in items] != labels or not all(is_nan(v) for _, v in items):
                    k.append(f"rundir {what}: model all-NaN over {labels}, code {items if items is not None else type(x).__name__} ({info})")
            mest, msd, mse = ans
            cmp_series("parameter_estimates", mest, reported["parameter_estimates"])
            cmp_series("parameter_estimates_sdcorr", msd, reported["parameter_estimates_sdcorr"])
            plabels = [model_name(lab) for lab, _ in mest]
            if mse in ("noSE", "aborted"):
                cmp_nan("standard_errors", plabels, reported["standard_errors"])
                cmp_nan("standard_errors_sdcorr", plabels, reported["standard_errors_sdcorr"])
                if mse == "aborted" and res.covariance_matrix is not None:
                    k.append(f"rundir: model cov_abort, code reports a covariance matrix ({info})")
            else:
                cmp_series("standard_errors", mse[1], reported["standard_errors"])
                cmp_series("standard_errors_sdcorr", mse[2], reported["standard_errors_sdcorr"])

    # ---- monitors: the designated rows, for exactly the estimated parameters
    def expect(name, code, alt_code=None):
        x = reported[name]
        items = series_items(x)
        if items is None:
            return mon.append({"cls": f"rundir-{name}-not-a-parameter-series",
                               "what": f"{info}: {name} is {type(x).__name__} with index {getattr(getattr(x, 'index', None), 'names', None)}, expected values for {names}"})
        if [i for i, _ in items] != names:
            return mon.append({"cls": f"rundir-{name}-labels", "what": f"{info}: {name} has labels {[i for i, _ in items]}, estimated parameters are {names}"})
        for lab, (_, v) in zip(order_labs, items):
            w = written[alt_code][lab] if alt_code is not None and isvar(lab) else written[code][lab]
            if not same_exact(w, v):
                return mon.append({"cls": f"rundir-{name}-wrong-row",
                                   "what": f"{info}: {name}[{model_name(lab)}] = {v!r}, the designated row has {float(w)!r}"})
    expect("parameter_estimates", C_FINAL)
    if rowsp["sdcorr"]:
        expect("parameter_estimates_sdcorr", C_FINAL, C_SDCORR)
    else:
        x = reported["parameter_estimates_sdcorr"]
        items = series_items(x)
        if items is None or [i for i, _ in items] != names:
            mon.append({"cls": "rundir-sdcorr-absent-row-wrong-index",
                        "what": f"{info}: row -1000000004 absent: parameter_estimates_sdcorr is indexed by "
                                f"{list(getattr(x, 'index', []))[:3]} instead of the parameters {names}"})
        elif not all(is_nan(v) for _, v in items):
            mon.append({"cls": "rundir-sdcorr-absent-row-values", "what": f"{info}: row -1000000004 absent but parameter_estimates_sdcorr = {items}"})
    have_se = rowsp["se"] and rowsp["sdcorr_se"]
    if have_se:
        expect("standard_errors", C_SE)
        expect("standard_errors_sdcorr", C_SE, C_SDCORR_SE)
    elif not rowsp["se"]:
        for nm_ in ("standard_errors", "standard_errors_sdcorr"):
            items = series_items(reported[nm_])
            if items is None or [i for i, _ in items] != names or not all(is_nan(v) for _, v in items):
                mon.append({"cls": "rundir-se-absent-row", "what": f"{info}: row -1000000001 absent but {nm_} = {items}"})
    if not have_se:
        tags.append("rundir:no-covariance-step-results")
        return
    if res.covariance_matrix is None or res.correlation_matrix is None or res.precision_matrix is None or res.standard_errors is None:
        mon.append({"cls": "rundir-matrices-missing",
                    "what": f"{info}: rows -1000000001 and -1000000005 and the matrix files exist, but covariance/correlation/precision "
                            f"matrix reported as {[type(x).__name__ for x in (res.covariance_matrix, res.correlation_matrix, res.precision_matrix)]}"})
        return
    order = [idx[lab] for lab in order_labs]
    cv, rv, pv = res.covariance_matrix.values, res.correlation_matrix.values, res.precision_matrix.values
    sv = np.asarray(res.standard_errors.values, dtype=float)
    if cv.shape != (n, n) or rv.shape != (n, n) or pv.shape != (n, n) or sv.shape != (n,):
        mon.append({"cls": "rundir-shape", "what": f"{info}: shapes {cv.shape} {rv.shape} {pv.shape} {sv.shape}, {n} estimated parameters"})
        return
    for m_, nm_ in ((res.covariance_matrix, "covariance"), (res.correlation_matrix, "correlation"), (res.precision_matrix, "precision")):
        if list(map(str, m_.index)) != names or list(map(str, m_.columns)) != names:
            mon.append({"cls": "rundir-matrix-labels", "what": f"{info}: {nm_}_matrix labels {list(m_.index)}, estimated parameters {names}"})
            return
    sw = se[order]
    info += f", standard errors {sw.min():.1e}..{sw.max():.1e}"
    if "cov" in files and not np.all(np.abs(cv - covw[np.ix_(order, order)]) <= 1e-6 * np.outer(sw, sw)):
        mon.append({"cls": "rundir-cov", "what": f"{info}: covariance_matrix differs from the .cov file"})
    # defining relations, on the correlation scale.  Derived quantities must be consistent to rounding error of the
    # arithmetic; quantities read from two files agree to the printed precision only.
    derived_cor = "cor" not in files
    tol = 1e-9 if derived_cor and ("cov" in files) else 3e-4
    dd = np.sqrt(np.diag(cv))
    if not np.all(np.abs(np.diag(rv) - 1) <= 1e-12):
        mon.append({"cls": "relations-cor-diag-not-one", "what": f"{info}: diagonal of correlation_matrix is {np.diag(rv)}"})
    elif not np.all(np.abs(rv - cv / np.outer(dd, dd)) <= tol):
        i, j = np.unravel_index(np.argmax(np.abs(rv - cv / np.outer(dd, dd))), rv.shape)
        mon.append({"cls": "relations-cor-not-cov-over-sd",
                    "what": f"{info}: correlation_matrix[{i},{j}] = {rv[i, j]!r} but cov/(se_i se_j) = {(cv / np.outer(dd, dd))[i, j]!r} (cov = {cv[i, j]!r})"})
    if not np.all(np.abs(dd / sv - 1) <= 3e-4):
        mon.append({"cls": "relations-se-not-sqrt-diag-cov", "what": f"{info}: standard_errors vs sqrt(diag(covariance_matrix))"})
    ident = (pv * np.outer(sw, sw)) @ (cv / np.outer(sw, sw))
    if not np.all(np.abs(ident - np.eye(n)) <= 2e-3):
        mon.append({"cls": "relations-coi-not-inverse", "what": f"{info}: precision_matrix . covariance_matrix != I (max dev {np.abs(ident - np.eye(n)).max():.2e})"})


def sci_to_str(x):
    return render_cell(sci_cell(x))


def canon_label(v):
    """canonical text of an index label / JSON scalar"""
    if isinstance(v, (bool, np.bool_)):
        return str(bool(v))
    if isinstance(v, (int, np.integer)):
        return str(int(v))
    if isinstance(v, (float, np.floating)):
        return repr(float(v))
    return str(v)


def index_rows(idx):
    if isinstance(idx, pd.MultiIndex):
        return [[canon_label(x) for x in t] for t in idx]
    return [[canon_label(x)] for x in idx]


def frame_parts(x):
    """(index names, index label rows, column names) of a Series / DataFrame"""
    df = x.to_frame() if isinstance(x, pd.Series) else x
    return [n if n is None else str(n) for n in df.index.names], index_rows(df.index), [str(c) for c in df.columns], df


def same_label_rows(a, b):
    """index labels equal (numbers by value)"""
    if len(a) != len(b):
        return False
    for ra, rb in zip(a, b):
        if len(ra) != len(rb):
            return False
        for u, v in zip(ra, rb):
            if u != v:
                try:
                    if float(u) != float(v):
                        return False
                except ValueError:
                    return False
    return True


def k_json_frame(what, x, drv, k, tags):
    """the table JSON form written by _df_to_json vs the Lean encoder: field names, primary key, and the index
    labels stored in every record (cell values are compared by the round trip monitor)"""
    from pharmpy.workflows.results import _df_to_json
    names, irows, cols, df = frame_parts(x)
    if isinstance(x, pd.Series) and x.size >= 1 and isinstance(x.iloc[0], pd.DataFrame):
        return
    import warnings
    try:
        with warnings.catch_warnings():
            warnings.simplefilter("ignore")
            js = _df_to_json(df.copy())
    except Exception as e:  # noqa
        tags.append(f"k-skip:to_json-raises-{type(e).__name__}")
        return
    cells = [["c"] * len(cols) for _ in irows]
    ans = drv.ask(["jsontable", [none_or(n) for n in names], irows, cols, cells])
    if is_err(ans):
        k.append(f"json {what}: model {ans}")
        return
    mfields, mpk, mdata, _ = ans
    cfields = [f["name"] for f in js["schema"]["fields"]]
    cpk = js["schema"].get("primaryKey", [])
    if mfields != cfields or mpk != list(cpk):
        k.append(f"json {what}: schema model fields {mfields} primaryKey {mpk}, code fields {cfields} primaryKey {cpk}")
        return
    if len(mdata) != len(js["data"]):
        k.append(f"json {what}: model {len(mdata)} records, code {len(js['data'])}")
        return
    nidx = len(names)
    for i, (mr, cr) in enumerate(zip(mdata, js["data"])):
        if [kv[0] for kv in mr] != list(cr.keys()):
            k.append(f"json {what}: record {i} keys model {[kv[0] for kv in mr]} code {list(cr.keys())}")
            return
        ml = [kv[1] for kv in mr[:nidx]]
        cl = [canon_label(cr[kv[0]]) for kv in mr[:nidx]]
        if not same_label_rows([ml], [cl]):
            k.append(f"json {what}: record {i} index labels model {ml} code {cl}")
            return


def frames_of(res):
    out = {}
    for f, v in vars(res).items():
        if isinstance(v, (pd.Series, pd.DataFrame)):
            out[f.lstrip("_")] = v
    return out


def roundtrip_results(res, drv, k, mon, tags, ctx):
    """read_results(to_json(r)) == r for every Series / DataFrame of a results object: index labels (exactly), index
    names, column labels, values"""
    from pharmpy.workflows.results import read_results
    import warnings
    frames = frames_of(res)
    try:
        with warnings.catch_warnings():
            warnings.simplefilter("ignore")
            back = read_results(res.to_json())
    except Exception as e:  # noqa
        dup = [f for f, v in frames.items() if not v.index.is_unique]
        mon.append({"cls": "json-roundtrip-duplicate-index-labels" if dup else "json-roundtrip-error",
                    "what": f"{ctx}: to_json/read_results raised {type(e).__name__}: {e}"})
        return None
    for f, v in frames.items():
        w = getattr(back, f, None)
        if isinstance(v, pd.Series) and v.size >= 1 and isinstance(v.iloc[0], pd.DataFrame):
            continue
        if drv is not None:
            k_json_frame(f, v, drv, k, tags)
        names, irows, cols, df = frame_parts(v)
        tags.append("json-index:" + type(v.index).__name__ + ("" if v.index.is_unique else "-dups") +
                    ("-named" if any(n is not None for n in names) else ""))
        if isinstance(v.index, pd.RangeIndex) and len(v.index) and (v.index.start != 0 or v.index.step != 1):
            tags.append("json-index:RangeIndex-nonbasic")
        if type(w) is not type(v):
            mon.append({"cls": "json-roundtrip-" + f, "what": f"{ctx}: {f} comes back as {type(w).__name__}"})
            continue
        wn, wrows, wcols, wdf = frame_parts(w)
        if not same_label_rows(irows, wrows):
            if not v.index.is_unique:
                cls = "json-roundtrip-duplicate-index-labels"
            else:
                cls = "json-roundtrip-index-lost"
            mon.append({"cls": cls, "what": f"{ctx}: {f} has index {type(v.index).__name__} {irows[:4]} and comes back with "
                        f"{type(w.index).__name__} {wrows[:4]} (columns {wcols})"})
            continue
        if wn != names:
            reserved = any(n is not None and (n == "index" or n.startswith("level_")) for n in names)
            mon.append({"cls": "json-roundtrip-reserved-index-name" if reserved else "json-roundtrip-index-names",
                        "what": f"{ctx}: {f} index names {names} come back as {wn}"})
            continue
        if wcols != cols:
            mon.append({"cls": "json-roundtrip-columns", "what": f"{ctx}: {f} columns {cols} come back as {wcols}"})
            continue
        try:
            a, b = np.asarray(wdf.values, dtype=float), np.asarray(df.values, dtype=float)
        except (ValueError, TypeError):
            if not (wdf.astype(str).values == df.astype(str).values).all():
                mon.append({"cls": "json-roundtrip-" + f, "what": f"{ctx}: {f} values differ"})
            continue
        if a.shape != b.shape:
            mon.append({"cls": "json-roundtrip-" + f, "what": f"{ctx}: {f} shape {b.shape} comes back as {a.shape}"})
            continue
        d = ~((a == b) | (np.isnan(a) & np.isnan(b)))
        if d.any():
            # decidable witness class: every differing value came back rounded to 15 decimal places
            # (|x| < 1) or to 15 significant digits (exponent form)
            # (0.5e-15 in the last printed decimal, plus the representation error of the two doubles)
            if np.all((np.abs(a[d] - b[d]) <= 0.5e-15 + 2 * np.spacing(np.abs(b[d]))) | (np.abs(a[d] - b[d]) <= 1e-14 * np.abs(b[d]))):
                mon.append({"cls": "json-roundtrip-15-decimal-places",
                            "what": f"{f}: {b[d][0]!r} comes back as {a[d][0]!r} (written with 15 decimal places / 15 significant digits)"})
            else:
                mon.append({"cls": "json-roundtrip-" + f, "what": f"{ctx}: {f} values differ after read_results(to_json(r)): {a[d][0]!r} vs {b[d][0]!r}"})
    return back


def make_index(d):
    kind, n = d["kind"], d["n"]
    if kind == "range0" or kind == "empty":
        return pd.RangeIndex(n)
    if kind == "range":
        return pd.RangeIndex(d["start"], d["start"] + n * d["step"], d["step"])
    if kind in ("ints", "dups", "float", "str"):
        return pd.Index(d["labels"])
    if kind == "named":
        return pd.Index(d["labels"], name="ID")
    if kind == "reserved-name":
        return pd.Index(d["labels"], name="index")
    names = {"multi-named": ["ID", "TIME"], "multi-unnamed": None, "multi3": ["ID", "TIME", None]}[kind]
    return pd.MultiIndex.from_tuples([tuple(x) for x in d["labels"]], names=names)


def run_json(case, drv, k, mon, tags):
    from pharmpy.workflows.results import ModelfitResults
    labs = case["labels"]
    pe = pd.Series({lab: case["pe"][lab] for lab in labs}, name="estimates")
    se = pd.Series({lab: case["se"][lab] for lab in labs}, name="SE") if case["se"] else None
    ids = case["ids"]
    rng = random.Random(case["seed"])
    etan = [f"ETA_{i+1}" for i in range(case["neta"])]
    nonmem = case["nonmem"]

    def val():
        return float(cell_value(gen_sci(rng))) if nonmem else rng.gauss(0, 1)
    ie = pd.DataFrame([[val() for _ in etan] for _ in ids], index=pd.Index(ids, name="ID"), columns=etan)
    iofv = pd.Series([float(cell_value(gen_obj(rng))) if nonmem else rng.uniform(0, 50) for _ in ids],
                     index=pd.Index(ids, name="ID"), name="iOFV")
    kw = dict(ofv=case["ofv"], parameter_estimates=pe, standard_errors=se, individual_estimates=ie, individual_ofv=iofv,
              minimization_successful=True, significant_digits=3.2, runtime_total=1.5, function_evaluations=77)
    if case["matrix"]:
        if nonmem:
            m = np.array([[val() for _ in labs] for _ in labs])
            m = np.tril(m) + np.tril(m, -1).T
        else:
            m = np.array([[rng.uniform(-1, 1) for _ in labs] for _ in labs])
            m = m @ m.T + np.eye(len(labs))
        kw["covariance_matrix"] = pd.DataFrame(m, index=labs, columns=labs)
    # residuals / predictions-like frames with every kind of index
    for fname, d, colnames in zip(("residuals", "predictions"), case.get("frames", []),
                                  (["RES", "WRES", "CWRES"], ["PRED", "IPRED", "CIPREDI"])):
        idx = make_index(d)
        cols = colnames[:d["ncol"]]
        kw[fname] = pd.DataFrame([[round(rng.uniform(-3, 3), 4) for _ in cols] for _ in range(len(idx))], index=idx, columns=cols)
        tags.append("json-frame:" + d["kind"])
    try:
        res = ModelfitResults(**kw)
    except Exception as e:  # noqa
        mon.append({"cls": "json-roundtrip-error", "what": f"ModelfitResults raised {type(e).__name__}: {e}"})
        return
    tags.append("json:nonmem-6-digits" if nonmem else "json:full-precision")
    back = roundtrip_results(res, drv, k, mon, tags, "ModelfitResults built directly")
    if back is None:
        return
    for f in ("ofv", "minimization_successful", "significant_digits", "runtime_total", "function_evaluations"):
        if getattr(back, f) != kw[f]:
            mon.append({"cls": "json-roundtrip-" + f, "what": f"{f} differs after read_results(to_json(r))"})
    if se is None and back.standard_errors is not None:
        mon.append({"cls": "json-roundtrip-standard_errors", "what": "None comes back as a value"})


LST_HEAD = ["Mon Jan  1 10:00:00 CET 2024", "$PROBLEM run", "1NONLINEAR MIXED EFFECTS MODEL PROGRAM (NONMEM) VERSION 7.4.2",
            " ORIGINALLY DEVELOPED BY STUART BEAL, LEWIS SHEINER, AND ALISON BOECKMANN"]
LST_TAIL = ["1", "Stop Time:", "Mon Jan  1 10:00:04 CET 2024"]


def lst_block(b, last):
    """lines of one estimation block with the field each line carries (a block exists once a tag follows its #TBLN)"""
    out = [("1", None), (f" #TBLN:{b['n']:7d}", None), (" #METH: First Order Conditional Estimation with Interaction", "tbln"),
           (" #TERM:", None), ("0MINIMIZATION SUCCESSFUL" if b["ok"] else "0MINIMIZATION TERMINATED", "ok")]
    if not b["ok"]:
        out.append((" DUE TO ROUNDING ERRORS (ERROR=134)", None))
    out += [(f" NO. OF FUNCTION EVALUATIONS USED:{b['feval']:9d}", "feval"), (f" NO. OF SIG. DIGITS IN FINAL EST.:{b['sig']:5.1f}", "sig"),
            (" #TERE:", None), (f" Elapsed estimation  time in seconds:{b['time']:9.2f}", "time")]
    if last:
        out.append((" Elapsed covariance  time in seconds:     0.28", None))
    out += [(" Elapsed postprocess time in seconds:     0.09", None), ("1", None),
            (" #OBJV:********************************************      586.276       **************************************************", None)]
    return out


def lst_of_run(run):
    """(lines or None, {table number: {field: value}}) — what the lst file really contains"""
    cut = run["cut"]
    if cut == "no-lst":
        return None, {}
    blocks = run["blocks"]
    if cut == "before-first-tbln":
        return list(LST_HEAD), {}
    if cut in ("between-blocks", "fewer-blocks"):
        blocks = blocks[:run["keep"]]
    lines, content = list(LST_HEAD), {}
    for i, b in enumerate(blocks):
        bl = lst_block(b, i == len(run["blocks"]) - 1 or i == len(blocks) - 1)
        if cut == "mid-block" and i == run["cut_block"]:
            bl = bl[:1 + run["cut_line"]]
        for line, field in bl:
            lines.append(line)
            if field == "tbln":
                content[b["n"]] = {}
            elif field is not None and b["n"] in content:
                content[b["n"]][field] = b[field]
        if cut == "mid-block" and i == run["cut_block"]:
            return lines, content
    if cut in ("complete", "more-blocks", "fewer-blocks"):
        lines += LST_TAIL
    return lines, content


def ext_of_run(run):
    out = []
    for n in range(1, run["ntab"] + 1):
        out += [f"TABLE NO.{n:6d}: First Order Conditional Estimation with Interaction: Problem=1 Subproblem=0 Superproblem1=0 "
                f"Iteration1=0 Superproblem2=0 Iteration2=0",
                " ITERATION    THETA1       SIGMA(1,1)   OMEGA(1,1)   OBJ",
                "            0  1.00000E+00  1.00000E-01  2.00000E-01    587.36644134661617",
                "  -1000000000  1.10000E+00  1.10000E-01  2.10000E-01    586.27605628188053",
                "  -1000000001  1.00000E-02  1.00000E-03  2.00000E-03    0.0000000000000000",
                "  -1000000004  0.00000E+00  3.00000E-01  4.00000E-01    0.0000000000000000",
                "  -1000000005  0.00000E+00  3.00000E-03  4.00000E-03    0.0000000000000000",
                "  -1000000006  0.00000E+00  0.00000E+00  0.00000E+00    0.0000000000000000"]
    return out


def run_runseq(case, drv, k, mon, tags):
    """several run directories read one after the other in this process: what is reported for a run comes from its own
    output files — whatever was read before — and is missing (False / NaN) where its lst file does not have it"""
    import warnings
    from pharmpy.model import Model
    from pharmpy.tools.external.nonmem.results import parse_modelfit_results
    from pharmpy.tools.external.nonmem.results_file import NONMEMResultsFile
    runs = case["runs"]
    root = scratch_root() / f"c20-seq-{os.getpid()}"
    shutil.rmtree(root, ignore_errors=True)
    tags.append(f"runseq:len={len(case['order'])}")
    try:
        dirs, truth = [], []
        for i, run in enumerate(runs):
            d = root / f"r{i}"
            d.mkdir(parents=True, exist_ok=True)
            est = "\n".join(["$ESTIMATION METHOD=1 INTER"] * run["ntab"])
            (d / "run1.mod").write_text("$PROBLEM run\n$INPUT ID TIME DV\n$DATA run1.csv IGNORE=@\n$PRED\nY = THETA(1)*EXP(ETA(1)) + EPS(1)\n"
                                        f"$THETA (0,1)\n$OMEGA 0.2\n$SIGMA 0.1\n{est}\n$COVARIANCE\n")
            (d / "run1.csv").write_text("ID,TIME,DV\n1,0,1.0\n1,1,2.0\n")
            (d / "run1.ext").write_text("\n".join(ext_of_run(run)) + "\n")
            lines, content = lst_of_run(run)
            if lines is not None:
                (d / "run1.lst").write_text("\n".join(lines) + "\n")
            dirs.append(d)
            truth.append(content)
            tags.append("runseq:lst=" + run["cut"])
        first = {}
        for pos, i in enumerate(case["order"]):
            run, content = runs[i], truth[i]
            ctx = f"run {i} (lst {run['cut']}, {run['ntab']} ext tables) read at position {pos} of order {case['order']}"
            # --- K: the dictionary of this NONMEMResultsFile instance vs the Lean model of a fresh instance
            if (dirs[i] / "run1.lst").exists():
                rf = NONMEMResultsFile(dirs[i] / "run1.lst")
                code_tab = [[str(n), str(rf.estimation_status(n)["function_evaluations"])] for n in rf.table]
                if drv is not None:
                    blocks = [[n, str(float(f["feval"])) if "feval" in f else "nan"] for n, f in content.items()]
                    m = drv.ask(["lsttable", blocks])
                    cm = [[a, "nan" if b in ("nan", "None") else str(float(b))] for a, b in code_tab]
                    if m != cm:
                        k.append(f"lst table of {ctx}: model {m} code {cm}")
            try:
                with warnings.catch_warnings():
                    warnings.simplefilter("ignore")
                    res = parse_modelfit_results(Model.parse_model(dirs[i] / "run1.mod"), dirs[i] / "run1.mod")
            except Exception as e:  # noqa
                mon.append({"cls": "internal-error", "what": f"{ctx}: parse_modelfit_results raised {type(e).__name__}: {e}"})
                continue
            fl = lambda x: float("nan") if x is None else float(x)
            got = {"ok": [bool(x) for x in res.minimization_successful_iterations],
                   "feval": [fl(x) for x in res.function_evaluations_iterations],
                   "sig": [fl(x) for x in res.significant_digits_iterations],
                   "time": [fl(x) for x in res.estimation_runtime_iterations]}
            # --- monitor: the numbers of this run's own lst file, or missing
            for field, missing in (("ok", False), ("feval", float("nan")), ("sig", float("nan")), ("time", float("nan"))):
                want = [content.get(n, {}).get(field, missing) for n in range(1, run["ntab"] + 1)]
                g = got[field]
                same_ = len(g) == len(want) and all((w == v) or (isinstance(w, float) and math.isnan(w) and math.isnan(v)) for w, v in zip(want, g))
                if not same_:
                    foreign = any(j != i and any(f.get(field) == v for f in truth[j].values()) for j in case["order"][:pos] for v in g
                                  if not (isinstance(v, float) and math.isnan(v)))
                    mon.append({"cls": "runseq-lst-value-of-another-run" if foreign else "runseq-lst-value-wrong",
                                "what": f"{ctx}: {field} per estimation step reported as {g}, its lst file has {want}"})
                    break
            # --- metamorphic: reading a run again later gives what it gave the first time
            key = (got["ok"], [repr(x) for x in got["feval"]], [repr(x) for x in got["sig"]], [repr(x) for x in got["time"]])
            if i in first and first[i] != key:
                mon.append({"cls": "runseq-history-dependent", "what": f"{ctx}: lst-derived results differ from the first time this run was read"})
            first.setdefault(i, key)
    finally:
        shutil.rmtree(root, ignore_errors=True)


def run_case(case, drv):
    k, mon, tags = [], [], []
    kind = case["kind"]
    tags.append("kind:" + kind)
    if kind == "runseq":
        run_runseq(case, drv, k, mon, tags)
        return {"k": k, "mon": mon, "tags": tags, "nontrivial": True}
    if kind == "rundir":
        run_rundir(case, drv, k, mon, tags)
        return {"k": k, "mon": mon, "tags": tags, "nontrivial": True}
    if kind == "relations":
        run_relations(case, drv, k, mon, tags)
        return {"k": k, "mon": mon, "tags": tags, "nontrivial": True}
    if kind == "json":
        run_json(case, drv, k, mon, tags)
        return {"k": k, "mon": mon, "tags": tags, "nontrivial": True}
    if kind == "iterdf":
        import sys
        c20_iterdf.run_iterdf(case, drv, k, mon, tags, sys.modules[__name__])
        return {"k": k, "mon": mon, "tags": tags, "nontrivial": len(case["rows"]) >= 2}
    if not POSTS:
        _load_posts()
    tabs = case["tables"]
    fits = all((table_fits_records(t) if case["nolabel"] else table_fits(t)) and title_fits(t) for t in tabs)
    lines = []
    for t in tabs:
        lines += table_lines(t, case)
    # writer: Python mirror vs Lean spec
    if drv is not None:
        for t in tabs:
            ans = drv.ask(["renderbody", t["hw"], t["names"], t["cols"], t["rows"]])
            if ans[0] != render_body(t) or ans[1] != ("true" if table_fits(t) else "false") or \
                    ans[2] != ("true" if table_fits_records(t) else "false"):
                k.append(f"writer: Lean spec {str(ans)[:200]} python {render_body(t)[:2]} fits={table_fits(t)}")
            ti = t["title"]
            if ti is None:
                a2 = drv.ask(["rendertitleno", t["now"], t["number"]])
            else:
                a2 = drv.ask(["rendertitle", t["now"], t["number"], ti["method"], none_or(ti["design"]), none_or(ti["goal"]), ti["nums"]])
            if a2 != render_title(t):
                k.append(f"writer: title Lean {a2!r} python {render_title(t)!r}")
    lines = apply_muts(lines, case["muts"])
    clean = fits and not case["muts"]
    tags.append("fits" if fits else "unfit")
    if case["muts"]:
        tags += ["mut:" + m[0] for m in case["muts"]]
    tags.append(f"tables={len(tabs)}")
    tags.append(f"rows={min(sum(len(t['rows']) for t in tabs), 20)}")
    if case["notitle"]:
        tags.append("notitle")
    if case["nolabel"]:
        tags.append("nolabel")
    if any(t.get("repeat") for t in tabs):
        tags.append("repeated-headers")
    if not lines:
        tags.append("empty-file")
        return {"k": k, "mon": mon, "tags": tags, "nontrivial": False}
    root = scratch_root() / f"c20-{os.getpid()}"
    root.mkdir(parents=True, exist_ok=True)
    path = root / ("run" + case["suffix"])
    try:
        path.write_text("\n".join(lines) + "\n")
        tf, ferr = read_code(path, case)
        if drv is not None:
            compare_model(case, lines, tf, ferr, drv, k, tags)
        if clean:
            monitors(case, tf, ferr, mon, tags)
    finally:
        shutil.rmtree(root, ignore_errors=True)
    nontrivial = any(len(t["rows"]) >= 2 and len(t["names"]) >= 3 for t in tabs)
    return {"k": k, "mon": mon, "tags": tags, "nontrivial": nontrivial}
