"""Helpers of the C09 check: wire conversion with decimal floats, exact point evaluation, independent
dataset statistics (pure Python, no pandas reductions)."""
from __future__ import annotations

import math
import statistics
from fractions import Fraction

import sympy
from sympy.core.function import AppliedUndef

from harness.common import exprconv


def rat(x) -> sympy.Rational:
    """Exact decimal image of a float (what its repr says), as a sympy Rational."""
    fr = Fraction(repr(float(x)))
    return sympy.Rational(fr.numerator, fr.denominator)


def norm(e) -> sympy.Expr:
    """pharmpy Expr / sympy -> sympy with every Float replaced by the rational its decimal repr denotes."""
    e = exprconv.to_sympy(e)
    fl = e.atoms(sympy.Float)
    if fl:
        e = e.xreplace({f: rat(f) for f in fl})
    return e


def wire(e):
    return exprconv.to_sexp(norm(e))


def wire_num(x):
    """number -> wire literal"""
    return exprconv.to_sexp(rat(x) if not isinstance(x, (int, sympy.Integer)) else sympy.Integer(x))


def stmts_wire(ss):
    out = []
    for s in ss:
        if hasattr(s, "symbol"):
            out.append(["=", str(s.symbol), wire(s.expression)])
        else:
            out.append(["ode", sorted(str(a) for a in s.amounts), sorted(str(a) for a in s.rhs_symbols)])
    return out


def from_wire(w):
    return exprconv.from_sexp(w)


def _cond_values(e):
    """constants a symbol is compared with, per symbol (to hit piecewise branches on purpose)"""
    out = {}
    for r in e.atoms(sympy.core.relational.Relational):
        l, rr = r.lhs, r.rhs
        if l.is_Symbol and rr.is_number:
            out.setdefault(l, set()).add(rr)
        elif rr.is_Symbol and l.is_number:
            out.setdefault(rr, set()).add(l)
    return out


def gen_point(rng, exprs, fixed=None, lo=1, hi=40):
    syms = set()
    funcs = set()
    cv = {}
    for e in exprs:
        syms |= e.free_symbols
        funcs |= e.atoms(AppliedUndef)
        for k, v in _cond_values(e).items():
            cv.setdefault(k, set()).update(v)
    pt = {}
    for s in sorted(syms, key=str):
        if s in cv and rng.random() < 0.75:
            c = rng.choice(sorted(cv[s], key=lambda z: float(z)))
            pt[s] = c + rng.choice([0, 0, 0, sympy.Rational(1, 2), -sympy.Rational(1, 2)])
        else:
            pt[s] = sympy.Rational(rng.randint(lo, hi), rng.randint(1, 9))
    for f in sorted(funcs, key=str):
        pt[f] = sympy.Rational(rng.randint(lo, hi), rng.randint(1, 9))
    if fixed:
        for k, v in fixed.items():
            pt[sympy.Symbol(k) if isinstance(k, str) else k] = v
    return pt


def value_at(e, pt):
    """exact value of e at the point (sympy number, or None when undefined there)"""
    try:
        v = e.xreplace(pt)
        if v.has(sympy.Piecewise):
            v = sympy.piecewise_fold(v)
        v = v.doit() if hasattr(v, "doit") else v
    except Exception:
        return None
    if v.has(sympy.nan, sympy.zoo, sympy.oo, sympy.S.NegativeInfinity) or v.has(sympy.Piecewise) or v.free_symbols:
        return None
    return v


def same_value(a, b, tol=None) -> bool:
    """Exact equality (40-digit evaluation for irrational values).  `tol` (relative) is for monitors on *full*
    expressions only: symengine folds float literals such as 1/1.3 in floating point when it substitutes them."""
    if a is None or b is None:
        return a is None and b is None
    if a == b:
        return True
    try:
        if a.is_Rational and b.is_Rational and tol is None:
            return False
        d = complex(sympy.N(a - b, 40))
        scale = max(1.0, abs(complex(sympy.N(a, 20))))
        return abs(d) < (tol or 1e-25) * scale
    except Exception:
        return False


def same_expr(a, b, rng, npoints=4, fixed=None):
    """Equality of two (normalised) sympy expressions at seeded points chosen to hit piecewise branches.
    Returns (ok, witness point or None)."""
    if a == b:
        return True, None
    for _ in range(npoints):
        pt = gen_point(rng, [a, b], fixed)
        va, vb = value_at(a, pt), value_at(b, pt)
        if not same_value(va, vb):
            return False, {str(k): str(v) for k, v in pt.items()}
    return True, None


# ------------------------------------------------------------ independent dataset statistics

def records(df, cols):
    """plain Python rows of the dataset"""
    data = {c: [float(x) for x in df[c].tolist()] for c in cols}
    n = len(df)
    return [{c: data[c][i] for c in cols} for i in range(n)]


def ref_median(rows, idcol, cov):
    """median over individuals of the per-individual median (documented centring of add_covariate_effect)"""
    per = {}
    for r in rows:
        per.setdefault(r[idcol], []).append(r[cov])
    return statistics.median([statistics.median(v) for v in per.values()])


def ref_minmax(rows, cov):
    vals = [r[cov] for r in rows]
    return min(vals), max(vals)


def ref_categories(rows, idcol, cov):
    """(sorted categories, most common = the level carried by most individuals, smallest on ties, has_nan)"""
    per = {}
    has_nan = False
    for r in rows:
        v = r[cov]
        if math.isnan(v):
            has_nan = True
            continue
        per.setdefault(v, set()).add(r[idcol])
    cats = sorted(per)
    best = max(cats, key=lambda c: (len(per[c]), -c))
    return cats, best, has_nan


def natural_key(s):
    import re
    return [int(k) if k.isdigit() else k for k in re.split(r"([0-9]+)", s)]
