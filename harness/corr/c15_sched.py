"""Deterministic scheduler for the REAL pharmpy lock module.

`/repo/src/pharmpy/internals/fs/lock.py` is executed from source once per
simulated process, with `threading.{Lock,RLock,Condition,get_ident}`,
`fcntl.lockf` and `os.open/close` replaced (through the import hook of the
exec'd namespace) by instrumented versions.  Every virtual thread is a real
Python thread that runs only while it holds the baton; it parks at every
potentially blocking primitive call (lock acquire, condition wait, lockf) and at
the body-enter / body-exit points of the test program.  The controller grants
the baton to one *enabled* parked thread at a time, so an execution is
determined by the sequence of thread choices (the schedule).

The simulated kernel implements POSIX record locks as documented in lock.py
itself: locks are per (process, file); closing ANY descriptor of the file
drops all locks the process holds on it.
"""
from __future__ import annotations

import builtins
import os as real_os
import sys
import threading
import types

LOCK_SH, LOCK_EX, LOCK_NB, LOCK_UN = 1, 2, 4, 8


class Kernel:
    def __init__(self):
        self.table = {}  # path -> {proc: 'sh'|'ex'}
        self.fds = {}  # (proc, fd) -> path
        self.next_fd = {}
        self.opened_as = {}  # (proc, fd) -> the name given to open()

    @staticmethod
    def resolve(path):
        """Name resolution of the simulated file system (no symbolic links; every directory named exists):
        the file a path designates is found by walking its components, so `d/f`, `d//f`, `d/./f` and
        `d/sub/../f` are one file.  Record locks belong to (process, FILE), whatever name it was opened by."""
        stack = []
        for c in path.split("/"):
            if c in ("", "."):
                continue
            if c == "..":
                if stack:
                    stack.pop()
                continue
            stack.append(c)
        return "/" + "/".join(stack)

    def grantable(self, proc, path, mode):
        held = self.table.get(path, {})
        for p, m in held.items():
            if p == proc:
                continue
            if mode == "ex" or m == "ex":
                return False
        return True

    def summary(self):
        return {p: dict(sorted(h.items())) for p, h in sorted(self.table.items()) if h}


class VThread:
    def __init__(self, rt, proc, tid, program):
        self.rt, self.proc, self.tid, self.program = rt, proc, tid, program
        self.baton = threading.Semaphore(0)
        self.pending = None  # (desc, enabled_fn)
        self.done = False
        self.error = None
        self.phase = None
        self.log = []  # outcomes of requests
        self.in_body = []  # stack of requests whose body the thread is in
        self.inflight = None
        self.events = []
        self.cur_path = None  # the path string of the request being entered / left (as spelled by the caller)
        self.thread = None


class Runtime:
    def __init__(self, source: str, nprocs: int):
        self.kernel = Kernel()
        self.source = source
        self.ctrl = threading.Semaphore(0)
        self.local = threading.local()
        self.threads: list[VThread] = []
        self.procs = [self._load(p) for p in range(nprocs)]
        self.trace = []

    # ------------------------------------------------------------ module loading
    def _load(self, proc: int):
        rt = self

        class VLock:
            def __init__(self):
                self.locked_by = None
                # the internal mutex of ShareableProcessLock is held across lockf calls: its
                # acquisition is always a scheduling point (so that the process-level regions are
                # separate steps); pool mutexes are not
                fr = sys._getframe(1)
                owner = fr.f_locals.get("self")
                self.is_point = type(owner).__name__ == "ShareableProcessLock"

            def acquire(self, blocking=True, timeout=-1):
                vt = rt.cur()
                # A plain mutex protects a short region; regions on different mutexes commute, so a free
                # mutex is taken without a scheduling point.  It is held across a scheduling point only
                # by a thread blocked in lockf (ShareableProcessLock): then others park here.
                if self.is_point:
                    rt.point(vt, ("acq", self, bool(blocking)), (lambda: self.locked_by is None) if blocking else (lambda: True))
                    if self.locked_by is not None:
                        assert not blocking
                        return False
                elif self.locked_by is not None:
                    if not blocking:
                        return False
                    rt.point(vt, ("acq", self, True), lambda: self.locked_by is None)
                assert self.locked_by is None
                self.locked_by = vt.tid
                return True

            def release(self):
                assert self.locked_by is not None
                self.locked_by = None

            def locked(self):
                return self.locked_by is not None

            __enter__ = lambda self: self.acquire()

            def __exit__(self, *a):
                self.release()

        class VRLock:
            def __init__(self):
                self.owner = None
                self.depth = 0

            def avail(self, tid):
                return self.owner is None or self.owner == tid

            def acquire(self, blocking=True, timeout=-1):
                vt = rt.cur()
                rt.point(vt, ("acq", self, bool(blocking)), (lambda: self.avail(vt.tid)) if blocking else (lambda: True))
                if self.avail(vt.tid):
                    self.owner = vt.tid
                    self.depth += 1
                    return True
                assert not blocking
                return False

            def release(self):
                assert self.owner == rt.cur().tid and self.depth > 0
                self.depth -= 1
                if self.depth == 0:
                    self.owner = None

            __enter__ = lambda self: self.acquire()

            def __exit__(self, *a):
                self.release()

        class VCondition:
            def __init__(self, lock=None):
                self.lock = lock if lock is not None else VRLock()
                self.waiters = []  # tids
                self.notified = set()

            def acquire(self, *a, **k):
                return self.lock.acquire(*a, **k)

            def release(self):
                return self.lock.release()

            __enter__ = lambda self: self.acquire()

            def __exit__(self, *a):
                self.release()

            def wait(self, timeout=None):
                vt = rt.cur()
                lk = self.lock
                assert lk.owner == vt.tid, "wait() without the lock"
                saved = lk.depth
                lk.owner, lk.depth = None, 0
                self.waiters.append(vt.tid)
                rt.point(vt, ("wait", self), lambda: vt.tid in self.notified and lk.owner is None)
                self.waiters.remove(vt.tid)
                self.notified.discard(vt.tid)
                lk.owner, lk.depth = vt.tid, saved
                return True

            def notify_all(self):
                assert self.lock.owner == rt.cur().tid, "notify without the lock"
                self.notified |= set(self.waiters)

            def notify(self, n=1):
                assert self.lock.owner == rt.cur().tid
                for w in self.waiters:
                    if w not in self.notified and n > 0:
                        self.notified.add(w)
                        n -= 1

        fake_threading = types.SimpleNamespace(Lock=VLock, RLock=VRLock, Condition=VCondition,
                                               get_ident=lambda: rt.cur().tid)
        kernel = self.kernel

        def lockf(fd, op, *a):
            vt = rt.cur()
            path = kernel.fds[(proc, fd)]
            if op & LOCK_UN:
                kernel.table.get(path, {}).pop(proc, None)
                return
            mode = "sh" if op & LOCK_SH else "ex"
            nb = bool(op & LOCK_NB)
            rt.point(vt, ("lockf", path, mode, not nb), (lambda: True) if nb else (lambda: kernel.grantable(proc, path, mode)))
            if kernel.grantable(proc, path, mode):
                kernel.table.setdefault(path, {})[proc] = mode
                return
            assert nb
            raise BlockingIOError(11, "Resource temporarily unavailable")

        fake_fcntl = types.SimpleNamespace(lockf=lockf, LOCK_SH=LOCK_SH, LOCK_EX=LOCK_EX, LOCK_NB=LOCK_NB, LOCK_UN=LOCK_UN)

        def vopen(path, flags, *a):
            # system calls are preemption points
            rt.point(rt.cur(), ("sys", "open", path), lambda: True)
            n = kernel.next_fd.get(proc, 3)
            kernel.next_fd[proc] = n + 1
            kernel.fds[(proc, n)] = kernel.resolve(path)
            kernel.opened_as[(proc, n)] = path
            return n

        def vclose(fd):
            rt.point(rt.cur(), ("sys", "close", fd), lambda: True)
            path = kernel.fds.pop((proc, fd))
            kernel.opened_as.pop((proc, fd), None)
            # POSIX: closing any descriptor of the file drops every lock the process holds on it
            kernel.table.get(path, {}).pop(proc, None)

        class FakeOs:
            def __getattr__(self, name):
                return getattr(real_os, name)

        fake_os = FakeOs()
        fake_os.open = vopen
        fake_os.close = vclose
        fakes = {"threading": fake_threading, "fcntl": fake_fcntl, "os": fake_os}
        real_import = builtins.__import__

        def imp(name, globals=None, locals=None, fromlist=(), level=0):
            if name in fakes and level == 0:
                return fakes[name]
            return real_import(name, globals, locals, fromlist, level)

        b = dict(vars(builtins))
        b["__import__"] = imp
        ns = {"__name__": f"pharmpy_lock_proc{proc}", "__builtins__": b}
        exec(compile(self.source, f"lock.py[proc{proc}]", "exec"), ns)
        ns["_classes"] = (VLock, VRLock, VCondition)
        # observe (without changing behaviour) when a thread-level lock context has been left
        import contextlib
        orig_tll = ns["thread_level_lock"]

        @contextlib.contextmanager
        def observed_thread_level_lock(key, shared=False, blocking=True, reentrant=False):
            entered = False
            try:
                with orig_tll(key, shared, blocking, reentrant):
                    entered = True
                    yield
            finally:
                if entered:
                    rt.cur().events.append(("tl-exit", key, shared))

        ns["thread_level_lock"] = observed_thread_level_lock

        # observe the keyed reference pools: which (pool, key) is entered / left, in program order
        pool_cls = ns["ThreadSafeKeyedRefPool"]
        orig_call = pool_cls.__call__
        names = {id(ns["_thread_level_lock_ref"]): "thread", id(ns["_process_level_lock_ref"]): "proc",
                 id(ns["_fd_ref"]): "fd"}

        @contextlib.contextmanager
        def observed_call(self, key):
            name = names.get(id(self), "?")
            entered = False
            try:
                with orig_call(self, key) as obj:
                    entered = True
                    rt.cur().events.append(("pool-enter", name, key, obj, rt.cur().cur_path))
                    yield obj
            finally:
                if entered:
                    rt.cur().events.append(("pool-exit", name, key, None, rt.cur().cur_path))

        pool_cls.__call__ = observed_call
        return ns

    # ------------------------------------------------------------ scheduling
    def cur(self) -> VThread:
        return self.local.vt

    def point(self, vt: VThread, desc, enabled):
        if self.abort:
            raise SystemExit
        ei = sys.exc_info()[0]
        vt.inflight = ei.__name__ if ei is not None else None
        vt.pending = (desc, enabled)
        self.ctrl.release()
        vt.baton.acquire()
        vt.pending = None
        if self.abort:
            raise SystemExit

    abort = False

    def spawn(self, proc, tid, program, body):
        vt = VThread(self, proc, tid, program)

        def run():
            self.local.vt = vt
            try:
                self.point(vt, ("start",), lambda: True)
                body(self, vt)
            except SystemExit:
                pass
            except BaseException as e:  # unexpected exception escaping the test program
                vt.error = e
            vt.done = True
            self.ctrl.release()

        vt.thread = threading.Thread(target=run, daemon=True)
        self.threads.append(vt)
        return vt

    def start(self):
        for vt in self.threads:
            vt.thread.start()
        for _ in self.threads:
            self.ctrl.acquire()

    def enabled(self):
        return [vt for vt in self.threads if not vt.done and vt.pending is not None and vt.pending[1]()]

    def grant(self, vt: VThread):
        vt.baton.release()
        self.ctrl.acquire()

    def finish(self):
        """Release every parked thread so that no real thread is left behind."""
        self.abort = True
        for vt in self.threads:
            if not vt.done:
                vt.baton.release()
        for vt in self.threads:
            vt.thread.join(timeout=5)
