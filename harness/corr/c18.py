"""C18 — Search spaces are parsed, combined and enumerated exactly.

K   : Lean model (PharmpyModel/C18/{Sets,Mfl,Search}.lean via drv_c18) vs the real code:
      partitions / subsets / non_empty_subsets; td_exhaustive_no_of_etas / td_exhaustive_block_structure
      task inputs; ModelFeatures.create_from_mfl_statement_list, +, -, ==, contain_subset,
      least_number_of_transformations (keys), convert_to_funcs (keys) on the PK fragment of MFL;
      all_combinations / exhaustive / exhaustive_stepwise / reduced_stepwise task graphs;
      LET / COVARIATE interpreters, covariate feature keys and _let_subs (PharmpyModel/C18/Let.lean, op letkeys).
T   : harness/translate/c18_tables.py regenerates PharmpyModel/Generated/C18Tables.lean
      (wildcard tuples, not_supported_combo, literal early exits, PK defaults) on every run.
Mon : the property statement on the real code: set-partition / powerset references computed
      independently, algebra vs explicitly expanded atom sets, parse/stringify round trip,
      documented stepwise path rules, uniqueness of candidate names.
"""
from __future__ import annotations

import itertools
import os
import random

from harness.translate import c18_tables

ID = "C18"
DRIVER = "drv_c18"
LEAN_TARGETS = ["PharmpyProofs.C18.Properties", "PharmpyProofs.C18.LetProperties", "drv_c18"]
PROPERTIES = ["PharmpyProofs/C18/Properties.lean", "PharmpyProofs/C18/LetProperties.lean"]
LEAN_SOURCES = ["PharmpyModel/C18/*.lean", "PharmpyModel/Generated/C18Tables.lean", "PharmpyProofs/C18/*.lean",
                "Drivers/C18.lean"]
TIME_LIMIT = {"quick": 900, "thorough": 3000}
CASE_CPU_LIMIT = 60
RULE = ("five case kinds from one PRNG: sets (n<=6 quick / <=8 thorough distinct eta names in random order, random "
        "min/max sizes; all n<=6 also in the corpus), iiv (minimal models with random block structure, fixed etas, "
        "keep, index offset), alg (pairs of MFL strings of the PK fragment rendered from the grammar: modes, lists, "
        "ranges, wildcards, DEPOT/NODEPOT, DRUG/MET, repeated statements, random case/blanks/separators; every "
        "operation on the pair and on chained results), search (random sub-dicts of convert_to_funcs of a generated "
        "space, <= 400 stepwise candidates), roundtrip (strings over the full grammar incl. COVARIATE/LET/@ref/"
        "ALLOMETRY/PD/METABOLITE), let (1-3 LET definitions whose variable names are drawn from the grammar's VARIABLE_NAME in "
        "upper/lower/capitalised/mixed spelling, used through @references on the parameter and/or covariate side of 1-3 "
        "COVARIATE statements, values in random case, definitions before or after their use, optional PK statement; "
        "compared with the explicit reference-free description). non-trivial = at least two statements or n>=2; distinct = distinct case JSON")
TRUSTED = [
    "Lean 4.33 kernel; axioms propext, Quot.sound, Classical.choice only (audited per theorem each run)",
    "hand-written models PharmpyModel/C18/{Sets,Mfl,Search,Let}.lean tied to the code by the correspondence run of this invocation",
    "harness/translate/c18_tables.py (Python ast -> Lean tables; refuses unknown shapes)",
    "lark (tokenising/LALR parsing of the MFL grammar), dataclasses, itertools.combinations/product, networkx node order",
    "CPython: tuple(set(small ints below 8)) iterates in ascending order; dict preserves insertion order",
    "harness/corr/c18.py (generators, canonicalisation, reference enumerations, atom expansion)",
]
ASSUMPTIONS = [
    "orders produced by tuple(set(<Name objects>)) are hash-randomised and not part of the contract: compared as sorted lists",
    "counts in generated MFL strings are below 8 so that tuple(set(ints)) is ascending",
    "the MFL algebra is modelled on the PK fragment (absorption, elimination, transits, peripherals, lagtime); the covariate "
    "algebra (+, -, ==), PD and metabolite statements are covered by the round-trip monitor only; LET/@reference resolution and "
    "the covariate expansion are modelled on the parse tree (lark itself trusted) with the empty Model() as environment",
    "least_number_of_transformations: only the keys are observed (the functions are the modeling setters, outside)",
]


def budget(tier):
    return int(os.environ.get("VERIF_BUDGET", 0)) or {"quick": 1600, "thorough": 12000}[tier]


def translators():
    return [("T4-c18-tables", c18_tables.regenerate)]


# ---------------------------------------------------------------------------------------------
# generation
# ---------------------------------------------------------------------------------------------

ABS = ["FO", "ZO", "SEQ-ZO-FO", "INST"]
ELIM = ["FO", "ZO", "MM", "MIX-FO-MM"]
LAG = ["ON", "OFF"]
DEPOT = ["DEPOT", "NODEPOT"]
PMODE = ["DRUG", "MET"]
ETA_POOL = ["ETA_CL", "ETA_V", "ETA_MAT", "ETA_1", "ETA_2", "ETA_10", "ETA_Q", "ETA_KA", "IIV_A", "eta_b"]


def _case(rng, word):
    r = rng.random()
    return word if r < 0.6 else word.lower() if r < 0.85 else word.capitalize()


def _sp(rng):
    return " " if rng.random() < 0.15 else ""


def _modes(rng, pool, wild_p):
    r = rng.random()
    if r < wild_p:
        return "*"
    if r < wild_p + 0.45:
        return _case(rng, rng.choice(pool))
    k = rng.choice([1, 1, 2, 2, 3, 4, 0 if rng.random() < 0.15 else 2]) if rng.random() < 0.9 else 5
    xs = [rng.choice(pool) for _ in range(k)] if rng.random() < 0.3 else rng.sample(pool, min(k, len(pool)))
    return "[" + ("," + _sp(rng)).join(_case(rng, x) for x in xs) + "]"


def _counts(rng):
    r = rng.random()
    if r < 0.4:
        return str(rng.randint(0, 5))
    if r < 0.7:
        a = rng.randint(0, 4)
        b = a + rng.choice([0, 1, 1, 2, 3]) if rng.random() < 0.98 else max(0, a - 1)
        return f"{a}..{min(b, 7)}"
    k = rng.choice([1, 1, 2, 2, 3, 3, 4, 0 if rng.random() < 0.15 else 2]) if rng.random() < 0.95 else 5
    xs = [rng.randint(0, 7) for _ in range(k)]
    return "[" + ",".join(map(str, xs)) + "]"


def gen_pk_spec(rng, wild_p):
    """one PK statement as data: (kind, counts-or-None, modes) with modes '*' or a list"""
    def modes(pool, wp):
        r = rng.random()
        if r < wp:
            return "*"
        if r < wp + 0.45:
            return [rng.choice(pool)]
        k = rng.choice([1, 1, 2, 2, 3, 4, 0 if rng.random() < 0.15 else 2]) if rng.random() < 0.9 else 5
        return [rng.choice(pool) for _ in range(k)] if rng.random() < 0.3 else rng.sample(pool, min(k, len(pool)))

    def counts():
        r = rng.random()
        if r < 0.4:
            return [rng.randint(0, 5)]
        if r < 0.7:
            a = rng.randint(0, 4)
            b = a + rng.choice([0, 1, 1, 2, 3]) if rng.random() < 0.98 else max(0, a - 1)
            return list(range(a, min(b, 7) + 1))
        k = rng.choice([1, 1, 2, 2, 3, 3, 4, 0 if rng.random() < 0.15 else 2]) if rng.random() < 0.95 else 5
        return [rng.randint(0, 7) for _ in range(k)]

    k = rng.random()
    if k < 0.2:
        return ["ABSORPTION", None, modes(ABS, wild_p)]
    if k < 0.4:
        return ["ELIMINATION", None, modes(ELIM, wild_p)]
    if k < 0.55:
        return ["LAGTIME", None, modes(LAG, wild_p)]
    if k < 0.8:
        return ["TRANSITS", counts(), modes(DEPOT, 0.25) if rng.random() < 0.6 else None]
    return ["PERIPHERALS", counts(), modes(PMODE, wild_p) if rng.random() < 0.5 else None]


def render_modes(rng, m):
    if m == "*":
        return "*"
    if len(m) == 1 and rng.random() < 0.7:
        return _case(rng, m[0])
    return "[" + ("," + _sp(rng)).join(_case(rng, x) for x in m) + "]"


def render_counts(rng, c):
    if len(c) == 1 and rng.random() < 0.7:
        return str(c[0])
    if len(c) >= 1 and c == list(range(c[0], c[-1] + 1)) and rng.random() < 0.7:
        return f"{c[0]}..{c[-1]}"
    return "[" + ",".join(map(str, c)) + "]"


def render_pk(rng, specs):
    out = ""
    for i, (kind, cnt, m) in enumerate(specs):
        if kind in ("TRANSITS", "PERIPHERALS"):
            arg = render_counts(rng, cnt) + ("," + _sp(rng) + render_modes(rng, m) if m is not None else "")
        else:
            arg = _sp(rng) + render_modes(rng, m) + _sp(rng)
        st = f"{_case(rng, kind)}({arg})"
        out += ((";" if rng.random() < 0.8 else "\n") + _sp(rng) if i else "") + st
    return out


def gen_pk_specs(rng, wild_p=0.08, nmax=5):
    n = rng.choice([1, 1, 2, 2, 3, 3, 4, nmax])
    return [gen_pk_spec(rng, wild_p) for _ in range(n)]


def gen_pk_string(rng, wild_p=0.08, nmax=5):
    return render_pk(rng, gen_pk_specs(rng, wild_p, nmax))


def gen_pk_statement(rng, wild_p):
    return render_pk(rng, [gen_pk_spec(rng, wild_p)])


def derive_specs(rng, specs):
    """a second description related to the first: the same space written differently, a sub-space or a super-space"""
    how = rng.choice(["same", "same", "sub", "sub", "super"])
    out = []
    for kind, cnt, m in specs:
        cnt2, m2 = (list(cnt) if cnt is not None else None), (list(m) if isinstance(m, list) else m)
        if how == "sub":
            if cnt2 and len(cnt2) > 1 and rng.random() < 0.5:
                cnt2 = rng.sample(cnt2, rng.randint(1, len(cnt2) - 1))
            if isinstance(m2, list) and len(m2) > 1 and rng.random() < 0.5:
                m2 = rng.sample(m2, rng.randint(1, len(m2) - 1))
        elif how == "super":
            if cnt2 is not None and rng.random() < 0.5:
                cnt2 = cnt2 + [rng.randint(0, 7)]
            if isinstance(m2, list) and rng.random() < 0.5:
                pool = {"ABSORPTION": ABS, "ELIMINATION": ELIM, "LAGTIME": LAG, "TRANSITS": DEPOT, "PERIPHERALS": PMODE}[kind]
                m2 = m2 + [rng.choice(pool)]
        else:
            if cnt2:
                rng.shuffle(cnt2)
            if isinstance(m2, list):
                rng.shuffle(m2)
        if cnt2 and len(cnt2) > 1 and rng.random() < 0.35:  # split one counted statement into two
            cut = rng.randint(1, len(cnt2) - 1)
            out.append([kind, cnt2[:cut], m2])
            out.append([kind, cnt2[cut:], m2])
        else:
            out.append([kind, cnt2, m2])
    if how == "sub" and len(out) > 1 and rng.random() < 0.4:
        out.pop(rng.randrange(len(out)))
    if rng.random() < 0.5:
        rng.shuffle(out)
    return out


def gen_full_statement(rng):
    k = rng.random()
    if k < 0.45:
        return gen_pk_statement(rng, 0.15)
    vals = ["CL", "V", "MAT", "WT", "AGE", "SEX", "CLCR", "Q-1", "V2"]

    def vlist():
        r = rng.random()
        if r < 0.5:
            return rng.choice(vals)
        return "[" + ",".join(rng.sample(vals, rng.choice([0, 1, 2, 3]))) + "]"

    if k < 0.65:
        p = "@" + rng.choice(["IIV", "PK", "x", "ABSORPTION"]) if rng.random() < 0.2 else ("*" if rng.random() < 0.08 else vlist())
        c = "@" + rng.choice(["CONTINUOUS", "CATEGORICAL", "y"]) if rng.random() < 0.2 else ("*" if rng.random() < 0.08 else vlist())
        fp = "*" if rng.random() < 0.2 else _modes(rng, ["LIN", "CAT", "CAT2", "PIECE_LIN", "EXP", "POW", "CUSTOM"], 0.0)
        op = rng.choice(["", "", ",*", ",+"])
        opt = "?" if rng.random() < 0.5 else ""
        return f"COVARIATE{opt}({p},{c},{fp}{op})"
    if k < 0.72:
        return f"LET({rng.choice(['x', 'y', 'my_var'])},{vlist()})"
    if k < 0.78:
        ref = rng.choice(["", ",70", ",70.5", ",1"])
        return f"ALLOMETRY({rng.choice(['WT', 'LBM'])}{ref})"
    if k < 0.84:
        return f"DIRECTEFFECT({_modes(rng, ['LINEAR', 'EMAX', 'SIGMOID'], 0.15)})"
    if k < 0.89:
        return f"EFFECTCOMP({_modes(rng, ['LINEAR', 'EMAX', 'SIGMOID'], 0.15)})"
    if k < 0.95:
        prod = "*" if rng.random() < 0.2 else _case(rng, rng.choice(["PRODUCTION", "DEGRADATION"]))
        return f"INDIRECTEFFECT({_modes(rng, ['LINEAR', 'EMAX', 'SIGMOID'], 0.15)},{prod})"
    return f"METABOLITE({_modes(rng, ['BASIC', 'PSC'], 0.15)})"


# ---- LET definitions and @references ----------------------------------------------------------

BUILTIN_REFS = {"ABSORPTION", "ELIMINATION", "DISTRIBUTION", "CATEGORICAL", "CONTINUOUS", "IIV", "PD", "PD_IIV", "PK",
                "BIOAVAIL", "PK_IIV"}
PARAM_POOL = ["CL", "VC", "V", "MAT", "Q", "KA", "V2", "Q-1", "MTT"]
COV_POOL = ["WT", "AGE", "SEX", "CLCR", "BMI", "HT", "RACE"]
FP_POOL = ["LIN", "CAT", "CAT2", "PIECE_LIN", "EXP", "POW", "CUSTOM"]
VAR_WORDS = ["cont", "cat", "covs", "pk", "params", "my_covs", "x", "y", "grp", "iiv_p", "a_b", "set_", "continuous_covs", "_p"]


def gen_var_name(rng):
    """a VARIABLE_NAME of the grammar (/[a-zA-Z_]+/) in any spelling: the language does not restrict the case"""
    if rng.random() < 0.4:
        w = "".join(rng.choice("abcdeklmnopvwxyz_") for _ in range(rng.randint(1, 7)))
    else:
        w = rng.choice(VAR_WORDS)
    style = rng.choice(["upper", "upper", "lower", "lower", "cap", "mixed"])
    if style == "upper":
        return w.upper()
    if style == "lower":
        return w.lower()
    if style == "cap":
        return w.capitalize()
    return "".join(c.upper() if rng.random() < 0.5 else c.lower() for c in w)


def gen_let_case(rng, seed):
    tok = lambda w: _case(rng, w)
    n_let = rng.choice([1, 1, 2, 2, 3])
    lets, used = [], set()
    while len(lets) < n_let:
        nm = gen_var_name(rng)
        if nm.upper() in used or nm.upper() in BUILTIN_REFS:
            continue
        used.add(nm.upper())
        role = "p" if (len(lets) % 2 == 1 or rng.random() < 0.3) else "c"
        pool = PARAM_POOL if role == "p" else COV_POOL
        lets.append((role, nm, [tok(v) for v in rng.sample(pool, rng.choice([1, 2, 2, 3]))]))
    covs, have_mandatory, have_ref = [], False, False
    for i in range(rng.choice([1, 1, 2, 3])):
        def side(role, pool):
            nonlocal have_ref
            cands = [l for l in lets if l[0] == role]
            if cands and rng.random() < 0.65:
                have_ref = True
                return ["ref", rng.choice(cands)[1]]
            return ["vals", [tok(v) for v in rng.sample(pool, rng.choice([1, 1, 2, 3]))]]
        P, C = side("p", PARAM_POOL), side("c", COV_POOL)
        optional = have_mandatory or rng.random() < 0.4
        have_mandatory = have_mandatory or not optional
        fp = "wild" if (optional and rng.random() < 0.2) else ["fps", [tok(v) for v in rng.sample(FP_POOL, rng.choice([1, 1, 2, 3]))]]
        covs.append(["cov", P, C, fp, rng.choice([None, None, "*", "+"]), optional])
    if not have_ref:  # every case uses at least one LET through a reference
        role, nm, _ = lets[0]
        covs[0][1 if role == "p" else 2] = ["ref", nm]
    stmts = [["let", nm, vals] for _, nm, vals in lets] + covs
    if rng.random() < 0.25:  # a definition may follow its use (the definitions are collected first)
        rng.shuffle(stmts)
    if rng.random() < 0.3:
        stmts.insert(rng.randrange(len(stmts) + 1), ["raw", gen_pk_statement(rng, 0.0)])
    return {"kind": "let", "stmts": stmts, "seed": seed}


def render_let(stmts, explicit=False):
    """the MFL string of a `let` case; explicit=True: the reference-free description (LET values written out)"""
    defs = {}
    for st in stmts:
        if st[0] == "let":
            defs[st[1]] = st[2]  # the last definition of a name wins

    def vals(v):
        return v[0] if len(v) == 1 else "[" + ",".join(v) + "]"

    def sym(x):
        if x == "wild":
            return "*"
        if x[0] == "ref":
            return vals(defs[x[1]]) if explicit and x[1] in defs else "@" + x[1]
        return vals(x[1])

    out = []
    for st in stmts:
        if st[0] == "raw":
            out.append(st[1])
        elif st[0] == "let":
            if not explicit:
                out.append(f"LET({st[1]},{vals(st[2])})")
        else:
            _, P, C, fp, op, opt = st
            out.append(f"COVARIATE{'?' if opt else ''}({sym(P)},{sym(C)},{'*' if fp == 'wild' else vals(fp[1])}{',' + op if op else ''})")
    return ";".join(out)


def gen_cases(rng: random.Random, n: int, tier: str):
    out = []
    nmax = 6 if tier == "quick" else 8
    for _ in range(n):
        r = rng.random()
        seed = rng.randrange(1 << 30)
        if r < 0.12:
            k = rng.randint(0, nmax)
            names = rng.sample(ETA_POOL, k)
            out.append({"kind": "sets", "names": names, "min": rng.randint(-1, 4), "max": rng.randint(-4, 5), "seed": seed})
        elif r < 0.22:
            k = rng.randint(1, 5 if tier == "quick" else 6)
            names = rng.sample(ETA_POOL[:8], k)
            # random block structure of the base model
            blocks, cur = [], []
            for nm in names:
                cur.append(nm)
                if rng.random() < 0.6:
                    blocks.append(cur)
                    cur = []
            if cur:
                blocks.append(cur)
            fixed = [b[0] for b in blocks if len(b) == 1 and rng.random() < 0.15]
            keep = [f"P{nm}" for nm in names if rng.random() < 0.15]
            out.append({"kind": "iiv", "blocks": blocks, "fixed": fixed, "keep": keep, "offset": rng.choice([0, 0, 3, 17]),
                        "seed": seed})
        elif r < 0.70:
            wp = rng.choice([0.0, 0.0, 0.0, 0.05, 0.2])
            sa = gen_pk_specs(rng, wp)
            related = rng.random() < 0.4
            sb = derive_specs(rng, sa) if related else gen_pk_specs(rng, wp)
            if related and rng.random() < 0.5:
                sa, sb = sb, sa
            out.append({"kind": "alg", "a": render_pk(rng, sa), "b": render_pk(rng, sb), "seed": seed})
        elif r < 0.88:
            s = gen_pk_string(rng, 0.05, nmax=4)
            c = {"kind": "search", "mfl": s, "pick": [rng.random() for _ in range(40)],
                 "size": rng.choice([2, 3, 3, 4, 4, 5, 5, 6]), "seed": seed,
                 # the function table is a dict: any key order is a legal input (merged / updated / filtered tables)
                 "order": rng.choice(["asis", "asis", "shuffle", "shuffle", "reverse", "interleave"]),
                 "perm": [rng.random() for _ in range(40)]}
            if rng.random() < 0.4:
                c["mfl2"] = gen_pk_string(rng, 0.05, nmax=3)  # table = {**funcs(space 1), **funcs(space 2)}
            out.append(c)
        elif r < 0.94:
            out.append(gen_let_case(rng, seed))
        else:
            n_st = rng.choice([1, 1, 2, 3, 4])
            s = ";".join(gen_full_statement(rng) for _ in range(n_st))
            out.append({"kind": "roundtrip", "mfl": s, "seed": seed})
    return out


def corpus_cases():
    cs = []
    for n in range(0, 7):
        cs.append({"kind": "sets", "names": [f"E{i}" for i in range(n)], "min": 0, "max": -1, "seed": n})
    cs.append({"kind": "sets", "names": ["ETA_2", "ETA_10", "ETA_1"], "min": 1, "max": -2, "seed": 7})
    cs.append({"kind": "sets", "names": ["A", "B"], "min": -1, "max": 1, "seed": 8})
    # F14: contain_subset falls off its last branch for tool != modelsearch
    cs.append({"kind": "alg", "a": "ABSORPTION([FO,ZO]);PERIPHERALS(0..1)", "b": "ABSORPTION(FO)", "seed": 9})
    # transits compared as counts x depots instead of per (count, depot)
    cs.append({"kind": "alg", "a": "TRANSITS(1,DEPOT);TRANSITS(2,NODEPOT)", "b": "TRANSITS(2,DEPOT)", "seed": 10})
    # wildcard operands crash ==, -
    cs.append({"kind": "alg", "a": "ABSORPTION(*)", "b": "ABSORPTION(FO)", "seed": 11})
    # == depends on how peripherals are split into statements
    cs.append({"kind": "alg", "a": "PERIPHERALS(0..1)", "b": "PERIPHERALS(0);PERIPHERALS(1)", "seed": 12})
    # lnt for modelsearch returns a metabolite transformation
    cs.append({"kind": "alg", "a": "ABSORPTION(FO)", "b": "ABSORPTION(ZO);PERIPHERALS(1,MET)", "seed": 13})
    cs.append({"kind": "alg", "a": "ABSORPTION(FO);TRANSITS([0,1,3],*)", "b": "TRANSITS(1,NODEPOT);TRANSITS(4)", "seed": 14})
    # stepwise: peripherals not in consecutive increasing order with three counts
    cs.append({"kind": "search", "mfl": "PERIPHERALS(1..3)", "pick": [0.9, 0.9, 0.9, 0.0, 0.0, 0.0, 0.9], "size": 3,
               "only": ["PERIPHERALS"], "seed": 15})
    cs.append({"kind": "search", "mfl": "ABSORPTION([ZO,SEQ-ZO-FO]);ELIMINATION(MM);PERIPHERALS(1)", "pick": [], "size": 9,
               "only": ["ABSORPTION(ZO)", "ELIMINATION(MM)", "PERIPHERALS(1)"], "seed": 16})
    cs.append({"kind": "search", "mfl": "ABSORPTION([FO,ZO]);TRANSITS([0,1],*);LAGTIME(ON)", "pick": [], "size": 9,
               "only": ["ABSORPTION(FO)", "ABSORPTION(ZO)", "TRANSITS(0, NODEPOT)", "TRANSITS(1, NODEPOT)", "TRANSITS(1, DEPOT)",
                        "LAGTIME(ON)"], "seed": 17})
    cs.append({"kind": "search", "mfl": "ABSORPTION(FO);PERIPHERALS(1)", "mfl2": "ABSORPTION(ZO);ELIMINATION(MM);PERIPHERALS(2)",
               "pick": [], "size": 9, "order": "asis", "perm": [],
               "only": ["ABSORPTION(FO)", "PERIPHERALS(1)", "ABSORPTION(ZO)", "ELIMINATION(MM)", "PERIPHERALS(2)"], "seed": 26})
    cs.append({"kind": "search", "mfl": "ABSORPTION([FO,ZO]);ELIMINATION([MM,ZO]);LAGTIME(ON)", "pick": [], "size": 9,
               "order": "interleave", "perm": [], "only": ["ABSORPTION", "ELIMINATION", "LAGTIME(ON)"], "seed": 27})
    cs.append({"kind": "roundtrip", "mfl": "ALLOMETRY(WT)", "seed": 18})
    cs.append({"kind": "roundtrip", "mfl": "ALLOMETRY(WT,70)", "seed": 19})
    cs.append({"kind": "roundtrip", "mfl": "ALLOMETRY(WT,70.5);ALLOMETRY(LBM,1)", "seed": 24})
    # statement-level `x - *` (fixed f9eda08: 1-tuple of the class default)
    cs.append({"kind": "alg", "a": "ELIMINATION(MM);ABSORPTION([FO,ZO]);LAGTIME(ON)", "b": "ELIMINATION(*);ABSORPTION(*);LAGTIME(*)", "seed": 25})
    cs.append({"kind": "roundtrip", "mfl": "COVARIATE(*,*,EXP)", "seed": 20})
    cs.append({"kind": "roundtrip", "mfl": "LET(x,[CL,V]);COVARIATE?(@x,WT,[EXP,LIN],+);TRANSITS([1,2,3],*)", "seed": 21})
    # LET names in any spelling of the grammar's VARIABLE_NAME, used through @references on either side
    cs.append({"kind": "let", "seed": 28, "stmts": [["let", "cont", ["WT", "AGE"]],
                                                    ["cov", ["vals", ["CL", "VC"]], ["ref", "cont"], ["fps", ["EXP", "LIN"]], None, False]]})
    cs.append({"kind": "let", "seed": 29, "stmts": [["let", "My_Params", ["cl", "Vc"]], ["let", "COVS", ["wt"]],
                                                    ["cov", ["ref", "My_Params"], ["ref", "COVS"], "wild", "+", True],
                                                    ["raw", "ABSORPTION(FO)"],
                                                    ["cov", ["ref", "My_Params"], ["vals", ["SEX"]], ["fps", ["cat"]], "*", False]]})
    cs.append({"kind": "iiv", "blocks": [["ETA_1"], ["ETA_2", "ETA_10"], ["ETA_CL"]], "fixed": [], "keep": [], "offset": 0, "seed": 22})
    cs.append({"kind": "iiv", "blocks": [["ETA_1"], ["ETA_2", "ETA_10"], ["ETA_CL"]], "fixed": ["ETA_CL"], "keep": ["PETA_1"],
               "offset": 3, "seed": 23})
    return cs


def shrink(case):
    k = case["kind"]
    if k == "sets":
        nm = case["names"]
        for i in range(len(nm)):
            c = dict(case)
            c["names"] = nm[:i] + nm[i + 1:]
            yield c
    elif k in ("alg", "search", "roundtrip"):
        for fld in ("a", "b", "mfl"):
            if fld not in case:
                continue
            parts = [p for p in case[fld].replace("\n", ";").split(";")]
            if len(parts) > 1:
                for i in range(len(parts)):
                    c = dict(case)
                    c[fld] = ";".join(parts[:i] + parts[i + 1:])
                    yield c
        if k == "search" and case.get("size", 0) > 2:
            c = dict(case)
            c["size"] = case["size"] - 1
            yield c
    elif k == "let":
        sts = case["stmts"]
        for i in range(len(sts)):
            rest = sts[:i] + sts[i + 1:]
            names = {st[1] for st in rest if st[0] == "let"}
            refs = {x[1] for st in rest if st[0] == "cov" for x in st[1:3] if x != "wild" and x[0] == "ref"}
            if refs <= names and any(st[0] == "cov" for st in rest):
                c = dict(case)
                c["stmts"] = rest
                yield c
    elif k == "iiv":
        bl = case["blocks"]
        if len(bl) > 1:
            for i in range(len(bl)):
                c = dict(case)
                c["blocks"] = bl[:i] + bl[i + 1:]
                names = [e for b in c["blocks"] for e in b]
                c["fixed"] = [f for f in case["fixed"] if f in names]
                yield c


# ---------------------------------------------------------------------------------------------
# real-code side
# ---------------------------------------------------------------------------------------------

def worker_init():
    global mfl_parse, ModelFeatures, stringify, partitions, subsets, non_empty_subsets, non_empty_proper_subsets
    global ms_alg, iiv_alg, all_combinations, st_mod, Wildcard, Name, Option, Ref, Let
    import warnings
    warnings.filterwarnings("ignore")
    from pharmpy.internals.set.partitions import partitions  # noqa
    from pharmpy.internals.set.subsets import non_empty_proper_subsets, non_empty_subsets, subsets  # noqa
    from pharmpy.tools.mfl.parse import ModelFeatures  # noqa
    from pharmpy.tools.mfl.parse import parse as mfl_parse  # noqa
    from pharmpy.tools.mfl.stringify import stringify  # noqa
    from pharmpy.tools.mfl.helpers import all_combinations  # noqa
    from pharmpy.tools.mfl.statement.feature.symbols import Name, Option, Wildcard  # noqa
    from pharmpy.tools.mfl.statement.feature.covariate import Ref  # noqa
    from pharmpy.tools.mfl.statement.definition import Let  # noqa
    import pharmpy.tools.modelsearch.algorithms as ms_alg  # noqa
    import pharmpy.tools.iivsearch.algorithms as iiv_alg  # noqa
    from pharmpy.tools.mfl.statement.feature import absorption, elimination, lagtime, peripherals, transits
    st_mod = {"abs": absorption.Absorption, "elim": elimination.Elimination, "lag": lagtime.LagTime,
              "trans": transits.Transits, "peri": peripherals.Peripherals}


def exc_name(e):
    return type(e).__name__


def attempt(f):
    """(value, None) or (None, exception class name)."""
    try:
        return f(), None
    except Exception as e:  # the real code's exception is data here
        return None, exc_name(e)


# ---- sets -------------------------------------------------------------------------------------

def bell(n):
    row = [1]
    for _ in range(n):
        nxt = [row[-1]]
        for x in row:
            nxt.append(nxt[-1] + x)
        row = nxt
    return row[0]


def ref_set_partitions(elems):
    """All set partitions as frozensets of frozensets, by restricted growth strings (independent of pharmpy)."""
    n = len(elems)
    out = set()

    def rec(i, assign, k):
        if i == n:
            blocks = [set() for _ in range(k)]
            for e, a in zip(elems, assign):
                blocks[a].add(e)
            out.add(frozenset(frozenset(b) for b in blocks))
            return
        for a in range(k + 1):
            rec(i + 1, assign + [a], max(k, a + 1))

    rec(0, [], 0)
    return out


def run_sets(case, drv):
    names = case["names"]
    n = len(names)
    rank = {nm: i for i, nm in enumerate(sorted(names))}
    inv = {i: nm for nm, i in rank.items()}
    ranks = [rank[nm] for nm in names]
    k, mon, tags = [], [], [f"sets-n={n}"]
    back = lambda xss: [[inv[int(x)] for x in xs] for xs in xss]

    parts = [[list(b) for b in p] for p in partitions(names)]
    # -- monitors: every set partition exactly once, documented order
    as_sets = [frozenset(frozenset(b) for b in p) for p in parts]
    ref = ref_set_partitions(names)
    if any(len(b) == 0 for p in parts for b in p) or any(sorted(e for b in p for e in b) != sorted(names) for p in parts):
        mon.append({"cls": "partitions-not-a-partition", "what": f"partitions({names}) yields a non-partition"})
    if len(set(as_sets)) != len(as_sets):
        mon.append({"cls": "partitions-duplicate", "what": f"partitions({names}) yields a set partition twice"})
    if set(as_sets) != ref:
        mon.append({"cls": "partitions-incomplete", "what": f"partitions({names}) != all set partitions ({len(set(as_sets))} vs {len(ref)})"})
    if len(parts) != bell(n):
        mon.append({"cls": "partitions-count", "what": f"|partitions| = {len(parts)} != Bell({n}) = {bell(n)}"})
    key = lambda p: (len(p), tuple(len(b) for b in p), tuple(tuple(b) for b in p))
    if any(key(parts[i]) > key(parts[i + 1]) for i in range(len(parts) - 1)) or \
            any(sorted(p, key=lambda b: (len(b), b)) != p for p in parts):
        mon.append({"cls": "partitions-order", "what": f"partitions({names}) not in the documented order"})

    lo, hi = case["min"], case["max"]
    calls = [("subsets", lambda: [list(s) for s in subsets(names, lo, hi)], ["subsets", ranks, lo, hi]),
             ("nonempty", lambda: [list(s) for s in non_empty_subsets(names)], ["nonempty", ranks]),
             ("nonemptyproper", lambda: [list(s) for s in non_empty_proper_subsets(names)], ["nonemptyproper", ranks])]
    real = {}
    for nm, f, req in calls:
        v, e = attempt(f)
        real[nm] = (v, e)
        if drv is not None:
            ans = drv.ask(req)
            exp = ["err", e] if e else [[str(rank[x]) for x in s] for s in v]
            if ans != exp:
                k.append(f"{nm}{req[2:]} on {names}: model {ans} code {exp}")
    if drv is not None:
        ans = drv.ask(["partitions", ranks])
        if back_parts(ans, inv) != parts:
            k.append(f"partitions({names}): model {back_parts(ans, inv)} code {parts}")

    # -- monitors for subsets: all sub-tuples (in position order) of the allowed sizes, each once
    def ref_subsets(a, b):
        out = []
        for mask in range(1 << n):
            s = [names[i] for i in range(n) if mask >> i & 1]
            if a <= len(s) <= b:
                out.append(tuple(s))
        return out

    v, e = real["subsets"]
    mx = n + hi + 1 if hi < 0 else hi
    if e is None:
        r = ref_subsets(lo, mx)
        if sorted(map(tuple, v)) != sorted(r):
            mon.append({"cls": "subsets-not-powerset-slice", "what": f"subsets({names},{lo},{hi}) = {v}"})
        tags.append("subsets-ok")
    else:
        # only a negative size that is actually requested is a documented-by-itertools refusal
        if not (e == "ValueError" and lo < 0 and lo <= mx):
            mon.append({"cls": "subsets-raises", "what": f"subsets({names},{lo},{hi}) raises {e}"})
        tags.append("subsets-refused")
    v, e = real["nonempty"]
    if e is not None or sorted(map(tuple, v)) != sorted(ref_subsets(1, n)) or len(v) != 2 ** n - 1:
        mon.append({"cls": "non-empty-subsets", "what": f"non_empty_subsets({names}) = {v} {e}"})
    v, e = real["nonemptyproper"]
    if e is not None or sorted(map(tuple, v)) != sorted(ref_subsets(1, n - 1)):
        mon.append({"cls": "non-empty-proper-subsets", "what": f"non_empty_proper_subsets({names}) = {v} {e}"})
    return {"k": k, "mon": mon, "tags": tags, "nontrivial": n >= 2}


def back_parts(ans, inv):
    return [[[inv[int(x)] for x in b] for b in p] for p in ans]


# ---- iivsearch --------------------------------------------------------------------------------

def mk_model(blocks, fixed):
    from pharmpy.basic import Expr
    from pharmpy.model import (Assignment, JointNormalDistribution, Model, NormalDistribution, Parameter, Parameters,
                               RandomVariables, Statements)
    params, dists, sts = [], [], []
    for b in blocks:
        if len(b) == 1:
            p = f"OM_{b[0]}"
            params.append(Parameter.create(p, 0.1, fix=b[0] in fixed))
            dists.append(NormalDistribution.create(b[0], "iiv", 0, Expr.symbol(p)))
        else:
            m = len(b)
            rows = []
            for i in range(m):
                row = []
                for j in range(m):
                    a, c = max(i, j), min(i, j)
                    nm = f"OM_{b[a]}_{b[c]}" if a != c else f"OM_{b[a]}"
                    row.append(Expr.symbol(nm))
                    if j <= i:
                        params.append(Parameter.create(nm, 0.1 if i == j else 0.01))
                rows.append(row)
            dists.append(JointNormalDistribution.create(b, "iiv", [0] * m, rows))
    for b in blocks:
        for e in b:
            params.append(Parameter.create(f"TV{e}", 1.0))
            sts.append(Assignment.create(f"P{e}", Expr.symbol(f"TV{e}") * Expr.symbol(e).exp()))
    return Model.create(name="base", parameters=Parameters.create(params), random_variables=RandomVariables.create(dists),
                        statements=Statements(sts))


def run_iiv(case, drv):
    blocks, fixed, keep, off = case["blocks"], case["fixed"], case["keep"], case["offset"]
    names = [e for b in blocks for e in b]
    model = mk_model(blocks, fixed)
    pm = {e: f"P{e}" for e in names}
    k, mon, tags = [], [], [f"iiv-n={len(names)}", f"iiv-blocks={len(blocks)}"]
    free = [e for e in names if e not in fixed]
    rank = {nm: i for i, nm in enumerate(sorted(free))}
    inv = {i: nm for nm, i in rank.items()}

    # --- block structures
    wf = iiv_alg.td_exhaustive_block_structure(model, index_offset=off, param_mapping=pm)
    cands = [(t.task_input[0], [list(b) for b in t.task_input[1]]) for t in wf.tasks if t.name == "candidate_entry"]
    cur = [[e for e in b if e not in fixed] for b in blocks]
    cur = [b for b in cur if b]
    nm_list = [c[0] for c in cands]
    if len(set(nm_list)) != len(nm_list) or nm_list != [f"iivsearch_run{off + 1 + i}" for i in range(len(cands))]:
        mon.append({"cls": "iiv-block-candidate-names", "what": f"names {nm_list}"})
    got = [frozenset(frozenset(b) for b in c[1]) for c in cands]
    want = ref_set_partitions(free) - {frozenset(frozenset(b) for b in cur)}
    if len(set(got)) != len(got) or set(got) != want:
        mon.append({"cls": "iiv-block-structures-not-all-but-current",
                    "what": f"blocks={blocks} fixed={fixed}: {len(got)} candidates, {len(set(got) ^ want)} differ from the set partitions minus the current one"})
    if drv is not None:
        ans = drv.ask(["blockcands", [rank[e] for e in free], [[rank[e] for e in b] for b in cur]])
        model_c = back_parts(ans, inv)
        if model_c != [c[1] for c in cands]:
            k.append(f"block structures {blocks} fixed {fixed}: model {model_c} code {[c[1] for c in cands]}")

    # --- number of etas
    wf = iiv_alg.td_exhaustive_no_of_etas(model, index_offset=off, keep=keep or None, param_mapping=pm)
    cands = [(t.task_input[0], list(t.task_input[1])) for t in wf.tasks if t.name == "candidate_entry"]
    elig = [e for e in names if e not in keep and pm[e] not in keep and e not in fixed]
    nm_list = [c[0] for c in cands]
    if len(set(nm_list)) != len(nm_list) or nm_list != [f"iivsearch_run{off + 1 + i}" for i in range(len(cands))]:
        mon.append({"cls": "iiv-etas-candidate-names", "what": f"names {nm_list}"})
    got = [frozenset(c[1]) for c in cands]
    want = {frozenset(s) for r in range(1, len(elig) + 1) for s in itertools.combinations(elig, r)}
    if len(set(got)) != len(got) or set(got) != want or len(got) != 2 ** len(elig) - 1:
        mon.append({"cls": "iiv-etas-not-all-nonempty-subsets", "what": f"eligible {elig}: {len(got)} candidates"})
    if drv is not None:
        r2 = {nm: i for i, nm in enumerate(sorted(elig))}
        i2 = {i: nm for nm, i in r2.items()}
        ans = drv.ask(["nonempty", [r2[e] for e in elig]])
        model_c = [[i2[int(x)] for x in s] for s in ans]
        if model_c != [c[1] for c in cands]:
            k.append(f"no_of_etas {elig}: model {model_c} code {[c[1] for c in cands]}")
    return {"k": k, "mon": mon, "tags": tags, "nontrivial": len(names) >= 2}


# ---- MFL algebra ------------------------------------------------------------------------------

WC = {"abs": ABS, "elim": ELIM, "lag": LAG, "depot": DEPOT, "pmode": PMODE}
DEFAULT_ATOMS = {"ABSORPTION": ("ABSORPTION", "INST"), "ELIMINATION": ("ELIMINATION", "FO"), "TRANSITS": ("TRANSITS", 0, "DEPOT"),
                 "PERIPHERALS": ("PERIPHERALS", 0, "DRUG"), "LAGTIME": ("LAGTIME", "OFF")}


def modes_sexp(m):
    if isinstance(m, Wildcard):
        return "wild"
    if isinstance(m, tuple):
        return ["names"] + [x.name for x in m]
    if isinstance(m, Name):
        return ["bare", m.name]
    raise TypeError(f"unexpected modes {m!r}")


def stmt_sexp(s):
    if isinstance(s, st_mod["abs"]):
        return ["abs", modes_sexp(s.modes)]
    if isinstance(s, st_mod["elim"]):
        return ["elim", modes_sexp(s.modes)]
    if isinstance(s, st_mod["lag"]):
        return ["lag", modes_sexp(s.modes)]
    if isinstance(s, st_mod["trans"]):
        return ["trans", list(s.counts), modes_sexp(s.depot)]
    if isinstance(s, st_mod["peri"]):
        return ["peri", list(s.counts), modes_sexp(s.modes)]
    raise TypeError(f"not a PK statement: {s!r}")


def canon_modes(x):
    """sort name lists (tuple(set(names)) order is not part of the contract)"""
    if isinstance(x, list) and x and x[0] == "names":
        return ["names"] + sorted(x[1:])
    return x


def mf_sexp(mf):
    om = lambda s: "none" if s is None else canon_modes(modes_sexp(s.modes))
    return ["mf", om(mf.absorption), om(mf.elimination),
            [[[str(c) for c in t.counts], canon_modes(modes_sexp(t.depot))] for t in mf.transits],
            [[[str(c) for c in p.counts], canon_modes(modes_sexp(p.modes))] for p in mf.peripherals],
            om(mf.lagtime)]


def canon_mf_answer(a):
    if isinstance(a, list) and a and a[0] == "mf":
        return ["mf", canon_modes(a[1]), canon_modes(a[2]), [[t[0], canon_modes(t[1])] for t in a[3]],
                [[p[0], canon_modes(p[1])] for p in a[4]], canon_modes(a[5])]
    return a


def expand(m, wc):
    if isinstance(m, Wildcard):
        return list(wc)
    if isinstance(m, tuple):
        return [x.name for x in m]
    if isinstance(m, Name):
        return [m.name]
    raise TypeError(repr(m))


def atoms_of(mf):
    """Explicitly expanded feature atoms of a (PK-fragment) search space, from its fields."""
    out = set()
    if mf.absorption is not None:
        out |= {("ABSORPTION", x) for x in expand(mf.absorption.modes, ABS)}
    if mf.elimination is not None:
        out |= {("ELIMINATION", x) for x in expand(mf.elimination.modes, ELIM)}
    if mf.lagtime is not None:
        out |= {("LAGTIME", x) for x in expand(mf.lagtime.modes, LAG)}
    for t in mf.transits:
        out |= {("TRANSITS", c, d) for c in t.counts for d in expand(t.depot, DEPOT)}
    for p in mf.peripherals:
        out |= {("PERIPHERALS", c, m) for c in p.counts for m in expand(p.modes, PMODE)}
    return out


def has_wild_modes(mf):
    return any(isinstance(s.modes, Wildcard) for s in (mf.absorption, mf.elimination, mf.lagtime) if s is not None)


def has_wild_peri(mf):
    return any(isinstance(p.modes, Wildcard) for p in mf.peripherals)


def has_non_tuple(mf):
    return any(not isinstance(s.modes, (tuple, Wildcard)) for s in (mf.absorption, mf.elimination, mf.lagtime) if s is not None)


def cat(atom):
    return atom[0]


def key_sexp(k):
    return [str(x) for x in k]


def run_alg(case, drv):
    k, mon, tags = [], [], []
    sa, ea = attempt(lambda: mfl_parse(case["a"]))
    sb, eb = attempt(lambda: mfl_parse(case["b"]))
    if ea or eb:
        mon.append({"cls": "pk-string-does-not-parse", "what": f"parse raises {ea or eb} on {case['a' if ea else 'b']!r}"})
        return {"k": k, "mon": mon, "tags": ["alg-parse-error"], "nontrivial": False}
    A, ea = attempt(lambda: ModelFeatures.create_from_mfl_statement_list(sa))
    B, eb = attempt(lambda: ModelFeatures.create_from_mfl_statement_list(sb))
    la, lb = ["lit"] + [stmt_sexp(s) for s in sa], ["lit"] + [stmt_sexp(s) for s in sb]

    def K(what, req, real_val, real_err, conv=lambda v: v):
        if drv is None:
            return
        ans = canon_mf_answer(drv.ask(req))
        exp = ["err", real_err] if real_err else conv(real_val)
        if ans != exp:
            k.append(f"{what}: model {ans} code {exp} on a={case['a']!r} b={case['b']!r}")

    K("create a", ["eval", la], A, ea, mf_sexp)
    K("create b", ["eval", lb], B, eb, mf_sexp)
    if ea or eb:
        mon.append({"cls": "create-raises", "what": f"create_from_mfl_statement_list raises {ea or eb}"})
        return {"k": k, "mon": mon, "tags": ["alg-create-error"], "nontrivial": False}
    wildA, wildB = has_wild_modes(A) or has_wild_peri(A), has_wild_modes(B) or has_wild_peri(B)
    # a statement with an empty list (`ABSORPTION([])`, `TRANSITS(3..1)`) denotes no feature at all: the model must still
    # agree with the code on it (K), but the algebraic laws are only demanded of non-degenerate descriptions
    degenerate = any(isinstance(v, tuple) and len(v) == 0 for st in list(sa) + list(sb) for v in vars(st).values())
    real_mon = mon
    if degenerate:
        mon = []
        tags.append("alg-degenerate-empty-list")
    tags.append("alg-wild" if (wildA or wildB) else "alg-nowild")
    tags.append(f"alg-stmts={len(sa) + len(sb)}")
    atA, atB = atoms_of(A), atoms_of(B)
    if drv is not None:
        ans = drv.ask(["atoms", la])
        if set(map(tuple, ans)) != {tuple(key_sexp(x)) for x in atA}:
            k.append(f"atoms: model {ans} harness {sorted(atA)} on {case['a']!r}")

    def err_cls(op, e, X, Y):
        """class of an exception raised by an operation on search spaces parsed from valid MFL"""
        if e == "TypeError" and (has_wild_peri(X) or has_wild_peri(Y)):
            return "typeerror-wildcard-peripheral-modes"
        if e == "TypeError" and op in ("eq", "sub", "contain") and (has_wild_modes(X) or has_wild_modes(Y)):
            return "typeerror-wildcard-modes-in-eq-or-sub"
        if e == "AttributeError" and op in ("contain",) and (X.absorption is None or Y.absorption is None):
            return "contain-subset-attributeerror-empty-space"
        if e == "ValueError" and op == "lnt" and ((X.absorption is None) != (Y.absorption is None)):
            return None  # documented refusal: "is only part of one of the MFLs and therefore cannot be compared"
        return f"internal-error-{op}-{e}"

    def check_roundtrip(what, X):
        s, e = attempt(lambda: repr(X))
        if e:
            mon.append({"cls": f"repr-raises-{e}", "what": f"repr of {what} raises {e}"})
            return
        if s == "" and not atoms_of(X):
            return  # the empty space has no MFL description
        Y, e = attempt(lambda: mfl_parse(s, mfl_class=True))
        if e:
            mon.append({"cls": "repr-does-not-parse", "what": f"{what}: repr {s!r} raises {e}"})
        elif atoms_of(Y) != atoms_of(X):
            mon.append({"cls": "repr-roundtrip-changes-space", "what": f"{what}: repr {s!r} parses to different atoms"})

    check_roundtrip("a", A)

    # ---------------- add
    S, e = attempt(lambda: A + B)
    K("a+b", ["eval", ["add", la, lb]], S, e, mf_sexp)
    if e:
        c = err_cls("add", e, A, B)
        if c:
            mon.append({"cls": c, "what": f"({case['a']!r}) + ({case['b']!r}) raises {e}"})
    else:
        if atoms_of(S) != atA | atB:
            mon.append({"cls": "add-not-union", "what": f"atoms(a+b) != atoms(a) | atoms(b) for a={case['a']!r} b={case['b']!r}: "
                                                       f"extra {sorted(atoms_of(S) - (atA | atB))} missing {sorted((atA | atB) - atoms_of(S))}"})
        check_roundtrip("a+b", S)
        tags.append("add-ok")

    # ---------------- sub
    D, e = attempt(lambda: A - B)
    K("a-b", ["eval", ["sub", la, lb]], D, e, mf_sexp)
    if e:
        c = err_cls("sub", e, A, B)
        if c:
            mon.append({"cls": c, "what": f"({case['a']!r}) - ({case['b']!r}) raises {e}"})
    else:
        atD = atoms_of(D)
        bad = []
        for c_, dflt in DEFAULT_ATOMS.items():
            diff = {x for x in atA - atB if cat(x) == c_}
            got = {x for x in atD if cat(x) == c_}
            if diff:
                if got != diff:
                    bad.append((c_, sorted(got), sorted(diff)))
            elif not got <= {dflt}:
                bad.append((c_, sorted(got), "subset of default"))
        if bad:
            mon.append({"cls": "sub-not-difference-modulo-defaults", "what": f"a={case['a']!r} b={case['b']!r}: {bad}"})
        check_roundtrip("a-b", D)
        tags.append("sub-ok")

    # ---------------- eq
    r, e = attempt(lambda: A == B)
    K("a==b", ["eq", la, lb], r, e, lambda v: "true" if v is True else "false" if v is False else f"nonbool:{v!r}")
    if e:
        c = err_cls("eq", e, A, B)
        if c:
            mon.append({"cls": c, "what": f"({case['a']!r}) == ({case['b']!r}) raises {e}"})
    else:
        if not isinstance(r, bool):
            mon.append({"cls": "eq-returns-non-bool", "what": f"== returns {r!r}"})
        elif r != (atA == atB):
            pa = [(frozenset(p.counts), frozenset(expand(p.modes, PMODE))) for p in A.peripherals]
            pb = [(frozenset(p.counts), frozenset(expand(p.modes, PMODE))) for p in B.peripherals]
            if (atA == atB) and not r and pa != pb:
                mon.append({"cls": "eq-depends-on-peripherals-statement-split",
                            "what": f"{case['a']!r} == {case['b']!r} is False although both expand to the same atoms"})
            else:
                mon.append({"cls": "eq-vs-atoms", "what": f"{case['a']!r} == {case['b']!r} is {r}, atoms equal: {atA == atB}"})
        tags.append(f"eq={r}")

    # ---------------- contain_subset
    for tool, wire in (("modelsearch", "modelsearch"), (None, "modelsearch"), ("amd", "other")):
        r, e = attempt(lambda: A.contain_subset(B, tool=tool))
        K(f"contain_subset tool={tool}", ["contains", la, lb, wire], r, e,
          lambda v: "none" if v is None else "true" if v is True else "false" if v is False else f"nonbool:{v!r}")
        if e:
            c = err_cls("contain", e, A, B)
            if c:
                mon.append({"cls": c, "what": f"contain_subset raises {e} on a={case['a']!r} b={case['b']!r}"})
            continue
        pk = lambda at: {x for x in at if not (x[0] == "PERIPHERALS" and x[2] == "MET")}
        want = (pk(atB) <= pk(atA)) if tool in (None, "modelsearch") else (atB <= atA)
        if r is None:
            if tool not in (None, "modelsearch"):
                mon.append({"cls": "contain-subset-returns-none-for-nonmodelsearch-tool",
                            "what": f"a.contain_subset(b, tool={tool!r}) is None (expected {want}) for a={case['a']!r} b={case['b']!r}"})
            else:
                mon.append({"cls": "contain-subset-returns-none", "what": f"None, tool={tool!r}"})
        elif bool(r) != want:
            nt = lambda at: {x for x in at if x[0] != "TRANSITS"}
            pkf = pk if tool in (None, "modelsearch") else (lambda at: at)
            lc, ld = {x[1] for x in atA if x[0] == "TRANSITS"}, {x[2] for x in atA if x[0] == "TRANSITS"}
            rc, rd = {x[1] for x in atB if x[0] == "TRANSITS"}, {x[2] for x in atB if x[0] == "TRANSITS"}
            if r and not want and nt(pkf(atB)) <= nt(pkf(atA)) and rc <= lc and rd <= ld:
                mon.append({"cls": "contain-subset-transits-counts-and-depots-compared-separately",
                            "what": f"a.contain_subset(b) is True but a lacks {sorted(pkf(atB) - pkf(atA))}: a={case['a']!r} b={case['b']!r}"})
            elif (not r) and want and (rc - lc or rd - ld):
                # degenerate transits statements (no counts or no depot) contribute no atom but are compared
                mon.append({"cls": "contain-subset-degenerate-transits", "what": f"a={case['a']!r} b={case['b']!r}"})
            else:
                mon.append({"cls": "contain-subset-vs-atoms", "what": f"tool={tool!r}: {r} but atoms say {want}: a={case['a']!r} b={case['b']!r}"})
        tags.append(f"contain={r}")

    # ---------------- least_number_of_transformations (keys), tool='modelsearch' and tool=None
    single = lambda ss, cls: sum(isinstance(s, cls) for s in ss) <= 1
    order_defined = single(sb, st_mod["abs"]) and single(sb, st_mod["lag"])
    for tool, wire in (("modelsearch", "modelsearch"), (None, "none")):
        r, e = attempt(lambda: list(A.least_number_of_transformations(B, tool=tool).keys()))
        if order_defined:
            K(f"lnt tool={tool}", ["lnt", la, lb, wire], r, e, lambda v: [key_sexp(x) for x in v])
        elif drv is not None and not e:
            ans = drv.ask(["lnt", la, lb, wire])
            if ans[:1] == ["err"] or sorted((x[0], len(x)) for x in ans) != sorted((str(x[0]), len(x)) for x in r):
                k.append(f"lnt kinds tool={tool}: model {ans} code {r}")
        if e:
            c = err_cls("lnt", e, A, B)
            if c:
                mon.append({"cls": c, "what": f"least_number_of_transformations(tool={tool!r}) raises {e} on a={case['a']!r} b={case['b']!r}"})
            continue

        def norm(key):  # feature key -> atom
            if key[0] == "PERIPHERALS":
                return ("PERIPHERALS", key[1], "MET" if len(key) == 3 else "DRUG")
            return tuple(key)
        got = [norm(x) for x in r]
        bad = []
        is_met = lambda x: x[0] == "PERIPHERALS" and x[2] == "MET"
        met = [x for x in got if is_met(x)]
        for c_ in DEFAULT_ATOMS:
            ca = {x for x in atA if cat(x) == c_ and not is_met(x)}
            cb = {x for x in atB if cat(x) == c_ and not is_met(x)}
            g = [x for x in got if cat(x) == c_ and not is_met(x)]
            need = (not (ca & cb)) and bool(cb)
            if need != (len(g) == 1) or any(x not in cb for x in g):
                bad.append((c_, g, "needed" if need else "not needed"))
        ma, mb = {x for x in atA if is_met(x)}, {x for x in atB if is_met(x)}
        if tool is None:  # all tools: the metabolite peripherals are one more category
            need = (not (ma & mb)) and bool(mb)
            if need != (len(met) == 1) or any(x not in mb for x in met):
                bad.append(("PERIPHERALS-MET", met, "needed" if need else "not needed"))
        if bad:
            mon.append({"cls": "lnt-vs-spec", "what": f"tool={tool!r} a={case['a']!r} b={case['b']!r}: {bad}"})
        elif met and tool == "modelsearch":
            mon.append({"cls": "lnt-modelsearch-includes-metabolite-peripheral",
                        "what": f"least_number_of_transformations(tool='modelsearch') contains {r} for a={case['a']!r} b={case['b']!r}"})
        tags.append(f"lnt-{wire}-n={len(r)}")

    # ---------------- chained results (names that went through tuple(set(..)))
    for what, f, req in (("(a+b)-b", lambda: (A + B) - B, ["sub", ["add", la, lb], lb]),
                         ("(a-b)+b", lambda: (A - B) + B, ["add", ["sub", la, lb], lb]),
                         ("(a+b)+a", lambda: (A + B) + A, ["add", ["add", la, lb], la])):
        v, e = attempt(f)
        K(what, ["eval", req], v, e, mf_sexp)
    v, e = attempt(lambda: (A + B) == (B + A))
    K("(a+b)==(b+a)", ["eq", ["add", la, lb], ["add", lb, la]], v, e, lambda v: "true" if v is True else "false" if v is False else "nonbool")
    if e is None and v is not True and not (wildA or wildB):
        S1, S2 = A + B, B + A
        if atoms_of(S1) == atoms_of(S2):
            pa = [(frozenset(p.counts), frozenset(expand(p.modes, PMODE))) for p in S1.peripherals]
            pb = [(frozenset(p.counts), frozenset(expand(p.modes, PMODE))) for p in S2.peripherals]
            mon.append({"cls": "eq-depends-on-peripherals-statement-split" if pa != pb else "eq-vs-atoms",
                        "what": f"(a+b) == (b+a) is {v!r} for a={case['a']!r} b={case['b']!r}"})

    # ---------------- statement level: + - == len on the three single-attribute classes
    for kind in ("abs", "elim", "lag"):
        xs = [s for s in sa if isinstance(s, st_mod[kind])][:1]
        ys = [s for s in sb if isinstance(s, st_mod[kind])][:1]
        if not (xs and ys):
            continue
        x, y = xs[0], ys[0]
        tags.append(f"stmt-{kind}")
        mx, my = modes_sexp(x.modes), modes_sexp(y.modes)
        cm = lambda v: canon_modes(modes_sexp(v.modes))
        if drv is not None:
            for nm, f, req, conv in (("+", lambda: x + y, ["sadd", kind, mx, my], cm), ("-", lambda: x - y, ["ssub", kind, mx, my], cm),
                                     ("==", lambda: x == y, ["seq", mx, my], lambda v: "true" if v else "false"),
                                     ("len", lambda: len(x), ["slen", kind, mx], lambda v: str(v))):
                v, e = attempt(f)
                ans = canon_modes(drv.ask(req))
                exp = ["err", e] if e else conv(v)
                if ans != exp:
                    k.append(f"statement {kind} {nm}: model {ans} code {exp} on {x!r} {y!r}")
        d, e = attempt(lambda: x - y)
        if e is None and not isinstance(d.modes, (tuple, Wildcard)):
            mon.append({"cls": "statement-sub-wildcard-returns-non-tuple-modes",
                        "what": f"{x!r} - {y!r} = {d!r}: modes is a bare Name, not a tuple"})
        elif e is None and not degenerate:
            pool = {"abs": ABS, "elim": ELIM, "lag": LAG}[kind]
            dflt = {"abs": "INST", "elim": "FO", "lag": "OFF"}[kind]
            diff = set(expand(x.modes, pool)) - set(expand(y.modes, pool))
            got = set(expand(d.modes, pool))
            if got != (diff or {dflt}):
                mon.append({"cls": "statement-sub-not-difference-modulo-default",
                            "what": f"{x!r} - {y!r} = {d!r}, expected modes {sorted(diff or {dflt})}"})
        elif e is not None and not degenerate:
            mon.append({"cls": f"statement-sub-raises-{e}", "what": f"{x!r} - {y!r}"})
    for t in [s for s in sa if isinstance(s, st_mod["trans"])][:1]:
        for u in [s for s in sb if isinstance(s, st_mod["trans"])][:1]:
            v, e = attempt(lambda: t == u)
            if drv is not None:
                ans = drv.ask(["teq", [list(t.counts), modes_sexp(t.depot)], [list(u.counts), modes_sexp(u.depot)]])
                exp = ["err", e] if e else ("true" if v is True else "false" if v is False else f"nonbool:{v!r}")
                if ans != exp:
                    k.append(f"Transits.__eq__: model {ans} code {exp} on {t!r} {u!r}")
            if e is None and not isinstance(v, bool):
                mon.append({"cls": "transits-eq-returns-tuple", "what": f"{t!r} == {u!r} returns {v!r}"})
            elif e is None and isinstance(t.depot, tuple) and isinstance(u.depot, tuple):
                want = set(t.counts) == set(u.counts) and set(t.depot) == set(u.depot)
                if v != want:
                    mon.append({"cls": "transits-eq-vs-sets", "what": f"{t!r} == {u!r} is {v}"})
            tags.append(f"transits-eq={v}")
    return {"k": k, "mon": real_mon, "tags": tags, "nontrivial": len(sa) + len(sb) >= 3}


# ---- search algorithms ------------------------------------------------------------------------

DOC_EXCLUDED = [(("ABSORPTION", "ZO"), ("TRANSITS",)), (("ABSORPTION", "SEQ-ZO-FO"), ("TRANSITS",)),
                (("ABSORPTION", "SEQ-ZO-FO"), ("LAGTIME", "ON")), (("ABSORPTION", "INST"), ("LAGTIME", "ON")),
                (("ABSORPTION", "INST"), ("TRANSITS",)), (("LAGTIME", "ON"), ("TRANSITS",)),
                # documented in the code only
                (("ABSORPTION", "FO"), ("TRANSITS", 1, "NODEPOT"))]
NEVER = [("TRANSITS", 0, "NODEPOT")]  # "Equivalent to changing the absorption rate model to instantaneous absorption"


def excluded(a, b):
    pre = lambda p, x: x[:len(p)] == p
    return any((pre(p, a) and pre(q, b)) or (pre(q, a) and pre(p, b)) for p, q in DOC_EXCLUDED)


def ref_stepwise_paths(keys):
    """All root paths the documented rules allow (reference, independent of _is_allowed)."""
    pcounts = sorted({k[1] for k in keys if k[0] == "PERIPHERALS"})
    out = []

    def ok(path, f):
        if f in path or f in NEVER:
            return False
        if f[0] == "PERIPHERALS":
            prev = [p[1] for p in path if p[0] == "PERIPHERALS"]
            if not prev:
                return f[1] == pcounts[0]
            nxt = [c for c in pcounts if c > max(prev)]
            return bool(nxt) and f[1] == nxt[0]
        if any(p[0] == f[0] for p in path):
            return False
        return not any(excluded(f, p) for p in path)

    def rec(path):
        for f in keys:
            if ok(path, f):
                out.append(path + [f])
                rec(path + [f])

    rec([])
    return out


def check_path_rules(path, keys, mon, where):
    pcounts = sorted({k[1] for k in keys if k[0] == "PERIPHERALS"})
    if len(set(path)) != len(path):
        mon.append({"cls": "stepwise-feature-twice-on-path", "what": f"{where}: {path}"})
    kinds = [p[0] for p in path if p[0] != "PERIPHERALS"]
    if len(set(kinds)) != len(kinds):
        mon.append({"cls": "stepwise-two-features-of-one-category", "what": f"{where}: {path}"})
    if any(excluded(a, b) for a, b in itertools.combinations(path, 2)) or any(p in NEVER for p in path):
        mon.append({"cls": "stepwise-excluded-combination", "what": f"{where}: {path}"})
    per = [p[1] for p in path if p[0] == "PERIPHERALS"]
    if per and per != pcounts[:len(per)]:
        mon.append({"cls": "stepwise-peripherals-not-in-consecutive-increasing-order",
                    "what": f"{where}: path {[ms_alg.key_to_str(p) for p in path]} adds peripheral compartments {per}; available {pcounts}"})


def run_search(case, drv):
    k, mon, tags = [], [], []
    mf, e = attempt(lambda: mfl_parse(case["mfl"], mfl_class=True))
    if e:
        return {"k": k, "mon": [{"cls": "pk-string-does-not-parse", "what": f"{case['mfl']!r}: {e}"}], "tags": ["search-parse-error"],
                "nontrivial": False}
    sts = mfl_parse(case["mfl"])
    lit = ["lit"] + [stmt_sexp(s) for s in sts]
    allf, e = attempt(lambda: mf.convert_to_funcs())
    if drv is not None:
        ans = drv.ask(["funcs", lit])
        exp = ["err", e] if e else [key_sexp(x) for x in allf]
        multi = lambda c: sum(isinstance(x, st_mod[c]) for x in sts) > 1
        if not e and (multi("abs") or multi("lag")) and isinstance(ans, list) and ans[:1] != ["err"]:
            # repeated ABSORPTION/LAGTIME statements are merged through tuple(set(..)): order not defined
            ans, exp = sorted(ans), sorted(exp)
        if ans != exp:
            k.append(f"convert_to_funcs keys: model {ans} code {exp} on {case['mfl']!r}")
    if e:
        c = "typeerror-wildcard-peripheral-modes" if (e == "TypeError" and has_wild_peri(mf)) else f"internal-error-funcs-{e}"
        return {"k": k, "mon": [], "tags": [f"search-funcs-{e}"], "nontrivial": False}
    # every atom of the space has its key and vice versa
    want = {(a[0], a[1]) if a[0] in ("ABSORPTION", "ELIMINATION", "LAGTIME") else
            (("PERIPHERALS", a[1]) if a[2] == "DRUG" else ("PERIPHERALS", a[1], "METABOLITE")) if a[0] == "PERIPHERALS" else a
            for a in atoms_of(mf)}
    if set(allf) != want:
        mon.append({"cls": "convert-to-funcs-keys-vs-atoms", "what": f"{case['mfl']!r}: keys {sorted(map(str, allf))}"})
    if case.get("mfl2"):
        mf2, e2 = attempt(lambda: mfl_parse(case["mfl2"], mfl_class=True))
        allf2, e2 = attempt(lambda: mf2.convert_to_funcs()) if not e2 else (None, e2)
        if not e2:
            allf = {**allf, **allf2}  # a merged table: the keys of one category need not be adjacent
            tags.append("search-merged-table")
    keys_all = list(allf)
    if "only" in case:
        keys = [x for x in keys_all if ms_alg.key_to_str(x) in case["only"] or x[0] in case["only"]]
    else:
        # choose by the canonical (sorted) position: the dict order of merged ABSORPTION/LAGTIME statements is
        # hash-randomised and must not influence which keys a case uses
        pick = case["pick"]
        canon = sorted(keys_all, key=lambda x: tuple(map(str, x)))
        score = {x: (pick[i % len(pick)] if pick else 0) for i, x in enumerate(canon)}
        chosen = set(sorted(canon, key=lambda x: -score[x])[:case["size"]])
        keys = [x for x in keys_all if x in chosen]
    order = case.get("order", "asis")
    canon_keys = sorted(keys, key=lambda x: tuple(map(str, x)))
    if order == "shuffle":
        perm = case.get("perm") or [0.0]
        sc = {x: perm[i % len(perm)] for i, x in enumerate(canon_keys)}
        keys = sorted(canon_keys, key=lambda x: sc[x])
    elif order == "reverse":
        keys = list(reversed(keys))
    elif order == "interleave":  # round-robin over the categories: no two adjacent keys of one category where avoidable
        byk = {}
        for x in canon_keys:
            byk.setdefault(x[0], []).append(x)
        keys = [g[i] for i in range(max(map(len, byk.values()), default=0)) for g in byk.values() if i < len(g)]
    runs = 1 + sum(1 for i in range(1, len(keys)) if keys[i][0] != keys[i - 1][0]) if keys else 0
    contiguous = runs == len({x[0] for x in keys})
    tags.append(f"search-order={order}")
    tags.append("search-table-contiguous" if contiguous else "search-table-noncontiguous")
    funcs = {x: allf[x] for x in keys}
    wire = [key_sexp(x) for x in keys]

    # -------- _group_incompatible_features: the groups are the categories, whatever the key order
    from pharmpy.tools.mfl import helpers as mfl_helpers
    grp = [list(g) for g in mfl_helpers._group_incompatible_features(funcs)]
    want_grp = {}
    for x in keys:
        want_grp.setdefault(x[0], []).append(x)
    if sorted(sorted(g, key=str) for g in grp) != sorted(sorted(g, key=str) for g in want_grp.values()):
        mon.append({"cls": "feature-groups-are-not-the-categories",
                    "what": f"_group_incompatible_features on keys {[ms_alg.key_to_str(x) for x in keys]} gives "
                            f"{[[ms_alg.key_to_str(x) for x in g] for g in grp]}"})
    if drv is not None:
        ans = drv.ask(["groups", wire])
        if ans != [[key_sexp(x) for x in g] for g in grp]:
            k.append(f"_group_incompatible_features keys {keys}: model {ans} code {grp}")
    tags.append(f"search-keys={len(keys)}")
    tags.append("search-peri>=3" if len({x[1] for x in keys if x[0] == "PERIPHERALS"}) >= 3 else "search-peri<3")
    only_drug = all(len(x) == 2 for x in keys if x[0] == "PERIPHERALS")

    # -------- exhaustive / all_combinations
    wf, tasks = ms_alg.exhaustive(funcs, "no_add")
    cands = [(t.task_input[0], list(t.task_input[1])) for t in wf.tasks if t.name == "create_candidate"]
    names = [c[0] for c in cands]
    if len(set(names)) != len(names):
        mon.append({"cls": "candidate-names-not-unique", "what": f"exhaustive: {names}"})
    groups = {}
    for x in keys:
        groups.setdefault(x[0], []).append(x)
    ref = [tuple(y for y in t if y is not None) for t in itertools.product(*[[None] + g for g in groups.values()])]
    ref = [t for t in ref if t]
    got = [tuple(c[1]) for c in cands]
    two = next((c for c in got if len({y[0] for y in c}) != len(c)), None)
    if two is not None:
        mon.append({"cls": "exhaustive-two-features-of-one-category",
                    "what": f"table keys {[ms_alg.key_to_str(x) for x in keys]}: candidate {[ms_alg.key_to_str(x) for x in two]}"})
    if sorted(map(frozenset, got), key=sorted) != sorted(map(frozenset, ref), key=sorted) or len(got) != len(set(got)):
        mon.append({"cls": "exhaustive-not-the-product",
                    "what": f"table keys {[ms_alg.key_to_str(x) for x in keys]}: {len(got)} combinations, the product over the categories has {len(ref)}"})
    # invariance under the key order of the table
    got_canon = {frozenset(c) for c in all_combinations({x: allf[x] for x in canon_keys})}
    if {frozenset(c) for c in got} != got_canon:
        mon.append({"cls": "exhaustive-depends-on-key-order",
                    "what": f"all_combinations differs between key order {[ms_alg.key_to_str(x) for x in keys]} and the sorted order"})
    if drv is not None:
        ans = drv.ask(["allcomb", wire])
        if ans != [[key_sexp(x) for x in c[1]] for c in cands] or names != [f"modelsearch_run{i + 1}" for i in range(len(cands))]:
            k.append(f"exhaustive keys {keys}: model {ans} code {cands}")

    # -------- exhaustive_stepwise
    limit = 400
    model_paths = drv.ask(["stepwise", wire]) if drv is not None else None
    refp = ref_stepwise_paths(keys) if only_drug else None
    size = len(model_paths) if model_paths is not None else (len(refp) if refp is not None else limit + 1)
    if size > limit:
        tags.append("stepwise-skipped-large")
    else:
        wf, tasks = ms_alg.exhaustive_stepwise(funcs, "no_add")
        cand = [t for t in wf.tasks if t.function is ms_alg.create_candidate_stepwise]
        real = []
        for t in cand:
            up = [u for u in reversed(wf.get_upstream_tasks(t)) if u.function is ms_alg.create_candidate_stepwise]
            real.append((t.task_input[0], [u.task_input[1] for u in up] + [t.task_input[1]], t.name))
        names = [r[0] for r in real]
        if len(set(names)) != len(names):
            mon.append({"cls": "candidate-names-not-unique", "what": f"exhaustive_stepwise: {names[:10]}"})
        if any(r[2] != ms_alg.key_to_str(r[1][-1]) for r in real):
            mon.append({"cls": "stepwise-task-name", "what": "task name is not key_to_str(feature)"})
        paths = [tuple(r[1]) for r in real]
        if len(set(paths)) != len(paths):
            mon.append({"cls": "stepwise-path-twice", "what": f"keys {keys}"})
        for p in paths:
            check_path_rules(list(p), keys, mon, "exhaustive_stepwise")
            if mon and mon[-1]["cls"].startswith("stepwise-"):
                break
        if refp is not None:
            missing = set(map(tuple, refp)) - set(paths)
            if missing:
                listed = [x[1] for x in keys if x[0] == "PERIPHERALS"]
                ex = sorted(missing, key=str)[0]
                if listed != sorted(listed) and sum(1 for x in ex if x[0] == "PERIPHERALS") >= 2:
                    mon.append({"cls": "stepwise-peripheral-path-missing-when-counts-not-listed-ascending",
                                "what": f"keys {[ms_alg.key_to_str(x) for x in keys]}: no candidate for the path {[ms_alg.key_to_str(x) for x in ex]}"})
                else:
                    mon.append({"cls": "stepwise-allowed-path-missing", "what": f"keys {keys}: e.g. {ex}"})
        if model_paths is not None:
            exp = [[key_sexp(x) for x in r[1]] for r in real]
            if model_paths != exp or names != [f"modelsearch_run{i + 1}" for i in range(len(real))]:
                k.append(f"exhaustive_stepwise keys {keys}: model {len(model_paths)} paths, code {len(exp)}; "
                         f"first diff {next(((a, b) for a, b in zip(model_paths, exp) if a != b), None)}")
        tags.append(f"stepwise-cands<={(len(real) // 50 + 1) * 50}")

        # -------- reduced_stepwise
        wf, tasks = ms_alg.reduced_stepwise(funcs, "no_add")
        cand = [t for t in wf.tasks if t.function is ms_alg.create_candidate_stepwise]
        ncoll = sum(1 for t in wf.tasks if t.name == "choose_best_model")
        real = []
        for t in cand:
            up = {u.task_input[1] for u in wf.get_upstream_tasks(t) if u.function is ms_alg.create_candidate_stepwise}
            real.append((t.task_input[0], t.task_input[1], up))
        names = [r[0] for r in real]
        if len(set(names)) != len(names):
            mon.append({"cls": "candidate-names-not-unique", "what": f"reduced_stepwise: {names[:10]}"})
        for nm, f, up in real:
            before = len(mon)
            sub = []
            check_path_rules(list(up) + [f], keys, sub, "reduced_stepwise")
            # the order inside `up` is unknown: only order-free rules are checked for the reduced search
            for m in sub:
                if m["cls"] != "stepwise-peripherals-not-in-consecutive-increasing-order":
                    mon.append(m)
            per = sorted(p[1] for p in list(up) + [f] if p[0] == "PERIPHERALS")
            pc = sorted({x[1] for x in keys if x[0] == "PERIPHERALS"})
            if per and per != pc[:len(per)]:
                mon.append({"cls": "stepwise-peripherals-not-in-consecutive-increasing-order",
                            "what": f"reduced_stepwise: a candidate has peripheral compartments {per}; available {pc}"})
            if len(mon) > before:
                break
        if drv is not None:
            ans = drv.ask(["reduced", wire])
            exp = [[[key_sexp(f), sorted(key_sexp(u) for u in up)] for _, f, up in real], str(ncoll)]
            got = [[[c[0], sorted(c[1])] for c in ans[0]], ans[1]]
            if got != exp or names != [f"modelsearch_run{i + 1}" for i in range(len(real))]:
                k.append(f"reduced_stepwise keys {keys}: model {len(got[0])} candidates/{got[1]} collectors, code {len(exp[0])}/{exp[1]}; "
                         f"first diff {next(((a, b) for a, b in zip(got[0], exp[0]) if a != b), None)}")
    # de-duplicate monitor classes of one case
    seen, out = set(), []
    for m in mon:
        if m["cls"] not in seen:
            seen.add(m["cls"])
            out.append(m)
    return {"k": k, "mon": out, "tags": tags, "nontrivial": len(keys) >= 2}


# ---- parse / stringify round trip ---------------------------------------------------------------

def fields_of(st):
    """a statement as plain data (dataclass equality is not used: Transits.__eq__ is not a predicate)"""
    import dataclasses

    def conv(v):
        if isinstance(v, Wildcard):
            return "*"
        if isinstance(v, Name):
            return ("name", v.name)
        if isinstance(v, Ref):
            return ("ref", v.name)
        if isinstance(v, Option):
            return ("opt", v.option)
        if isinstance(v, tuple):
            return tuple(conv(x) for x in v)
        return v
    return (type(st).__name__,) + tuple((f.name, conv(getattr(st, f.name))) for f in dataclasses.fields(st))


def run_roundtrip(case, drv):
    mon, tags = [], []
    s = case["mfl"]
    sts, e = attempt(lambda: mfl_parse(s))
    if e:
        up = s.upper()
        if e == "ValueError":
            tags.append("roundtrip-refused")  # documented refusals (mandatory wildcard effect, forced twice)
        elif e == "IndexError" and "ALLOMETRY(" in up:
            mon.append({"cls": "allometry-without-reference-indexerror", "what": f"parse({s!r}) raises IndexError"})
        elif e == "TypeError" and "COVARIATE" in up and "*" in up:
            mon.append({"cls": "covariate-wildcard-parameter-typeerror-in-validation", "what": f"parse({s!r}) raises TypeError"})
        else:
            mon.append({"cls": f"grammar-string-parse-raises-{e}", "what": f"parse({s!r})"})
        return {"k": [], "mon": mon, "tags": tags or ["roundtrip-parse-error"], "nontrivial": False}
    tags.append(f"roundtrip-stmts={len(sts)}")
    for st in sts:
        tags.append("rt-" + type(st).__name__)
    out, e = attempt(lambda: stringify(sts))
    has_allo = any(type(st).__name__ == "Allometry" for st in sts)
    if e:
        mon.append({"cls": "allometry-stringify" if has_allo else f"stringify-raises-{e}", "what": f"stringify(parse({s!r})) raises {e}"})
        return {"k": [], "mon": mon, "tags": tags, "nontrivial": len(sts) >= 2}
    back, e = attempt(lambda: mfl_parse(out))
    if e or [fields_of(x) for x in back] != [fields_of(x) for x in sts]:
        mon.append({"cls": "allometry-stringify" if has_allo else "stringify-parse-roundtrip",
                    "what": f"{s!r} prints as {out!r} which {'raises ' + e if e else 'parses to different statements'}"})
    # ModelFeatures level: repr parses back to the same space (statement fields after LET substitution)
    mf, e = attempt(lambda: ModelFeatures.create_from_mfl_statement_list(sts))
    if e is None:
        r, e2 = attempt(lambda: repr(mf))
        if e2:
            mon.append({"cls": f"repr-raises-{e2}", "what": f"repr(ModelFeatures({s!r}))"})
        else:
            mf2, e3 = attempt(lambda: mfl_parse(r, mfl_class=True) if r else ModelFeatures.create())
            if e3:
                mon.append({"cls": "repr-does-not-parse", "what": f"{s!r}: repr {r!r} raises {e3}"})
            else:
                f1 = sorted(map(repr, (fields_of(x) for x in mf.mfl_statement_list())))
                f2 = sorted(map(repr, (fields_of(x) for x in mf2.mfl_statement_list())))
                if f1 != f2:
                    mon.append({"cls": "repr-roundtrip-changes-space", "what": f"{s!r}: repr {r!r}"})
                if mf.allometry is not None and mf2.allometry is None:
                    mon.append({"cls": "repr-drops-allometry", "what": f"repr(ModelFeatures({s!r})) = {r!r} has no ALLOMETRY"})
    return {"k": [], "mon": mon, "tags": tags, "nontrivial": len(sts) >= 2}


# ---- LET definitions and @references ------------------------------------------------------------

def cov_fields(c):
    """a Covariate statement object as wire data"""
    def sym(x):
        if isinstance(x, Wildcard):
            return "wild"
        if isinstance(x, Ref):
            return ["ref", x.name]
        return ["vals"] + list(x)
    return ["cov", sym(c.parameter), sym(c.covariate), "wild" if isinstance(c.fp, Wildcard) else ["fps"] + list(c.fp), c.op,
            "true" if c.optional.option else "false"]


def run_let(case, drv):
    from pharmpy.model import Model
    from pharmpy.tools.mfl.feature.covariate import features as covariate_features
    from pharmpy.tools.mfl.helpers import funcs as mfl_funcs
    from pharmpy.tools.mfl.statement.feature.covariate import Covariate
    k, mon, tags = [], [], []
    stmts = case["stmts"]
    s, s_exp = render_let(stmts), render_let(stmts, explicit=True)
    n_ref = sum(1 for st in stmts if st[0] == "cov" for x in st[1:3] if x != "wild" and x[0] == "ref")
    tags.append(f"let-refs={n_ref}")
    for st in stmts:
        if st[0] == "let":
            nm = st[1]
            tags.append("let-name-" + ("upper" if nm == nm.upper() else "lower" if nm == nm.lower() else "mixed"))
    expanded = lambda ss: list(mfl_funcs(Model(), ss, (covariate_features,)).keys())
    sts, e = attempt(lambda: mfl_parse(s))
    sts_exp, e_exp = attempt(lambda: mfl_parse(s_exp))
    if e or e_exp:
        if e == "ValueError" or (e is None and e_exp == "ValueError"):
            tags.append("let-refused")  # documented refusals of validate_mfl_list
        else:
            mon.append({"cls": f"grammar-string-parse-raises-{e or e_exp}", "what": f"parse({s if e else s_exp!r})"})
        return {"k": k, "mon": mon, "tags": tags, "nontrivial": False}

    # ---- reference (independent of pharmpy): the product parameters x covariates x effects of every COVARIATE
    #      statement with each @reference standing for the values of the LET of exactly that name
    defs = {}
    for st in stmts:
        if st[0] == "let":
            defs[st[1]] = [v.upper() for v in st[2]]
    want = set()
    for st in stmts:
        if st[0] != "cov":
            continue
        _, P, C, fp, op, opt = st
        val = lambda x: defs[x[1]] if x[0] == "ref" else [v.upper() for v in x[1]]
        fps = ["lin", "piece_lin", "exp", "pow"] if fp == "wild" else [f.lower() for f in fp[1]]
        for p, c, f in itertools.product(val(P), val(C), fps):
            want.add(("COVARIATE", p, c, f, op or "*", "ADD"))
            if opt:
                want.add(("COVARIATE", p, c, f, op or "*", "REMOVE"))
    tags.append(f"let-combinations<={(len(want) // 10 + 1) * 10}")

    got_exp = expanded(sts_exp)
    if set(got_exp) != want:
        mon.append({"cls": "covariate-expansion-not-the-product",
                    "what": f"{s_exp!r} expands to {len(set(got_exp))} combinations, the product has {len(want)}"})
    got = expanded(sts)
    if set(got) != want and set(got_exp) == want:
        mon.append({"cls": "let-reference-does-not-denote-its-definition",
                    "what": f"{s!r} expands to {len(set(got))} feature combinations, the explicit description {s_exp!r} to {len(want)} "
                            f"(missing {sorted(want - set(got))[:2]}, extra {sorted(set(got) - want)[:2]})"})
    # ---- print -> parse keeps the expanded set
    printed, e = attempt(lambda: stringify(sts))
    back, e2 = attempt(lambda: mfl_parse(printed)) if not e else (None, e)
    if e or e2:
        mon.append({"cls": f"stringify-raises-{e}" if e else "stringify-parse-roundtrip", "what": f"{s!r} prints as {printed!r}: {e or e2}"})
    elif set(expanded(back)) != set(got):
        mon.append({"cls": "let-reference-lost-by-print-parse",
                    "what": f"{s!r} prints as {printed!r} which expands to different feature combinations"})
    # ---- search space object: LET substituted, same covariate statements as the explicit space, repr parses back
    mf, e = attempt(lambda: ModelFeatures.create_from_mfl_statement_list(sts))
    mf_exp, e_exp = attempt(lambda: ModelFeatures.create_from_mfl_statement_list(sts_exp))
    if e or e_exp:
        mon.append({"cls": "create-raises", "what": f"create_from_mfl_statement_list raises {e or e_exp} on {s if e else s_exp!r}"})
        return {"k": k, "mon": mon, "tags": tags, "nontrivial": True}
    if [cov_fields(c) for c in mf.covariate] != [cov_fields(c) for c in mf_exp.covariate]:
        mon.append({"cls": "let-not-substituted-in-search-space",
                    "what": f"search space of {s!r} has covariate statements {stringify(mf.covariate)!r}, "
                            f"the explicit description gives {stringify(mf_exp.covariate)!r}"})
    r, e = attempt(lambda: repr(mf))
    mf2, e2 = attempt(lambda: mfl_parse(r, mfl_class=True)) if not e else (None, e)
    if e or e2:
        mon.append({"cls": f"repr-raises-{e}" if e else "repr-does-not-parse", "what": f"{s!r}: repr {r!r} {e or e2}"})
    else:
        got2 = set(mf2.convert_to_funcs(["covariate"]).keys())
        if got2 != want and set(got_exp) == want:
            mon.append({"cls": "repr-roundtrip-changes-space",
                        "what": f"{s!r}: printed space {r!r} expands to {len(got2)} covariate combinations, expected {len(want)}"})

    # ---- K: interpreters, expansion, _let_subs (model) vs the real statement objects
    if drv is not None:
        wire_sym = lambda x: "wild" if x == "wild" else (["ref", x[1]] if x[0] == "ref" else ["vals"] + list(x[1]))
        wire = []
        for st in stmts:
            if st[0] == "let":
                wire.append(["let", st[1], list(st[2])])
            elif st[0] == "cov":
                wire.append(["cov", wire_sym(st[1]), wire_sym(st[2]), "wild" if st[3] == "wild" else ["fps"] + list(st[3][1]),
                             st[4] or "*", "true" if st[5] else "false"])
        ans = drv.ask(["letkeys", wire])
        real_stmts = [["let", x.name, list(x.value)] if isinstance(x, Let) else cov_fields(x)
                      for x in sts if isinstance(x, (Let, Covariate))]
        if ans[0] != real_stmts:
            k.append(f"interpreters on {s!r}: model {ans[0]} code {real_stmts}")
        dedup = lambda xs: list(dict.fromkeys(tuple(x) for x in xs))
        if dedup(ans[1]) != [tuple(map(str, x)) for x in got]:
            k.append(f"covariate feature keys of {s!r}: model {dedup(ans[1])} code {got}")
        if ans[2] != [cov_fields(c) for c in mf.covariate]:
            k.append(f"_let_subs on {s!r}: model {ans[2]} code {[cov_fields(c) for c in mf.covariate]}")
        if dedup(ans[3]) != [tuple(map(str, x)) for x in got_exp]:
            k.append(f"covariate feature keys of the explicit {s_exp!r}: model {dedup(ans[3])} code {got_exp}")
    return {"k": k, "mon": mon, "tags": tags, "nontrivial": True}


def run_case(case, drv):
    kind = case["kind"]
    if kind == "sets":
        return run_sets(case, drv)
    if kind == "iiv":
        return run_iiv(case, drv)
    if kind == "alg":
        return run_alg(case, drv)
    if kind == "search":
        return run_search(case, drv)
    if kind == "roundtrip":
        return run_roundtrip(case, drv)
    if kind == "let":
        return run_let(case, drv)
    raise ValueError(kind)
