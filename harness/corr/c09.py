"""C09 — Model extensions implement documented formulas; neutral at reference.

T8  : harness/translate/c09_templates.py regenerates lean/PharmpyModel/Generated/Templates.lean from the
      literal templates in covariate_effect.py / parameter_variability.py / error.py / allometry.py / odes.py.
K   : the statements the real setter writes vs the Lean model's statement-level edit instantiating the
      T8 templates (driver drv_c09), compared expression by expression at seeded rational points.
Mon : the property on the real code: eval(ext(M))(x) == documented_formula(eval(M))(x) at seeded points
      (formulas re-written here from the docstrings, statistics recomputed from the data rows in pure Python),
      equality with M at the reference value / eta = 0 / reference weight, remove(ext(M)) ~ M.
"""
from __future__ import annotations

import os
import random
import warnings

ID = "C09"
DRIVER = "drv_c09"
LEAN_TARGETS = ["PharmpyProofs.C09.Properties", "drv_c09"]
PROPERTIES = ["PharmpyProofs/C09/Properties.lean"]
LEAN_SOURCES = ["PharmpyModel/C09/*.lean", "PharmpyModel/Generated/Templates.lean", "PharmpyProofs/C09/*.lean",
                "Drivers/C09.lean"]
TIME_LIMIT = {"quick": 900, "thorough": 3000}
CASE_CPU_LIMIT = 60
LEANCHECKER = True
RULE = ("extension calls on load_example_model('pheno') and models derived from it by real pharmpy calls (IIV removed, "
        "covariate effects removed, first-order absorption, error model removed/additive/combined), on the full "
        "dataset or a seeded subset of individuals (so medians, category sets and most common categories vary): "
        "add_covariate_effect (parameter x covariate x 6 effects x 2 operations, also nested on an earlier effect), "
        "add_iiv (5 forms x 2 operations x 5 parameters), add_iov (3 occasion columns x parameter sets x 3 "
        "distributions), transform_etas_boxcox/tdist/john_draper, set_additive/proportional/combined_error_model "
        "(x data_trans, zero_protection), set_power_on_ruv, set_weighted/dtbs/time_varying_error_model, "
        "set_iiv_on_ruv, add_allometry, set_transit_compartments histories, absorption setters. "
        "non-trivial = the call changed the model; distinct = distinct case JSON")
TRUSTED = [
    "Lean 4.33 kernel; axioms propext, Quot.sound, Classical.choice only (audited per theorem each run)",
    "translator T8 harness/translate/c09_templates.py (closed list of Python AST shapes, refuses anything else); what it "
    "extracts is printed in lean/PharmpyModel/Generated/Templates.lean",
    "hand-written statement-level model PharmpyModel/C09/Model.lean tied to the setters by the correspondence run",
    "sympy/symengine: canonicalisation, subs, piecewise folding and exact/40-digit evaluation preserve values",
    "harness/corr/c09.py + c09_util.py (generator, documented-formula table, pure-Python dataset statistics)",
]
ASSUMPTIONS = [
    "expressions are compared by exact evaluation at seeded rational points (40-digit evaluation where exp/log/non-integer "
    "powers make the value irrational), chosen to hit every kind of piecewise branch; not by printed form",
    "theorems are over Rat with exp/log/pow/sign/Abs as parameters and the laws exp 0 = 1, pow 1 t = 1, sign 0 = 0 as hypotheses",
    "initial estimates and bounds of the new parameters are outside the property (see notes/C09.md for what was observed)",
    "the ODE system is abstracted to (amounts, rhs symbols); transit chains to their (numerator, MDT symbol) rates",
]

TOL = 1e-10   # monitors compare full expressions in which symengine has folded float literals
PARAMS = ["CL", "VC"]
COVS = ["WGT", "APGR", "FA1", "FA2"]
EFFECTS = ["lin", "cat", "cat2", "piece_lin", "exp", "pow"]
FORMS = ["add", "prop", "exp", "log", "re_log"]


def budget(tier):
    return int(os.environ.get("VERIF_BUDGET", 0)) or {"quick": 420, "thorough": 6000}[tier]


def translators():
    from harness.translate import c09_templates
    return [("T8-templates", c09_templates.regenerate)]


# ---------------------------------------------------------------- generation

def _ids(rng):
    if rng.random() < 0.35:
        return None
    k = rng.randint(8, 45)
    return sorted(rng.sample(range(1, 60), k))


def gen_case(rng: random.Random):
    r = rng.random()
    c = {"ids": _ids(rng), "seed": rng.randrange(1 << 30)}
    if r < 0.36:
        c.update(kind="coveff", param=rng.choice(PARAMS), cov=rng.choice(COVS), effect=rng.choice(EFFECTS),
                 op=rng.choice(["*", "*", "+"]), first=None)
        if rng.random() < 0.3:
            c["first"] = [rng.choice(COVS), rng.choice(EFFECTS), rng.choice(["*", "+"])]
    elif r < 0.52:
        c.update(kind="iiv", param=rng.choice(["CL", "VC", "S1", "V", "TVCL"]), form=rng.choice(FORMS),
                 op=rng.choice(["*", "+"]))
    elif r < 0.62:
        ps = rng.choice([["CL"], ["VC"], ["CL", "VC"], ["VC", "CL"], None])
        c.update(kind="iov", occ=rng.choice(["FA1", "FA2", "APGR"]), params=ps,
                 dist=rng.choice(["disjoint", "joint", "same-as-iiv"]))
    elif r < 0.70:
        c.update(kind="etatrans", trans=rng.choice(["boxcox", "tdist", "johndraper"]),
                 etas=rng.choice([["ETA_CL"], ["ETA_VC"], ["ETA_CL", "ETA_VC"], ["ETA_VC", "ETA_CL"], None]))
    elif r < 0.90:
        c.update(kind="error", base=rng.choice(["pheno", "noerr", "add", "comb", "prop"]),
                 setter=rng.choice(["additive", "proportional", "combined", "power", "weighted", "dtbs",
                                    "time_varying", "iiv_on_ruv"]),
                 log=rng.random() < 0.35, zp=rng.random() < 0.6, cutoff=rng.choice([1, 2.5, 24]))
    elif r < 0.95:
        c.update(kind="allometry", var=rng.choice(["WGT", "APGR"]), ref=rng.choice([70, 7, 3, 2.5, 0.5]),
                 params=rng.choice([None, ["CL"], ["VC"], ["CL", "VC"]]), nocov=rng.random() < 0.7)
    else:
        c.update(kind="transit", base=rng.choice(["pheno", "fo"]),
                 ns=[rng.choice([0, 1, 2, 3, 4, 5, 7]) for _ in range(rng.randint(1, 3))],
                 keep_depot=rng.random() < 0.7)
    return c


def gen_cases(rng, n, tier):
    return [gen_case(rng) for _ in range(n)]


def corpus_cases():
    return [
        # '+' operation: the effect is 1, not 0, at the reference
        {"kind": "coveff", "ids": None, "seed": 1, "param": "CL", "cov": "APGR", "effect": "lin", "op": "+", "first": None},
        {"kind": "coveff", "ids": None, "seed": 2, "param": "CL", "cov": "WGT", "effect": "pow", "op": "*", "first": None},
        {"kind": "coveff", "ids": None, "seed": 3, "param": "VC", "cov": "APGR", "effect": "cat", "op": "*",
         "first": ["WGT", "exp", "*"]},
        # logit forms are not neutral at eta = 0
        {"kind": "iiv", "ids": None, "seed": 4, "param": "CL", "form": "log", "op": "*"},
        {"kind": "iiv", "ids": None, "seed": 5, "param": "CL", "form": "re_log", "op": "*"},
        {"kind": "iiv", "ids": None, "seed": 6, "param": "CL", "form": "exp", "op": "+"},
        {"kind": "iov", "ids": None, "seed": 7, "occ": "FA1", "params": ["CL", "VC"], "dist": "joint"},
        {"kind": "etatrans", "ids": None, "seed": 8, "trans": "tdist", "etas": None},
        # setter is a no-op on a model that already has the error model, even when another data_trans is requested
        {"kind": "error", "ids": None, "seed": 9, "base": "pheno", "setter": "proportional", "log": True, "zp": True, "cutoff": 1},
        {"kind": "error", "ids": None, "seed": 10, "base": "noerr", "setter": "combined", "log": False, "zp": True, "cutoff": 1},
        {"kind": "allometry", "ids": None, "seed": 11, "var": "WGT", "ref": 70, "params": None, "nocov": True},
        {"kind": "transit", "ids": None, "seed": 12, "base": "pheno", "ns": [2, 4, 3], "keep_depot": True},
        {"kind": "transit", "ids": None, "seed": 13, "base": "fo", "ns": [3, 1], "keep_depot": True},
        # reducing to a single transit without depot leaves the rate 5/MDT
        {"kind": "transit", "ids": None, "seed": 14, "base": "pheno", "ns": [5, 1], "keep_depot": True},
        # after all transits were removed the next call raises
        {"kind": "transit", "ids": None, "seed": 15, "base": "pheno", "ns": [4, 0, 3], "keep_depot": False},
        {"kind": "iiv", "ids": None, "seed": 16, "param": "TVCL", "form": "re_log", "op": "*"},
        {"kind": "error", "ids": None, "seed": 17, "base": "prop", "setter": "dtbs", "log": False, "zp": True, "cutoff": 1},
    ]


def shrink(case):
    if case.get("ids"):
        c = dict(case)
        c["ids"] = None
        yield c
    if case.get("first"):
        c = dict(case)
        c["first"] = None
        yield c
    if case.get("kind") == "transit" and len(case["ns"]) > 1:
        for i in range(len(case["ns"])):
            c = dict(case)
            c["ns"] = case["ns"][:i] + case["ns"][i + 1:]
            yield c


# ---------------------------------------------------------------- real-code side

_CACHE = {}


def worker_init():
    global sympy, pm, U, exprconv, Rational
    warnings.filterwarnings("ignore")
    import sympy  # noqa
    from sympy import Rational  # noqa
    import pharmpy.modeling as pm  # noqa
    from harness.common import exprconv  # noqa
    from harness.corr import c09_util as U  # noqa


def pheno(ids):
    if "pheno" not in _CACHE:
        _CACHE["pheno"] = pm.load_example_model("pheno")
    m = _CACHE["pheno"]
    if ids is not None:
        df = m.dataset
        m = m.replace(dataset=df[df["ID"].isin(ids)].reset_index(drop=True))
    return m


def S(name):
    return sympy.Symbol(name)


def full(model, name, part="before"):
    ss = model.statements.before_odes if part == "before" else model.statements.after_odes
    return U.norm(ss.full_expression(name))


def cmp_stmts(label, model_w, code_w, rng, k):
    """K: driver statements vs code statements"""
    if isinstance(model_w, list) and model_w and model_w[0] == "err":
        k.append(f"{label}: model refuses {model_w}, code produced statements")
        return
    if len(model_w) != len(code_w):
        k.append(f"{label}: model has {len(model_w)} statements, code {len(code_w)}: "
                 f"{[s[1] for s in model_w]} vs {[s[1] for s in code_w]}")
        return
    for i, (a, b) in enumerate(zip(model_w, code_w)):
        if a[0] != b[0]:
            k.append(f"{label}: statement {i} kind {a[0]} vs {b[0]}")
            return
        if a[0] == "ode":
            if [list(map(str, x)) for x in a[1:]] != [list(map(str, x)) for x in b[1:]]:
                k.append(f"{label}: ODE abstraction differs: model {a} code {b}")
            continue
        if str(a[1]) != str(b[1]):
            k.append(f"{label}: statement {i} assigns {a[1]} in the model, {b[1]} in the code")
            return
        ea, eb = U.from_wire(a[2]), U.from_wire(b[2])
        ok, wit = U.same_expr(ea, eb, rng)
        if not ok:
            k.append(f"{label}: statement {i} ({a[1]}): model {ea} code {eb} differ at {wit}")
            return


def cmp_expr(label, model_w, code_e, rng, k):
    if isinstance(model_w, list) and model_w and model_w[0] == "err":
        k.append(f"{label}: model refuses {model_w}")
        return
    ea = U.from_wire(model_w)
    ok, wit = U.same_expr(ea, code_e, rng)
    if not ok:
        k.append(f"{label}: model {ea} code {code_e} differ at {wit}")


def check_equal(mon, cls, what, a, b, rng, fixed=None, npoints=4, need_defined=True):
    """Mon helper: a(x) == b(x) at seeded points (with `fixed` symbol values)."""
    hit = 0
    for _ in range(npoints * 3):
        pt = U.gen_point(rng, [a, b], fixed)
        va, vb = U.value_at(a, pt), U.value_at(b, pt)
        if va is None and vb is None:
            continue
        hit += 1
        if not U.same_value(va, vb, TOL):
            mon.append({"cls": cls, "what": f"{what}: {va} vs {vb} at " +
                        str({str(k_): str(v) for k_, v in pt.items()})[:300]})
            return False
        if hit >= npoints:
            break
    return True


# ---- documented formulas (docstrings of the setters), written independently of the code

def doc_effect(kind, thetas, c, med, cats, best):
    if kind == "lin":
        return 1 + thetas[0] * (c - med)
    if kind == "piece_lin":
        return 1 + thetas[0] * (c - med) if c <= med else 1 + thetas[1] * (c - med)
    if kind == "exp":
        return sympy.exp(thetas[0] * (c - med))
    if kind == "pow":
        return (c / med) ** thetas[0]
    if kind in ("cat", "cat2"):
        if c == best:
            return sympy.Integer(1)
        others = [x for x in cats if x != best]
        if c not in others:
            return None
        th = thetas[others.index(c)] if len(others) > 1 else thetas[0]
        return 1 + th if kind == "cat" else th
    raise AssertionError(kind)


def doc_iiv(form, op, theta, eta):
    e = sympy.exp(eta)
    if form == "add":
        return theta + eta
    if form == "prop":
        return theta * (1 + eta)
    if form == "exp":
        return theta * e if op == "*" else theta + e
    if form == "log":
        return theta * e / (e + 1)
    if form == "re_log":
        phi = sympy.log(theta / (1 - theta))
        return sympy.exp(phi * eta) / (1 + sympy.exp(phi * eta))
    raise AssertionError(form)


def doc_trans(kind, eta, th):
    if kind == "boxcox":
        return (sympy.exp(eta) ** th - 1) / th
    if kind == "tdist":
        return eta * (1 + (eta**2 + 1) / (4 * th) + (5 * eta**4 + 16 * eta**2 + 3) / (96 * th**2)
                      + (3 * eta**6 + 19 * eta**4 + 17 * eta**2 - 15) / (384 * th**3))
    if kind == "johndraper":
        return sympy.sign(eta) * ((abs(eta) + 1) ** th - 1) / th
    raise AssertionError(kind)


# ---------------------------------------------------------------- case runners

def run_coveff(case, drv, rng, k, mon, tags):
    m = pheno(case["ids"])
    P, COV, eff, op = case["param"], case["cov"], case["effect"], case["op"]
    if case.get("first"):
        c1, e1, o1 = case["first"]
        if c1 != COV:
            try:
                m = pm.add_covariate_effect(m, P, c1, e1, o1, allow_nested=True)
                tags.append("nested-on-earlier-effect")
            except Exception:
                tags.append("first-effect-refused")
    rows = U.records(m.dataset, ["ID", COV])
    med = U.ref_median(rows, "ID", COV)
    lo, hi = U.ref_minmax(rows, COV)
    cats, best, has_nan = U.ref_categories(rows, "ID", COV)
    tags += [f"coveff:{eff}", f"op:{op}", f"cov:{COV}", f"ncat={min(len(cats), 12)}"]
    try:
        m2 = pm.add_covariate_effect(m, P, COV, eff, op, allow_nested=True)
    except Exception as e:
        if eff == "piece_lin" and "Median cannot be same as min or max" in str(e) and (med == lo or med == hi):
            tags.append("refused:piece_lin-median-at-extreme")
            return False
        mon.append({"cls": "coveff-internal-error", "what": f"add_covariate_effect({P},{COV},{eff},{op}) raised "
                    f"{type(e).__name__}: {e}"})
        return False
    # ---- K
    if drv is not None:
        others = [["c", U.wire_num(c)] for c in cats if c != best]
        ans = drv.ask(["coveff", U.stmts_wire(m.statements), P, COV, eff, op, U.wire_num(med), U.wire_num(best),
                       others, list(m.datainfo.names)])
        cmp_stmts(f"add_covariate_effect({P},{COV},{eff},{op})", ans, U.stmts_wire(m2.statements), rng, k)
    # ---- Mon
    new_thetas = sorted([n for n in m2.parameters.names if n not in m.parameters.names], key=U.natural_key)
    p_old, p_new = full(m, P), full(m2, P)
    R = U.rat
    medr, bestr, catsr = R(med), R(best), [R(c) for c in cats]
    ref = medr if eff in ("lin", "piece_lin", "exp", "pow") else bestr
    # (c) centring statistic
    if eff in ("lin", "piece_lin", "exp", "pow"):
        st = m2.statements.find_assignment(f"{COV}_MEDIAN")
        if st is None:
            mon.append({"cls": "coveff-wrong-centre", "what": f"no {COV}_MEDIAN statement"})
        else:
            v = float(U.norm(st.expression))
            if abs(v - med) > 1e-12 * max(1.0, abs(med)):
                mon.append({"cls": "coveff-wrong-centre", "what": f"{COV}_MEDIAN = {v}, median over individuals of the "
                            f"per-individual medians is {med}"})
    # (a) documented formula at seeded points
    cov_vals = [ref] + [R(c) for c in rng.sample(cats, min(3, len(cats)))] + [ref + Rational(1, 3)]
    for cv in cov_vals:
        if eff == "pow" and medr == 0:
            break
        pt = U.gen_point(rng, [p_old, p_new], {COV: cv}, lo=1, hi=9)
        for nm in new_thetas:
            pt[S(nm)] = Rational(rng.randint(1, 7), rng.randint(2, 5))
        ths = [pt[S(nm)] for nm in new_thetas]
        try:
            effv = doc_effect(eff, ths, cv, medr, catsr, bestr)
        except IndexError:
            mon.append({"cls": "coveff-theta-count", "what": f"{eff}: {len(new_thetas)} new parameters {new_thetas} for "
                        f"{len(cats)} categories"})
            break
        vo, vn = U.value_at(p_old, pt), U.value_at(p_new, pt)
        if effv is None or vo is None:
            continue
        want = vo * effv if op == "*" else vo + effv
        if not U.same_value(vn, want, TOL):
            mon.append({"cls": "coveff-formula", "what": f"{P} after add_covariate_effect({COV},{eff},{op}) is {vn}, "
                        f"documented {vo} {op} {effv} = {want} at {COV}={cv} thetas={ths}"})
            break
    # (b) neutral at the reference value
    if not (eff == "pow" and medr == 0):
        cls = "coveff-add-not-neutral-at-reference" if op == "+" else "coveff-not-neutral-at-reference"
        check_equal(mon, cls, f"{P} with {eff} effect of {COV} (operation {op}) at the reference value {COV}={ref} vs "
                    f"{P} before", p_new, p_old, rng, {COV: ref}, npoints=2)
    # (d) remove restores
    if not pm.has_covariate_effect(m, P, COV):
        try:
            m3 = pm.remove_covariate_effect(m2, P, COV)
            p_rm = full(m3, P)
            check_equal(mon, "coveff-remove-not-restoring", f"{P} after remove_covariate_effect(add(...{COV},{eff},{op})) vs "
                        f"{P} before", p_rm, p_old, rng, npoints=3)
            tags.append("remove-checked")
        except Exception as e:
            mon.append({"cls": "coveff-remove-internal-error", "what": f"remove_covariate_effect raised {type(e).__name__}: {e}"})
    return True


def run_iiv(case, drv, rng, k, mon, tags):
    m = pheno(case["ids"])
    P, form, op = case["param"], case["form"], case["op"]
    if P in ("CL", "VC"):
        m = pm.remove_iiv(m, P)
    tags += [f"iiv:{form}", f"op:{op}", f"iivparam:{P}"]
    st = m.statements.find_assignment(P)
    eta = f"ETA_{P}"
    try:
        m2 = pm.add_iiv(m, P, form, op)
    except Exception as e:
        cls = "iiv-internal-error"
        if form == "re_log" and not U.norm(st.expression).is_Symbol:
            cls = "iiv-rescaled-logit-phi-name-internal-error"   # phi_<printed expression> is not a symbol name
        mon.append({"cls": cls, "what": f"add_iiv({P},{form},{op}) with {P} = {st.expression} raised {type(e).__name__}: "
                    + str(e).split(chr(10))[0]})
        return False
    if drv is not None:
        ans = drv.ask(["iiv", U.stmts_wire(m.statements), P, form, op, eta, f"phi_{st.expression}"])
        cmp_stmts(f"add_iiv({P},{form},{op})", ans, U.stmts_wire(m2.statements), rng, k)
    p_old, p_new = full(m, P), full(m2, P)
    # formula
    for _ in range(3):
        pt = U.gen_point(rng, [p_old, p_new], lo=1, hi=9)
        pt[S(eta)] = Rational(rng.randint(-6, 6), rng.randint(2, 5))
        # Θ is the right-hand side of P's assignment; its full expression in M is p_old
        vo, vn = U.value_at(p_old, pt), U.value_at(p_new, pt)
        if vo is None:
            continue
        want = doc_iiv(form, op, vo, pt[S(eta)])
        if want.has(sympy.nan, sympy.zoo, sympy.oo):
            continue        # documented formula undefined at this point (Theta = 1 in the rescaled logit)
        if not U.same_value(vn, want, TOL):
            mon.append({"cls": "iiv-formula", "what": f"{P} after add_iiv({form},{op}) is {vn}, documented {want} "
                        f"(old value {vo}, eta {pt[S(eta)]})"})
            break
    # neutral at eta = 0
    neutral_cls = {"log": "iiv-logit-not-neutral-at-eta-zero", "re_log": "iiv-rescaled-logit-not-neutral-at-eta-zero"}.get(form)
    if form == "exp" and op == "+":
        neutral_cls = "iiv-additive-exp-not-neutral-at-eta-zero"
    check_equal(mon, neutral_cls or "iiv-not-neutral-at-eta-zero", f"{P} with {form} IIV (operation {op}) at {eta}=0 vs {P} before",
                p_new, p_old, rng, {eta: sympy.Integer(0)}, npoints=2)
    # remove restores
    try:
        m3 = pm.remove_iiv(m2, eta)
        p_rm = full(m3, P)
        cls = "iiv-remove-not-restoring"
        if form == "re_log":
            cls = "iiv-remove-rescaled-logit-not-restoring"
        elif neutral_cls is not None:
            cls = f"iiv-remove-not-restoring-{form}-{'mul' if op == '*' else 'add'}"
        check_equal(mon, cls, f"{P} after remove_iiv(add_iiv({form},{op})) vs {P} before", p_rm, p_old, rng, npoints=3)
    except Exception as e:
        mon.append({"cls": "iiv-remove-internal-error", "what": f"remove_iiv after add_iiv({P},{form},{op}) raised "
                    f"{type(e).__name__}: {e}"})
    return True


def run_iov(case, drv, rng, k, mon, tags):
    m = pheno(case["ids"])
    occ, params, dist = case["occ"], case["params"], case["dist"]
    rows = U.records(m.dataset, ["ID", occ])
    cats = sorted({int(r[occ]) for r in rows})
    tags += [f"iov:{dist}", f"occ:{occ}", f"nocc={min(len(cats), 12)}"]
    try:
        m2 = pm.add_iov(m, occ, params, distribution=dist)
    except ValueError as e:
        if len(cats) == 1 and "Only one value" in str(e):
            tags.append("refused:one-occasion")
            return False
        mon.append({"cls": "iov-internal-error", "what": f"add_iov({occ},{params},{dist}) raised ValueError: {e}"})
        return False
    except Exception as e:
        mon.append({"cls": "iov-internal-error", "what": f"add_iov({occ},{params},{dist}) raised {type(e).__name__}: {e}"})
        return False
    etas = [f"ETA_{p}" for p in (params or ["CL", "VC"])]
    if dist == "same-as-iiv":
        etas = [e for e in ["ETA_CL", "ETA_VC"] if e in etas]   # order of the model's distributions
    if drv is not None:
        es = [[e, f"IOV_{i}", f"ETAI{i}", [f"ETA_IOV_{i}_{j}" for j in range(1, len(cats) + 1)]]
              for i, e in enumerate(etas, 1)]
        ans = drv.ask(["iov", U.stmts_wire(m.statements), occ, [c for c in cats], es])
        cmp_stmts(f"add_iov({occ},{params},{dist})", ans, U.stmts_wire(m2.statements), rng, k)
    new_etas = [n for n in m2.random_variables.names if n not in m.random_variables.names]
    zero = {n: sympy.Integer(0) for n in new_etas}
    for P in PARAMS:
        p_old, p_new = full(m, P), full(m2, P)
        for cv in rng.sample(cats, min(2, len(cats))):
            fx = dict(zero)
            fx[occ] = sympy.Integer(cv)
            if not check_equal(mon, "iov-not-neutral-at-eta-zero", f"{P} with IOV on {occ} at all IOV etas 0, {occ}={cv} vs {P} before",
                               p_new, p_old, rng, fx, npoints=1):
                break
    try:
        m3 = pm.remove_iov(m2)
        for P in PARAMS:
            fx = {occ: sympy.Integer(rng.choice(cats))}
            check_equal(mon, "iov-remove-not-restoring", f"{P} after remove_iov(add_iov(...)) vs {P} before", full(m3, P),
                        full(m, P), rng, fx, npoints=2)
    except Exception as e:
        mon.append({"cls": "iov-remove-internal-error", "what": f"remove_iov raised {type(e).__name__}: {e}"})
    return True


def run_etatrans(case, drv, rng, k, mon, tags):
    m = pheno(case["ids"])
    kind, etas = case["trans"], case["etas"]
    fn = {"boxcox": pm.transform_etas_boxcox, "tdist": pm.transform_etas_tdist, "johndraper": pm.transform_etas_john_draper}[kind]
    tags += [f"etatrans:{kind}", f"netas={len(etas) if etas else 2}"]
    try:
        m2 = fn(m, etas)
    except Exception as e:
        mon.append({"cls": "etatrans-internal-error", "what": f"transform_etas_{kind}({etas}) raised {type(e).__name__}: {e}"})
        return False
    el = etas or ["ETA_CL", "ETA_VC"]
    pre = {"boxcox": ("ETAB", "lambda"), "tdist": ("ETAT", "df"), "johndraper": ("ETAD", "lambda")}[kind]
    if drv is not None:
        es = [[e, f"{pre[0]}{i}", f"{pre[1]}{i}"] for i, e in enumerate(el, 1)]
        ans = drv.ask(["etatrans", U.stmts_wire(m.statements), kind, es])
        cmp_stmts(f"transform_etas_{kind}({etas})", ans, U.stmts_wire(m2.statements), rng, k)
    for P in PARAMS:
        p_old, p_new = full(m, P), full(m2, P)
        check_equal(mon, "etatrans-not-neutral-at-eta-zero", f"{P} after transform_etas_{kind} at etas 0 vs before", p_new, p_old,
                    rng, {e: sympy.Integer(0) for e in el}, npoints=2)
        # formula: P_new(eta) = P_old(T(eta))
        pt = U.gen_point(rng, [p_old, p_new], lo=1, hi=9)
        sub = {}
        for i, e in enumerate(el, 1):
            pt[S(e)] = Rational(rng.randint(-5, 5), rng.randint(2, 4))
            th = pt.get(S(f"{pre[1]}{i}"), Rational(rng.randint(3, 9), 2))
            pt[S(f"{pre[1]}{i}")] = th
            sub[S(e)] = doc_trans(kind, pt[S(e)], th)
        pt_old = dict(pt)
        pt_old.update(sub)
        vo, vn = U.value_at(p_old, pt_old), U.value_at(p_new, pt)
        if vo is not None and not U.same_value(vn, vo, TOL):
            mon.append({"cls": "etatrans-formula", "what": f"{P} after transform_etas_{kind} is {vn}, documented transformation "
                        f"applied to the old model gives {vo}"})
    return True


def error_base(name, ids):
    m = pheno(ids)
    if name == "pheno":
        return m
    m0 = pm.remove_error_model(m)
    if name == "noerr":
        return m0
    if name == "add":
        return pm.set_additive_error_model(m0)
    if name == "comb":
        return pm.set_combined_error_model(m0)
    if name == "prop":
        return pm.set_proportional_error_model(m0)
    raise AssertionError(name)


def y_of(model):
    return full(model, "Y", "after")


def eps_in(model, y):
    return [n for n in model.random_variables.epsilons.names if S(n) in y.free_symbols]


def run_error(case, drv, rng, k, mon, tags):
    base, setter, log, zp = case["base"], case["setter"], case["log"], case["zp"]
    m = error_base(base, case["ids"])
    tags += [f"error:{setter}", f"errbase:{base}"]
    y_old = y_of(m)
    eps_old = eps_in(m, y_old)
    f_old = y_old.xreplace({S(e): sympy.Integer(0) for e in eps_old})
    Fs = full(m, "F", "after")
    kw = {}
    if setter in ("additive", "proportional", "combined"):
        if log:
            kw["data_trans"] = "log(Y)"
            tags.append("data_trans:log")
        if setter == "proportional":
            kw["zero_protection"] = zp
    try:
        if setter == "additive":
            m2 = pm.set_additive_error_model(m, **kw)
        elif setter == "proportional":
            m2 = pm.set_proportional_error_model(m, **kw)
        elif setter == "combined":
            m2 = pm.set_combined_error_model(m, **kw)
        elif setter == "power":
            m2 = pm.set_power_on_ruv(m, zero_protection=zp)
        elif setter == "weighted":
            m2 = pm.set_weighted_error_model(m)
        elif setter == "dtbs":
            m2 = pm.set_dtbs_error_model(m)
        elif setter == "time_varying":
            m2 = pm.set_time_varying_error_model(m, cutoff=case["cutoff"])
        elif setter == "iiv_on_ruv":
            m2 = pm.set_iiv_on_ruv(m)
        else:
            raise AssertionError(setter)
    except Exception as e:
        if base == "noerr" and setter in ("power", "weighted", "dtbs", "time_varying", "iiv_on_ruv"):
            tags.append("refused:no-epsilon")       # nothing to transform in a model without an error model
            return False
        cls = "error-internal-error"
        if setter == "dtbs" and m.statements.find_assignment("IPREDADJ") is not None:
            cls = "error-use-thetas-on-zero-protected-internal-error"
        mon.append({"cls": cls, "what": f"{setter} on {base} ({kw}) raised {type(e).__name__}: " + str(e).split(chr(10))[0]})
        return False
    y_new = y_of(m2)
    eps_new = eps_in(m2, y_new)
    changed = m2.statements != m.statements
    # ------------------------------------------------ named error models
    if setter in ("additive", "proportional", "combined"):
        want_n = {"additive": 1, "proportional": 1, "combined": 2}[setter]
        already = (setter == "additive" and pm.has_additive_error_model(m)) or \
                  (setter == "proportional" and pm.has_proportional_error_model(m)) or \
                  (setter == "combined" and pm.has_combined_error_model(m))
        if already:
            tags.append("already-that-error-model")
        # K on the right-hand side of Y (and the guard)
        if drv is not None and changed:
            yst = m2.statements.find_assignment("Y")
            kind = setter + ("-log" if log else "") + ("-zp" if setter == "proportional" and zp else "")
            # the names of the new epsilons are chosen by create_symbol (fresh w.r.t. the model): take them from the result
            fresh = [n for n in m2.random_variables.epsilons.names if n not in m.random_variables.epsilons.names]
            e1 = next((n for n in fresh if n.startswith("epsilon_p" if setter != "additive" else "epsilon_a")), "epsilon_p")
            e2 = next((n for n in fresh if n.startswith("epsilon_a")), "epsilon_a")
            ans = drv.ask(["errory", kind, U.wire(m.statements.find_assignment("Y").expression.subs({e: 0 for e in eps_old})), "IPREDADJ", e1, e2])
            if setter == "additive" and log:
                tags.append("k-skipped:series-expansion")    # additive/log is a sympy series expansion, not a literal template
            else:
                cmp_expr(f"Y of set_{setter}_error_model({kw})", ans, U.norm(yst.expression), rng, k)
            g = m2.statements.find_assignment("IPREDADJ")
            if g is not None:
                ans = drv.ask(["guard", U.wire(m.statements.find_assignment("Y").expression.subs({e: 0 for e in eps_old}))])
                cmp_expr("IPREDADJ guard", ans, U.norm(g.expression), rng, k)
        # Mon: documented dependence on f and on each epsilon
        ok = len(eps_new) == want_n
        if ok:
            for _ in range(3):
                pt = U.gen_point(rng, [y_new, f_old], lo=1, hi=9)
                for e in eps_new:
                    pt[S(e)] = Rational(rng.randint(-5, 5), rng.randint(2, 7))
                f = U.value_at(f_old, pt)
                vy = U.value_at(y_new, pt)
                if f is None or f == 0:
                    continue
                ev = [pt[S(e)] for e in eps_new]
                cands = []
                if setter == "additive":
                    cands = [sympy.log(f) + ev[0] / f] if log else [f + ev[0]]
                elif setter == "proportional":
                    cands = [sympy.log(f) + ev[0]] if log else [f + f * ev[0]]
                else:
                    for a, b in ((ev[0], ev[1]), (ev[1], ev[0])):
                        cands.append(sympy.log(f) + a + b / f if log else f + f * a + b)
                if not any(U.same_value(vy, c, TOL) for c in cands):
                    ok = False
                    break
        if not ok:
            cls = f"error-{setter}-shape"
            if already and log:
                cls = "error-setter-noop-ignores-data-trans"
            mon.append({"cls": cls, "what": f"set_{setter}_error_model({kw}) on base '{base}': Y = {y_new} is not the documented "
                        f"{'log-transformed ' if log else ''}{setter} function of f = {f_old} and {want_n} epsilon(s)"})
        # remove restores (natural scale)
        if not log and ok:
            try:
                m3 = pm.remove_error_model(m2)
                check_equal(mon, "error-remove-not-restoring", f"Y after remove_error_model(set_{setter}) vs the prediction", y_of(m3),
                            f_old, rng, npoints=2)
            except Exception as e:
                mon.append({"cls": "error-remove-internal-error", "what": f"remove_error_model raised {type(e).__name__}: {e}"})
        return changed
    # ------------------------------------------------ modifiers of an existing error model
    if not eps_old:
        tags.append("no-epsilon-in-base")
        return False
    if setter == "power":
        new_thetas = sorted([n for n in m2.parameters.names if n not in m.parameters.names], key=U.natural_key)
        if drv is not None and len(new_thetas) == len(eps_old):
            yst = U.norm(m2.statements.find_assignment("Y").expression)
            tot = U.norm(m.statements.find_assignment("Y").expression).xreplace({S(e): 0 for e in eps_old})
            # the code raises the zero-protected prediction to the power when the model has one
            ip = "IPREDADJ" if m.statements.find_assignment("IPREDADJ") is not None else "F"
            for th, e in zip(new_thetas, eps_old):
                tot = tot + U.from_wire(drv.ask(["power", ip, th, e]))
            ok, wit = U.same_expr(tot, yst, rng)
            if not ok:
                k.append(f"set_power_on_ruv on {base}: model {tot} code {yst} differ at {wit}")
        # Mon: every epsilon enters as f**theta * eps
        for _ in range(2):
            pt = U.gen_point(rng, [y_new, y_old], lo=1, hi=9)
            for th in new_thetas:
                pt[S(th)] = Rational(rng.randint(1, 5), 2)
            f = U.value_at(f_old, pt)
            if f is None or len(new_thetas) != len(eps_old):
                mon.append({"cls": "error-power-shape", "what": f"set_power_on_ruv on {base}: {len(new_thetas)} thetas for {len(eps_old)} epsilons"})
                break
            want = f + sum(f ** pt[S(th)] * pt[S(e)] for th, e in zip(new_thetas, eps_old))
            if not U.same_value(U.value_at(y_new, pt), want, TOL):
                mon.append({"cls": "error-power-shape", "what": f"set_power_on_ruv on {base}: Y = {y_new}; at a seeded point "
                            f"{U.value_at(y_new, pt)} vs documented f + sum f**theta*eps = {want}"})
                break
        return changed
    if setter == "weighted":
        # Y = f + W*eps with W**2 = sum of squared epsilon coefficients
        e0 = eps_in(m2, y_new)
        for _ in range(2):
            pt = U.gen_point(rng, [y_new, y_old], lo=1, hi=9)
            f = U.value_at(f_old, pt)
            if f is None or len(e0) != 1:
                mon.append({"cls": "error-weighted-shape", "what": f"weighted model has epsilons {e0}"})
                break
            coef2 = 0
            for e in eps_old:
                p1 = dict(pt)
                for e_ in eps_old:
                    p1[S(e_)] = sympy.Integer(1 if e_ == e else 0)
                coef2 += (U.value_at(y_old, p1) - f) ** 2
            p1 = dict(pt)
            p1[S(e0[0])] = sympy.Integer(1)
            w = U.value_at(y_new, p1) - f
            if not U.same_value(sympy.simplify(w**2), sympy.simplify(coef2), TOL) or not U.same_value(U.value_at(y_new, {**pt, S(e0[0]): sympy.Integer(0)}), f, TOL):
                mon.append({"cls": "error-weighted-shape", "what": f"set_weighted_error_model on {base}: W**2 = {w**2}, sum of squared "
                            f"epsilon coefficients {coef2}"})
                break
        return changed
    if setter == "dtbs":
        if drv is not None:
            ipred = m2.statements.find_assignment("IPRED")
            ws = [s for s in m2.statements.after_odes if str(getattr(s, "symbol", "")) == "W"]
            ans = drv.ask(["dtbs", "F", "tbs_lambda", "tbs_zeta"])
            if ipred is None or len(ws) < 2:
                k.append("set_dtbs_error_model: no IPRED / W statements")
            else:
                cmp_expr("dtbs IPRED", ans[0], U.norm(ipred.expression), rng, k)
                cmp_expr("dtbs W", ans[1], U.norm(ws[-1].expression), rng, k)
        return changed
    if setter == "time_varying":
        cut = U.rat(case["cutoff"])
        tv = [n for n in m2.parameters.names if n not in m.parameters.names]
        for tval, scaled in ((cut - 1, True), (cut + 1, False), (cut, False)):
            pt = U.gen_point(rng, [y_new, y_old], {"TIME": tval}, lo=1, hi=9)
            for e in eps_old:
                pt[S(e)] = Rational(rng.randint(-5, 5), 3)
            th = pt.get(S(tv[0]), Rational(3, 7)) if tv else 1
            if tv:
                pt[S(tv[0])] = th
            po = dict(pt)
            if scaled:
                for e in eps_old:
                    po[S(e)] = pt[S(e)] * th
            if not U.same_value(U.value_at(y_new, pt), U.value_at(y_old, po), TOL):
                mon.append({"cls": "error-time-varying-shape", "what": f"set_time_varying_error_model(cutoff={cut}) on {base} at TIME={tval}: "
                            f"{U.value_at(y_new, pt)} vs {U.value_at(y_old, po)}"})
                break
        return changed
    if setter == "iiv_on_ruv":
        new_etas = [n for n in m2.random_variables.names if n not in m.random_variables.names]
        check_equal(mon, "error-iiv-on-ruv-not-neutral-at-eta-zero", f"Y after set_iiv_on_ruv at eta 0 vs before on {base}", y_new, y_old, rng,
                    {n: sympy.Integer(0) for n in new_etas}, npoints=2)
        pt = U.gen_point(rng, [y_new, y_old], lo=1, hi=9)
        for n in new_etas:
            pt[S(n)] = Rational(rng.randint(-3, 3), 2)
        po = dict(pt)
        for e in eps_old:
            po[S(e)] = pt[S(e)] * sympy.exp(pt[S(new_etas[0])]) if new_etas else pt[S(e)]
        if not U.same_value(U.value_at(y_new, pt), U.value_at(y_old, po), TOL):
            mon.append({"cls": "error-iiv-on-ruv-shape", "what": f"set_iiv_on_ruv on {base}: {U.value_at(y_new, pt)} vs eps*exp(eta): {U.value_at(y_old, po)}"})
        return changed
    return changed


def run_allometry(case, drv, rng, k, mon, tags):
    m = pheno(case["ids"])
    var, ref, params = case["var"], case["ref"], case["params"]
    if case["nocov"]:
        m = pm.remove_covariate_effect(pm.remove_covariate_effect(m, "CL", "WGT"), "V", "WGT")
        tags.append("allometry:wgt-effects-removed")
    tags += [f"allometry:{var}"]
    try:
        m2 = pm.add_allometry(m, allometric_variable=var, reference_value=ref, parameters=params)
    except Exception as e:
        mon.append({"cls": "allometry-internal-error", "what": f"add_allometry({var},{ref},{params}) raised {type(e).__name__}: {e}"})
        return False
    plist = params if params is not None else ["CL", "VC"]
    touched = [p for p in plist if not pm.has_covariate_effect(m, p, var)]
    if drv is not None:
        w = U.stmts_wire(m.statements)
        for p in touched:
            w = drv.ask(["allometry", w, p, var, U.wire_num(ref), f"ALLO_{p}"])
        cmp_stmts(f"add_allometry({var},{ref},{params})", w, U.stmts_wire(m2.statements), rng, k)
    refr = U.rat(ref)
    for P in PARAMS:
        p_old, p_new = full(m, P), full(m2, P)
        check_equal(mon, "allometry-not-neutral-at-reference", f"{P} after add_allometry at {var}={ref} vs before", p_new, p_old, rng,
                    {var: refr}, npoints=2)
        if P in touched:
            pt = U.gen_point(rng, [p_old, p_new], lo=1, hi=9)
            th = Rational(rng.randint(1, 5), 4)
            pt[S(f"ALLO_{P}")] = th
            vo, vn = U.value_at(p_old, pt), U.value_at(p_new, pt)
            if vo is not None and not U.same_value(vn, vo * (pt[S(var)] / refr) ** th, TOL):
                mon.append({"cls": "allometry-formula", "what": f"{P} after add_allometry is {vn}, documented P*(X/Z)**T = "
                            f"{vo * (pt[S(var)] / refr) ** th}"})
        else:
            check_equal(mon, "allometry-changed-untouched", f"{P} (not scaled) after add_allometry vs before", p_new, p_old, rng, npoints=1)
    return bool(touched)


def chain_of(model):
    """transit chain by compartment name (TRANSIT1..k, independent of pharmpy's transit detection):
    [(compartment name, numerator, denominator, rate expression with K-symbols resolved one level)]"""
    cs = model.statements.ode_system
    out = []
    i = 1
    while cs.find_compartment(f"TRANSIT{i}") is not None:
        c = cs.find_compartment(f"TRANSIT{i}")
        _, rate = cs.get_compartment_outflows(c)[0]
        e = U.norm(rate)
        for _ in range(3):      # K12 = 5/MDT, KA = K12
            if e.is_Symbol and model.statements.find_assignment(str(e)) is not None and str(e) not in ("MDT", "MAT"):
                e = U.norm(model.statements.find_assignment(str(e)).expression)
        num, den = e.as_numer_denom()
        out.append((c.name, num, den, e))
        i += 1
    return out


def run_transit(case, drv, rng, k, mon, tags):
    m = pheno(case["ids"])
    if case["base"] == "fo":
        m = pm.set_first_order_absorption(m)
        ka = U.norm(m.statements.find_assignment("KA").expression)
        if ka != 1 / S("MAT"):
            mon.append({"cls": "absorption-ka-not-1-over-mat", "what": f"set_first_order_absorption: KA = {ka}"})
        if drv is not None:
            t = drv.ask(["tables"])
            cmp_expr("first-order absorption rate", t[4], ka.xreplace({S("MAT"): S("mat_symb")}), rng, k)
    chain = []
    changed = False
    removed_all = False
    for n in case["ns"]:
        tags.append(f"transit:n={n}")
        before = len(chain_of(m))
        try:
            m2 = pm.set_transit_compartments(m, n, keep_depot=case["keep_depot"])
        except ValueError as e:
            if "Cannot set the number of transits to 1" in str(e):
                tags.append("refused:one-transit-instantaneous")
                continue
            cls = "transit-internal-error"
            if removed_all and ("is not defined" in str(e) or "defined after being used" in str(e)):
                cls = "transit-set-after-removing-all-transits-internal-error"
            mon.append({"cls": cls, "what": f"set_transit_compartments({n}) after {before} transits raised ValueError: {e}"})
            return changed
        except Exception as e:
            mon.append({"cls": "transit-internal-error", "what": f"set_transit_compartments({n}) after {before} transits raised "
                        f"{type(e).__name__}: {e}"})
            return changed
        rates = chain_of(m2)
        depot = m2.statements.ode_system.find_compartment("DEPOT") is not None
        if len(rates) != n:
            mon.append({"cls": "transit-count", "what": f"set_transit_compartments({n}) from {before}: model has {len(rates)} TRANSIT compartments"})
            return changed
        if drv is not None:
            ans = drv.ask(["transit", [[a, b] for a, b in chain], n, "MDT", depot])
            model_chain = [(int(a), b) for a, b, _ in ans]
            if not all(num.is_Integer and den.is_Symbol for _, num, den, _ in rates):
                k.append(f"set_transit_compartments({n}): a rate is not integer/symbol: {[str(r[3]) for r in rates]}")
            elif [a for a, _ in model_chain] != [int(num) for _, num, _, _ in rates]:
                k.append(f"set_transit_compartments({n}) from {chain} (depot={depot}): model numerators {model_chain} code "
                         f"{[str(r[3]) for r in rates]}")
            chain = model_chain
        # Mon: the mean transit time through n compartments is MDT iff every rate is n/MDT (one and the same MDT symbol)
        dens = {str(den) for _, _, den, _ in rates}
        for name, num, den, e in rates:
            if not (den.is_Symbol and num == n and len(dens) == 1):
                cls = "transit-rate-not-n-over-mdt"
                if n == 1 and not depot and before > 1:
                    cls = "transit-single-remaining-rate-not-updated"
                mon.append({"cls": cls, "what": f"set_transit_compartments({n}) (from {before}, depot={depot}): rate out of {name} is {e}, "
                            f"documented {n}/MDT"})
                break
        changed = changed or before != n
        removed_all = removed_all or (n == 0 and before > 0)
        m = m2
        if n == 1 and not depot:
            tags.append("history-stopped:single-transit-without-depot-is-not-detected")
            break
    return changed


RUNNERS = {"coveff": run_coveff, "iiv": run_iiv, "iov": run_iov, "etatrans": run_etatrans, "error": run_error,
           "allometry": run_allometry, "transit": run_transit}


def run_case(case, drv):
    rng = random.Random(case["seed"])
    k, mon, tags = [], [], [f"kind:{case['kind']}", "subset" if case.get("ids") else "full-data"]
    nontrivial = RUNNERS[case["kind"]](case, drv, rng, k, mon, tags)
    return {"k": k, "mon": mon, "tags": tags, "nontrivial": bool(nontrivial)}
