"""C09 — Model extensions implement documented formulas; neutral at reference.

T8  : harness/translate/c09_templates.py regenerates lean/PharmpyModel/Generated/Templates.lean from the
      literal templates in covariate_effect.py / parameter_variability.py / error.py / allometry.py / odes.py.
K   : the statements the real setter writes vs the Lean model's statement-level edit instantiating the
      T8 templates (driver drv_c09), compared expression by expression at seeded rational points.
Mon : the property on the real code: eval(ext(M))(x) == documented_formula(eval(M))(x) at seeded points
      (formulas re-written here from the docstrings, statistics recomputed from the data rows in pure Python),
      equality with M at the reference value / eta = 0 / reference weight, remove(ext(M)) ~ M.
"""
from __future__ import annotations

import os
import random
import warnings

ID = "C09"
DRIVER = "drv_c09"
LEAN_TARGETS = ["PharmpyProofs.C09.Properties", "drv_c09"]
PROPERTIES = ["PharmpyProofs/C09/Properties.lean"]
LEAN_SOURCES = ["PharmpyModel/C09/*.lean", "PharmpyModel/Generated/Templates.lean", "PharmpyProofs/C09/*.lean",
                "Drivers/C09.lean"]
TIME_LIMIT = {"quick": 900, "thorough": 3000}
CASE_CPU_LIMIT = 60
LEANCHECKER = True
RULE = ("extension calls on load_example_model('pheno') and models derived from it by real pharmpy calls (IIV removed, "
        "covariate effects removed, first-order absorption, error model removed/additive/combined), on the full "
        "dataset or a seeded subset of individuals (so medians, category sets and most common categories vary): "
        "add_covariate_effect (parameter x covariate x 6 effects x 2 operations, also nested on an earlier effect), "
        "add_iiv (5 forms x 2 operations x 5 parameters), add_iov (3 occasion columns x parameter sets x 3 "
        "distributions), transform_etas_boxcox/tdist/john_draper, set_additive/proportional/combined_error_model "
        "(x data_trans, zero_protection), set_power_on_ruv, set_weighted/dtbs/time_varying_error_model, "
        "set_iiv_on_ruv, set_combined_error_model after set_iiv_on_ruv / set_time_varying_error_model sequences (either order), add_allometry, set_transit_compartments histories, absorption setters. "
        "non-trivial = the call changed the model; distinct = distinct case JSON")
TRUSTED = [
    "Lean 4.33 kernel; axioms propext, Quot.sound, Classical.choice only (audited per theorem each run)",
    "translator T8 harness/translate/c09_templates.py (closed list of Python AST shapes, refuses anything else); what it "
    "extracts is printed in lean/PharmpyModel/Generated/Templates.lean",
    "hand-written statement-level model PharmpyModel/C09/Model.lean tied to the setters by the correspondence run",
    "sympy/symengine: canonicalisation, subs, piecewise folding and exact/40-digit evaluation preserve values",
    "harness/corr/c09.py + c09_util.py (generator, documented-formula table, pure-Python dataset statistics)",
]
ASSUMPTIONS = [
    "expressions are compared by exact evaluation at seeded rational points (40-digit evaluation where exp/log/non-integer "
    "powers make the value irrational), chosen to hit every kind of piecewise branch; not by printed form",
    "theorems are over Rat with exp/log/pow/sign/Abs as parameters and the laws exp 0 = 1, pow 1 t = 1, sign 0 = 0 as hypotheses",
    "initial estimates and bounds of the new parameters are outside the property (see notes/C09.md for what was observed)",
    "the ODE system is abstracted to (amounts, rhs symbols); transit chains to their (numerator, MDT symbol) rates",
]

TOL = 1e-10   # monitors compare full expressions in which symengine has folded float literals
PARAMS = ["CL", "VC"]
COVS = ["WGT", "APGR", "FA1", "FA2"]
EFFECTS = ["lin", "cat", "cat2", "piece_lin", "exp", "pow"]
FORMS = ["add", "prop", "exp", "log", "re_log"]
# bases of the residual-error modifiers: name -> epsilons of the model in model order
RUV_BASES = ["pheno", "add", "comb", "prop", "twodv", "twodv-comb", "comb-upper"]
RUV_EPS = {"pheno": ["EPS_1"], "add": ["epsilon_a"], "comb": ["epsilon_p", "epsilon_a"], "prop": ["epsilon_p"],
           "twodv": ["EPS_1", "epsilon_p"], "twodv-comb": ["epsilon_p", "epsilon_a", "epsilon_p1"],
           "comb-upper": ["EPS_P", "EPS_A"]}


def budget(tier):
    return int(os.environ.get("VERIF_BUDGET", 0)) or {"quick": 600, "thorough": 6000}[tier]


def translators():
    from harness.translate import c09_templates
    return [("T8-templates", c09_templates.regenerate)]


# ---------------------------------------------------------------- generation

def _ids(rng):
    if rng.random() < 0.35:
        return None
    k = rng.randint(8, 45)
    return sorted(rng.sample(range(1, 60), k))


STMT_KINDS = ["add-const", "mul-const", "add-sym", "mul-sym", "piecewise", "fresh-then-combine"]


def gen_hist(rng, targets, pnone=0.45, maxlen=3, avoid_cov=None, exclude=()):
    """A history of earlier re-assignments of the symbols the extension will act on: covariate effects with either
    operation and direct re-assignments (additive, multiplicative, piecewise, via an intermediate symbol)."""
    if rng.random() < pnone:
        return []
    out = []
    for _ in range(rng.randint(1, maxlen)):
        t = rng.choice(targets)
        if t in PARAMS and rng.random() < 0.5:
            step = ["cov", t, rng.choice([c for c in COVS if c != avoid_cov]), rng.choice(EFFECTS), rng.choice(["*", "+", "+"])]
        else:
            step = ["stmt", t, rng.choice([k for k in STMT_KINDS if k not in exclude])]
        # the same re-assignment twice would give two *identical* statements (add_covariate_effect locates its insertion
        # point with list.index(), i.e. at the first of two equal statements: noted in notes/C09.md, not generated)
        if step[:3] not in [o[:3] for o in out]:
            out.append(step)
    return out


def gen_case(rng: random.Random):
    c = _gen_case(rng)
    k = c["kind"]
    if k == "coveff":
        c["hist"] = gen_hist(rng, [c["param"]], avoid_cov=c["cov"])
        if c.get("first"):      # ... nor the covariate of the earlier nested effect (same reuse of the names P<COV>)
            c["hist"] = [h for h in c["hist"] if not (h[0] == "cov" and h[2] == c["first"][0])]
    elif k == "iiv":
        # (add_iiv substitutes the old right-hand side into the template; NONMEM code cannot hold a piecewise inside it)
        c["hist"] = gen_hist(rng, [c["param"]], exclude=("piecewise",))
    elif k in ("iov", "etatrans"):
        c["hist"] = gen_hist(rng, PARAMS)
    elif k == "allometry":
        c["hist"] = gen_hist(rng, c["params"] or PARAMS, pnone=0.25)
    elif k == "error":
        c["hist"] = gen_hist(rng, ["F"], pnone=0.6, maxlen=2, exclude=("piecewise",))   # has_proportional_error_model takes any piecewise for IPREDADJ (AttributeError), see notes
    return c


def _gen_case(rng: random.Random):
    r = rng.random()
    c = {"ids": _ids(rng), "seed": rng.randrange(1 << 30)}
    if r < 0.30:
        c.update(kind="coveff", param=rng.choice(PARAMS), cov=rng.choice(COVS), effect=rng.choice(EFFECTS),
                 op=rng.choice(["*", "*", "+"]), first=None)
        if rng.random() < 0.3:
            c["first"] = [rng.choice(COVS), rng.choice(EFFECTS), rng.choice(["*", "+"])]
    elif r < 0.44:
        c.update(kind="iiv", param=rng.choice(["CL", "VC", "S1", "V", "TVCL"]), form=rng.choice(FORMS),
                 op=rng.choice(["*", "+"]))
    elif r < 0.54:
        ps = rng.choice([["CL"], ["VC"], ["CL", "VC"], ["VC", "CL"], None])
        c.update(kind="iov", occ=rng.choice(["FA1", "FA2", "APGR"]), params=ps,
                 dist=rng.choice(["disjoint", "joint", "same-as-iiv"]), second=rng.choice([None, None, "FA1", "FA2", "APGR"]))
    elif r < 0.61:
        c.update(kind="etatrans", trans=rng.choice(["boxcox", "tdist", "johndraper"]),
                 etas=rng.choice([["ETA_CL"], ["ETA_VC"], ["ETA_CL", "ETA_VC"], ["ETA_VC", "ETA_CL"], None]))
    elif r < 0.63:
        c.update(kind="errordv", setter=rng.choice(["additive", "proportional", "combined"]), how=rng.choice(["dvid", "name"]),
                 zp=rng.random() < 0.5)
    elif r < 0.71:
        c.update(kind="error", base=rng.choice(["pheno", "noerr", "add", "comb", "prop"]),
                 setter=rng.choice(["additive", "proportional", "combined", "dtbs"]),
                 log=rng.random() < 0.35, zp=rng.random() < 0.6, cutoff=1)
    elif r < 0.765:
        # a named setter on top of the residual-error modifiers of the same DV (sequences of extensions)
        c.update(kind="errseq", base=rng.choice(["pheno", "prop", "pheno", "prop", "add", "comb"]),
                 mods=rng.choice([["iiv_on_ruv"], ["time_varying"], ["iiv_on_ruv", "time_varying"], ["iiv_on_ruv", "time_varying"],
                                  ["time_varying", "iiv_on_ruv"], ["time_varying", "iiv_on_ruv"]]),
                 setter="combined", dv=rng.choice([None, None, "name", "dvid"]), cutoff=rng.choice([1, 2.5, 24, 0.5]))
    elif r < 0.90:
        base = rng.choice(RUV_BASES)
        eps = RUV_EPS[base]
        sel = rng.choice([None, None, [rng.choice(eps)], list(eps), list(reversed(eps))])
        c.update(kind="ruvmod", base=base, fn=rng.choice(["iiv_on_ruv", "iiv_on_ruv", "power", "time_varying", "weighted"]),
                 dv=rng.choice([None, None, "name", "dvid", "name2", "dvid2"]), list_of_eps=sel,
                 same_eta=rng.random() < 0.5, eta_names=rng.random() < 0.2, zp=rng.random() < 0.3,
                 lower_limit=rng.choice([0.01, None]), cutoff=rng.choice([1, 2.5, 24]))
    elif r < 0.95:
        c.update(kind="allometry", var=rng.choice(["WGT", "APGR"]), ref=rng.choice([70, 7, 3, 2.5, 0.5]),
                 params=rng.choice([None, ["CL"], ["VC"], ["CL", "VC"]]), nocov=rng.random() < 0.7)
    else:
        c.update(kind="transit", base=rng.choice(["pheno", "fo"]),
                 ns=[rng.choice([0, 1, 2, 3, 4, 5, 7]) for _ in range(rng.randint(1, 3))],
                 keep_depot=rng.random() < 0.7)
    return c


def gen_cases(rng, n, tier):
    return [gen_case(rng) for _ in range(n)]


def corpus_cases():
    return [
        # '+' operation: the effect is 1, not 0, at the reference
        {"kind": "coveff", "ids": None, "seed": 1, "param": "CL", "cov": "APGR", "effect": "lin", "op": "+", "first": None},
        {"kind": "coveff", "ids": None, "seed": 2, "param": "CL", "cov": "WGT", "effect": "pow", "op": "*", "first": None},
        {"kind": "coveff", "ids": None, "seed": 3, "param": "VC", "cov": "APGR", "effect": "cat", "op": "*",
         "first": ["WGT", "exp", "*"]},
        # logit forms are not neutral at eta = 0
        {"kind": "iiv", "ids": None, "seed": 4, "param": "CL", "form": "log", "op": "*"},
        {"kind": "iiv", "ids": None, "seed": 5, "param": "CL", "form": "re_log", "op": "*"},
        {"kind": "iiv", "ids": None, "seed": 6, "param": "CL", "form": "exp", "op": "+"},
        {"kind": "iov", "ids": None, "seed": 7, "occ": "FA1", "params": ["CL", "VC"], "dist": "joint"},
        {"kind": "etatrans", "ids": None, "seed": 8, "trans": "tdist", "etas": None},
        # setter is a no-op on a model that already has the error model, even when another data_trans is requested
        {"kind": "error", "ids": None, "seed": 9, "base": "pheno", "setter": "proportional", "log": True, "zp": True, "cutoff": 1},
        {"kind": "error", "ids": None, "seed": 10, "base": "noerr", "setter": "combined", "log": False, "zp": True, "cutoff": 1},
        # set_iiv_on_ruv with dv= on a DV with two epsilons: every epsilon must be scaled
        {"kind": "ruvmod", "ids": None, "seed": 18, "base": "comb", "fn": "iiv_on_ruv", "dv": "name", "list_of_eps": None,
         "same_eta": True, "eta_names": False, "zp": False, "lower_limit": 0.01, "cutoff": 1},
        {"kind": "ruvmod", "ids": None, "seed": 19, "base": "twodv-comb", "fn": "iiv_on_ruv", "dv": "dvid2", "list_of_eps": None,
         "same_eta": False, "eta_names": False, "zp": False, "lower_limit": 0.01, "cutoff": 1},
        # list_of_eps with a lower-case epsilon name is silently ignored
        {"kind": "ruvmod", "ids": None, "seed": 20, "base": "comb", "fn": "iiv_on_ruv", "dv": None, "list_of_eps": ["epsilon_a"],
         "same_eta": True, "eta_names": False, "zp": False, "lower_limit": 0.01, "cutoff": 1},
        {"kind": "ruvmod", "ids": None, "seed": 21, "base": "comb-upper", "fn": "power", "dv": "name", "list_of_eps": ["EPS_A"],
         "same_eta": True, "eta_names": False, "zp": False, "lower_limit": None, "cutoff": 1},
        {"kind": "ruvmod", "ids": None, "seed": 22, "base": "twodv", "fn": "time_varying", "dv": "dvid2", "list_of_eps": None,
         "same_eta": True, "eta_names": False, "zp": False, "lower_limit": 0.01, "cutoff": 2.5},
        # set_combined_error_model after BOTH modifiers (either order): the additive epsilon carries exp(eta) after the cutoff too
        {"kind": "errseq", "ids": None, "seed": 29, "base": "pheno", "mods": ["iiv_on_ruv", "time_varying"], "setter": "combined",
         "dv": None, "cutoff": 1},
        {"kind": "errseq", "ids": None, "seed": 30, "base": "prop", "mods": ["time_varying", "iiv_on_ruv"], "setter": "combined",
         "dv": "name", "cutoff": 2.5},
        {"kind": "errseq", "ids": None, "seed": 31, "base": "pheno", "mods": ["time_varying"], "setter": "combined", "dv": None, "cutoff": 24},
        {"kind": "errseq", "ids": None, "seed": 32, "base": "add", "mods": ["iiv_on_ruv"], "setter": "combined", "dv": "dvid", "cutoff": 1},
        # ... on a time-varying model whose epsilon is not proportional every old epsilon becomes epsilon_p WITHOUT the factor f
        {"kind": "errseq", "ids": None, "seed": 33, "base": "add", "mods": ["time_varying"], "setter": "combined", "dv": None, "cutoff": 1},
        {"kind": "errordv", "ids": None, "seed": 23, "setter": "combined", "how": "dvid", "zp": True},
        {"kind": "errordv", "ids": None, "seed": 24, "setter": "additive", "how": "name", "zp": True},
        {"kind": "allometry", "ids": None, "seed": 11, "var": "WGT", "ref": 70, "params": None, "nocov": True},
        # extensions applied after histories that re-assign the target: they must act on the FINAL value of the parameter
        {"kind": "allometry", "ids": None, "seed": 25, "var": "WGT", "ref": 70, "params": ["CL"], "nocov": True,
         "hist": [["cov", "CL", "APGR", "lin", "+"]]},
        {"kind": "allometry", "ids": None, "seed": 26, "var": "APGR", "ref": 7, "params": ["CL", "VC"], "nocov": False,
         "hist": [["stmt", "VC", "piecewise"], ["stmt", "CL", "fresh-then-combine"]]},
        {"kind": "iiv", "ids": None, "seed": 27, "param": "CL", "form": "prop", "op": "*", "hist": [["stmt", "CL", "add-sym"]]},
        {"kind": "coveff", "ids": None, "seed": 28, "param": "VC", "cov": "WGT", "effect": "exp", "op": "*", "first": None,
         "hist": [["stmt", "VC", "add-const"], ["cov", "VC", "FA1", "lin", "+"]]},
        {"kind": "transit", "ids": None, "seed": 12, "base": "pheno", "ns": [2, 4, 3], "keep_depot": True},
        {"kind": "transit", "ids": None, "seed": 13, "base": "fo", "ns": [3, 1], "keep_depot": True},
        # reducing to a single transit without depot leaves the rate 5/MDT
        {"kind": "transit", "ids": None, "seed": 14, "base": "pheno", "ns": [5, 1], "keep_depot": True},
        # after all transits were removed the next call raises
        {"kind": "transit", "ids": None, "seed": 15, "base": "pheno", "ns": [4, 0, 3], "keep_depot": False},
        {"kind": "iiv", "ids": None, "seed": 16, "param": "TVCL", "form": "re_log", "op": "*"},
        {"kind": "error", "ids": None, "seed": 17, "base": "prop", "setter": "dtbs", "log": False, "zp": True, "cutoff": 1},
    ]


def shrink(case):
    if case.get("ids"):
        c = dict(case)
        c["ids"] = None
        yield c
    if case.get("first"):
        c = dict(case)
        c["first"] = None
        yield c
    h = case.get("hist") or []
    for i in range(len(h)):
        c = dict(case)
        c["hist"] = h[:i] + h[i + 1:]
        yield c
    if case.get("kind") == "errseq" and len(case["mods"]) > 1:
        for i in range(len(case["mods"])):
            c = dict(case)
            c["mods"] = case["mods"][:i] + case["mods"][i + 1:]
            yield c
    if case.get("kind") == "transit" and len(case["ns"]) > 1:
        for i in range(len(case["ns"])):
            c = dict(case)
            c["ns"] = case["ns"][:i] + case["ns"][i + 1:]
            yield c


# ---------------------------------------------------------------- real-code side

_CACHE = {}


def worker_init():
    global sympy, pm, U, exprconv, Rational
    warnings.filterwarnings("ignore")
    import sympy  # noqa
    from sympy import Rational  # noqa
    import pharmpy.modeling as pm  # noqa
    from harness.common import exprconv  # noqa
    from harness.corr import c09_util as U  # noqa


def pheno(ids):
    if "pheno" not in _CACHE:
        _CACHE["pheno"] = pm.load_example_model("pheno")
    m = _CACHE["pheno"]
    if ids is not None:
        df = m.dataset
        m = m.replace(dataset=df[df["ID"].isin(ids)].reset_index(drop=True))
    return m


def S(name):
    return sympy.Symbol(name)


def apply_history(m, hist, tags):
    """Earlier re-assignments of the target symbols, made with real pharmpy calls / by inserting statements right after
    the current last assignment of the symbol (what a user editing the model code does)."""
    from pharmpy.basic import Expr
    from pharmpy.model import Assignment
    for step in hist or []:
        try:
            if step[0] == "cov":
                _, P, cov, eff, op = step
                m = pm.add_covariate_effect(m, P, cov, eff, op, allow_nested=True)
                tags.append(f"hist:cov{op}")
            else:
                _, T, kind = step
                sset = m.statements
                idx = sset.find_assignment_index(T)
                if idx is None:
                    tags.append("hist:no-such-symbol")
                    continue
                t = Expr.symbol(T)
                aux = Expr.symbol(f"H{T}{len(sset)}")
                new = {
                    "add-const": [Assignment.create(t, t + Expr(3) / Expr(2))],
                    "mul-const": [Assignment.create(t, t * 2)],
                    "add-sym": [Assignment.create(t, t + Expr.symbol("FA2") + 1)],
                    "mul-sym": [Assignment.create(t, t * (Expr.symbol("FA1") + 2))],
                    "piecewise": [Assignment.create(t, Expr.piecewise((t + 2, sympy.Gt(sympy.Symbol("FA2"), 0)), (t * 3, True)))],
                    "fresh-then-combine": [Assignment.create(aux, t * 2 + 1), Assignment.create(t, aux + t)],
                }[kind]
                for j, st in enumerate(new):
                    sset = sset[0:idx + 1 + j] + st + sset[idx + 1 + j:]
                m = m.replace(statements=sset).update_source()
                tags.append(f"hist:{kind}")
        except Exception as e:      # a step the real code refuses is left out; the extension itself is what is checked
            tags.append(f"hist-step-refused:{step[0]}")
    return m


def full(model, name, part="before"):
    ss = model.statements.before_odes if part == "before" else model.statements.after_odes
    return U.norm(ss.full_expression(name))


def cmp_stmts(label, model_w, code_w, rng, k):
    """K: driver statements vs code statements"""
    if isinstance(model_w, list) and model_w and model_w[0] == "err":
        k.append(f"{label}: model refuses {model_w}, code produced statements")
        return
    if len(model_w) != len(code_w):
        k.append(f"{label}: model has {len(model_w)} statements, code {len(code_w)}: "
                 f"{[s[1] for s in model_w]} vs {[s[1] for s in code_w]}")
        return
    for i, (a, b) in enumerate(zip(model_w, code_w)):
        if a[0] != b[0]:
            k.append(f"{label}: statement {i} kind {a[0]} vs {b[0]}")
            return
        if a[0] == "ode":
            if [list(map(str, x)) for x in a[1:]] != [list(map(str, x)) for x in b[1:]]:
                k.append(f"{label}: ODE abstraction differs: model {a} code {b}")
            continue
        if str(a[1]) != str(b[1]):
            k.append(f"{label}: statement {i} assigns {a[1]} in the model, {b[1]} in the code")
            return
        ea, eb = U.from_wire(a[2]), U.from_wire(b[2])
        ok, wit = U.same_expr(ea, eb, rng)
        if not ok:
            k.append(f"{label}: statement {i} ({a[1]}): model {ea} code {eb} differ at {wit}")
            return


def cmp_expr(label, model_w, code_e, rng, k):
    if isinstance(model_w, list) and model_w and model_w[0] == "err":
        k.append(f"{label}: model refuses {model_w}")
        return
    ea = U.from_wire(model_w)
    ok, wit = U.same_expr(ea, code_e, rng)
    if not ok:
        k.append(f"{label}: model {ea} code {code_e} differ at {wit}")


def check_equal(mon, cls, what, a, b, rng, fixed=None, npoints=4, need_defined=True):
    """Mon helper: a(x) == b(x) at seeded points (with `fixed` symbol values)."""
    hit = 0
    for _ in range(npoints * 3):
        pt = U.gen_point(rng, [a, b], fixed)
        va, vb = U.value_at(a, pt), U.value_at(b, pt)
        if va is None and vb is None:
            continue
        hit += 1
        if not U.same_value(va, vb, TOL):
            mon.append({"cls": cls, "what": f"{what}: {va} vs {vb} at " +
                        str({str(k_): str(v) for k_, v in pt.items()})[:300]})
            return False
        if hit >= npoints:
            break
    return True


# ---- documented formulas (docstrings of the setters), written independently of the code

def doc_effect(kind, thetas, c, med, cats, best):
    if kind == "lin":
        return 1 + thetas[0] * (c - med)
    if kind == "piece_lin":
        return 1 + thetas[0] * (c - med) if c <= med else 1 + thetas[1] * (c - med)
    if kind == "exp":
        return sympy.exp(thetas[0] * (c - med))
    if kind == "pow":
        return (c / med) ** thetas[0]
    if kind in ("cat", "cat2"):
        if c == best:
            return sympy.Integer(1)
        others = [x for x in cats if x != best]
        if c not in others:
            return None
        th = thetas[others.index(c)] if len(others) > 1 else thetas[0]
        return 1 + th if kind == "cat" else th
    raise AssertionError(kind)


def doc_iiv(form, op, theta, eta):
    e = sympy.exp(eta)
    if form == "add":
        return theta + eta
    if form == "prop":
        return theta * (1 + eta)
    if form == "exp":
        return theta * e if op == "*" else theta + e
    if form == "log":
        return theta * e / (e + 1)
    if form == "re_log":
        phi = sympy.log(theta / (1 - theta))
        return sympy.exp(phi * eta) / (1 + sympy.exp(phi * eta))
    raise AssertionError(form)


def doc_trans(kind, eta, th):
    if kind == "boxcox":
        return (sympy.exp(eta) ** th - 1) / th
    if kind == "tdist":
        return eta * (1 + (eta**2 + 1) / (4 * th) + (5 * eta**4 + 16 * eta**2 + 3) / (96 * th**2)
                      + (3 * eta**6 + 19 * eta**4 + 17 * eta**2 - 15) / (384 * th**3))
    if kind == "johndraper":
        return sympy.sign(eta) * ((abs(eta) + 1) ** th - 1) / th
    raise AssertionError(kind)


# ---------------------------------------------------------------- case runners

def run_coveff(case, drv, rng, k, mon, tags):
    m = pheno(case["ids"])
    P, COV, eff, op = case["param"], case["cov"], case["effect"], case["op"]
    if case.get("first"):
        c1, e1, o1 = case["first"]
        if c1 != COV:
            try:
                m = pm.add_covariate_effect(m, P, c1, e1, o1, allow_nested=True)
                tags.append("nested-on-earlier-effect")
            except Exception:
                tags.append("first-effect-refused")
    m = apply_history(m, case.get("hist"), tags)
    rows = U.records(m.dataset, ["ID", COV])
    med = U.ref_median(rows, "ID", COV)
    lo, hi = U.ref_minmax(rows, COV)
    cats, best, has_nan = U.ref_categories(rows, "ID", COV)
    tags += [f"coveff:{eff}", f"op:{op}", f"cov:{COV}", f"ncat={min(len(cats), 12)}"]
    try:
        m2 = pm.add_covariate_effect(m, P, COV, eff, op, allow_nested=True)
    except Exception as e:
        if eff == "piece_lin" and "Median cannot be same as min or max" in str(e) and (med == lo or med == hi):
            tags.append("refused:piece_lin-median-at-extreme")
            return False
        last = m.statements.find_assignment(P)
        cls = "coveff-internal-error"
        if isinstance(e, TypeError) and "unhashable" in str(e) and last is not None and last.expression.is_piecewise():
            cls = "coveff-last-assignment-piecewise-internal-error"
        mon.append({"cls": cls, "what": f"add_covariate_effect({P},{COV},{eff},{op}) with {P} = {last.expression if last else None} raised "
                    f"{type(e).__name__}: {e}"})
        return False
    # ---- K
    if drv is not None:
        others = [["c", U.wire_num(c)] for c in cats if c != best]
        ans = drv.ask(["coveff", U.stmts_wire(m.statements), P, COV, eff, op, U.wire_num(med), U.wire_num(best),
                       others, list(m.datainfo.names)])
        cmp_stmts(f"add_covariate_effect({P},{COV},{eff},{op})", ans, U.stmts_wire(m2.statements), rng, k)
    # ---- Mon
    new_thetas = sorted([n for n in m2.parameters.names if n not in m.parameters.names], key=U.natural_key)
    p_old, p_new = full(m, P), full(m2, P)
    R = U.rat
    medr, bestr, catsr = R(med), R(best), [R(c) for c in cats]
    ref = medr if eff in ("lin", "piece_lin", "exp", "pow") else bestr
    # (c) centring statistic
    if eff in ("lin", "piece_lin", "exp", "pow"):
        st = m2.statements.find_assignment(f"{COV}_MEDIAN")
        if st is None:
            mon.append({"cls": "coveff-wrong-centre", "what": f"no {COV}_MEDIAN statement"})
        else:
            v = float(U.norm(st.expression))
            if abs(v - med) > 1e-12 * max(1.0, abs(med)):
                mon.append({"cls": "coveff-wrong-centre", "what": f"{COV}_MEDIAN = {v}, median over individuals of the "
                            f"per-individual medians is {med}"})
    # (a) documented formula at seeded points
    cov_vals = [ref] + [R(c) for c in rng.sample(cats, min(3, len(cats)))] + [ref + Rational(1, 3)]
    for cv in cov_vals:
        if eff == "pow" and medr == 0:
            break
        pt = U.gen_point(rng, [p_old, p_new], {COV: cv}, lo=1, hi=9)
        for nm in new_thetas:
            pt[S(nm)] = Rational(rng.randint(1, 7), rng.randint(2, 5))
        ths = [pt[S(nm)] for nm in new_thetas]
        try:
            effv = doc_effect(eff, ths, cv, medr, catsr, bestr)
        except IndexError:
            mon.append({"cls": "coveff-theta-count", "what": f"{eff}: {len(new_thetas)} new parameters {new_thetas} for "
                        f"{len(cats)} categories"})
            break
        vo, vn = U.value_at(p_old, pt), U.value_at(p_new, pt)
        if effv is None or vo is None:
            continue
        want = vo * effv if op == "*" else vo + effv
        if not U.same_value(vn, want, TOL):
            mon.append({"cls": "coveff-formula", "what": f"{P} after add_covariate_effect({COV},{eff},{op}) is {vn}, "
                        f"documented {vo} {op} {effv} = {want} at {COV}={cv} thetas={ths}"})
            break
    # (b) neutral at the reference value
    if not (eff == "pow" and medr == 0):
        cls = "coveff-add-not-neutral-at-reference" if op == "+" else "coveff-not-neutral-at-reference"
        check_equal(mon, cls, f"{P} with {eff} effect of {COV} (operation {op}) at the reference value {COV}={ref} vs "
                    f"{P} before", p_new, p_old, rng, {COV: ref}, npoints=2)
    # (d) remove restores
    if case.get("hist"):
        tags.append("remove-skipped:history")       # the remove_* heuristics are exercised on un-reassigned parameters only
    elif not pm.has_covariate_effect(m, P, COV):
        try:
            m3 = pm.remove_covariate_effect(m2, P, COV)
            p_rm = full(m3, P)
            check_equal(mon, "coveff-remove-not-restoring", f"{P} after remove_covariate_effect(add(...{COV},{eff},{op})) vs "
                        f"{P} before", p_rm, p_old, rng, npoints=3)
            tags.append("remove-checked")
        except Exception as e:
            mon.append({"cls": "coveff-remove-internal-error", "what": f"remove_covariate_effect raised {type(e).__name__}: {e}"})
    return True


def run_iiv(case, drv, rng, k, mon, tags):
    m = pheno(case["ids"])
    P, form, op = case["param"], case["form"], case["op"]
    if P in ("CL", "VC"):
        m = pm.remove_iiv(m, P)
    m = apply_history(m, case.get("hist"), tags)
    tags += [f"iiv:{form}", f"op:{op}", f"iivparam:{P}"]
    st = m.statements.find_assignment(P)
    eta = f"ETA_{P}"
    try:
        m2 = pm.add_iiv(m, P, form, op)
    except Exception as e:
        cls = "iiv-internal-error"
        if form == "re_log" and not U.norm(st.expression).is_Symbol:
            cls = "iiv-rescaled-logit-phi-name-internal-error"   # phi_<printed expression> is not a symbol name
        mon.append({"cls": cls, "what": f"add_iiv({P},{form},{op}) with {P} = {st.expression} raised {type(e).__name__}: "
                    + str(e).split(chr(10))[0]})
        return False
    if drv is not None:
        ans = drv.ask(["iiv", U.stmts_wire(m.statements), P, form, op, eta, f"phi_{st.expression}"])
        cmp_stmts(f"add_iiv({P},{form},{op})", ans, U.stmts_wire(m2.statements), rng, k)
    p_old, p_new = full(m, P), full(m2, P)
    # formula
    for _ in range(3):
        pt = U.gen_point(rng, [p_old, p_new], lo=1, hi=9)
        pt[S(eta)] = Rational(rng.randint(-6, 6), rng.randint(2, 5))
        # Θ is the right-hand side of P's assignment; its full expression in M is p_old
        vo, vn = U.value_at(p_old, pt), U.value_at(p_new, pt)
        if vo is None:
            continue
        want = doc_iiv(form, op, vo, pt[S(eta)])
        if want.has(sympy.nan, sympy.zoo, sympy.oo):
            continue        # documented formula undefined at this point (Theta = 1 in the rescaled logit)
        if not U.same_value(vn, want, TOL):
            mon.append({"cls": "iiv-formula", "what": f"{P} after add_iiv({form},{op}) is {vn}, documented {want} "
                        f"(old value {vo}, eta {pt[S(eta)]})"})
            break
    # neutral at eta = 0
    neutral_cls = {"log": "iiv-logit-not-neutral-at-eta-zero", "re_log": "iiv-rescaled-logit-not-neutral-at-eta-zero"}.get(form)
    if form == "exp" and op == "+":
        neutral_cls = "iiv-additive-exp-not-neutral-at-eta-zero"
    check_equal(mon, neutral_cls or "iiv-not-neutral-at-eta-zero", f"{P} with {form} IIV (operation {op}) at {eta}=0 vs {P} before",
                p_new, p_old, rng, {eta: sympy.Integer(0)}, npoints=2)
    # remove restores (on parameters without earlier re-assignments: remove_iiv's reassign() deletes earlier assignments)
    if case.get("hist"):
        tags.append("remove-skipped:history")
        return True
    try:
        m3 = pm.remove_iiv(m2, eta)
        p_rm = full(m3, P)
        cls = "iiv-remove-not-restoring"
        if form == "re_log":
            cls = "iiv-remove-rescaled-logit-not-restoring"
        elif neutral_cls is not None:
            cls = f"iiv-remove-not-restoring-{form}-{'mul' if op == '*' else 'add'}"
        check_equal(mon, cls, f"{P} after remove_iiv(add_iiv({form},{op})) vs {P} before", p_rm, p_old, rng, npoints=3)
    except Exception as e:
        mon.append({"cls": "iiv-remove-internal-error", "what": f"remove_iiv after add_iiv({P},{form},{op}) raised "
                    f"{type(e).__name__}: {e}"})
    return True


def iov_shift_check(mon, rng, m_old, m_new, occ, cats, etas, label):
    # ETA_IOV_<i>_<k>: sort eta by eta, occasion by occasion (joint distributions list them occasion by occasion)
    new_etas = sorted([n for n in m_new.random_variables.names if n not in m_old.random_variables.names], key=U.natural_key)
    ncat = len(cats)
    if len(new_etas) != ncat * len(etas):
        mon.append({"cls": "iov-eta-count", "what": f"{label}: {len(new_etas)} new etas for {len(etas)} etas x {ncat} occasions"})
        return
    for P in PARAMS:
        p_old, p_new = full(m_old, P), full(m_new, P)
        for kidx in rng.sample(range(ncat), min(2, ncat)):
            pt = U.gen_point(rng, [p_old, p_new], {occ: sympy.Integer(cats[kidx])}, lo=1, hi=9)
            for n in new_etas:
                pt[S(n)] = Rational(rng.choice([-3, -2, -1, 1, 2, 3]), rng.randint(2, 5))
            for e in ["ETA_CL", "ETA_VC"]:
                pt[S(e)] = Rational(rng.choice([-2, -1, 1, 2]), 3)
            po = dict(pt)
            # new etas are created eta by eta, occasion by occasion
            for i, e in enumerate(etas):
                po[S(e)] = pt[S(e)] + pt[S(new_etas[i * ncat + kidx])]
            vn, vo = U.value_at(p_new, pt), U.value_at(p_old, po)
            if not U.same_value(vn, vo, TOL):
                mon.append({"cls": "iov-shape", "what": f"{label}: {P} at {occ}={cats[kidx]} is {vn}; documented: the old {P} with each selected "
                            f"eta plus its occasion eta = {vo}"})
                return


def run_iov(case, drv, rng, k, mon, tags):
    m = pheno(case["ids"])
    occ, params, dist = case["occ"], case["params"], case["dist"]
    m = apply_history(m, case.get("hist"), tags)
    rows = U.records(m.dataset, ["ID", occ])
    cats = sorted({int(r[occ]) for r in rows})
    tags += [f"iov:{dist}", f"occ:{occ}", f"nocc={min(len(cats), 12)}"]
    try:
        # with a history the etas are named directly: _get_etas() by parameter name only looks at the last assignment
        # of the parameter (CL = CL + CLAPGR mentions no eta), see notes/C09.md
        callp = [f"ETA_{p}" for p in params] if (params and case.get("hist")) else params
        m2 = pm.add_iov(m, occ, callp, distribution=dist)
    except ValueError as e:
        if len(cats) == 1 and "Only one value" in str(e):
            tags.append("refused:one-occasion")
            return False
        mon.append({"cls": "iov-internal-error", "what": f"add_iov({occ},{params},{dist}) raised ValueError: {e}"})
        return False
    except Exception as e:
        mon.append({"cls": "iov-internal-error", "what": f"add_iov({occ},{params},{dist}) raised {type(e).__name__}: {e}"})
        return False
    etas = [f"ETA_{p}" for p in (params or ["CL", "VC"])]
    if dist == "same-as-iiv":
        etas = [e for e in ["ETA_CL", "ETA_VC"] if e in etas]   # order of the model's distributions
    if drv is not None:
        es = [[e, f"IOV_{i}", f"ETAI{i}", [f"ETA_IOV_{i}_{j}" for j in range(1, len(cats) + 1)]]
              for i, e in enumerate(etas, 1)]
        ans = drv.ask(["iov", U.stmts_wire(m.statements), occ, [c for c in cats], es])
        cmp_stmts(f"add_iov({occ},{params},{dist})", ans, U.stmts_wire(m2.statements), rng, k)
    new_etas = [n for n in m2.random_variables.names if n not in m.random_variables.names]
    zero = {n: sympy.Integer(0) for n in new_etas}
    for P in PARAMS:
        p_old, p_new = full(m, P), full(m2, P)
        for cv in rng.sample(cats, min(2, len(cats))):
            fx = dict(zero)
            fx[occ] = sympy.Integer(cv)
            if not check_equal(mon, "iov-not-neutral-at-eta-zero", f"{P} with IOV on {occ} at all IOV etas 0, {occ}={cv} vs {P} before",
                               p_new, p_old, rng, fx, npoints=1):
                break
    # documented shift at non-zero IOV etas: on occasion k the parameter is the old one with eta + ETA_IOV_i_k
    # (every selected eta, every occasion), and the etas that were not selected are untouched
    iov_shift_check(mon, rng, m, m2, occ, cats, etas, f"add_iov({occ},{params},{dist})")
    # a second occasion column on top of the first
    sec = case.get("second")
    if sec and sec != occ:
        rows2 = U.records(m2.dataset, ["ID", sec])
        cats2 = sorted({int(r[sec]) for r in rows2})
        try:
            m2b = pm.add_iov(m2, sec, [f"ETA_{p}" for p in (params or ["CL", "VC"])], distribution=dist)
            tags.append("iov:second-occasion-column")
            iov_shift_check(mon, rng, m2, m2b, sec, cats2, etas, f"second add_iov({sec}) after add_iov({occ})")
            m3b = pm.remove_iov(m2b)
            for P in PARAMS:
                check_equal(mon, "iov-remove-not-restoring", f"{P} after remove_iov(two add_iov) vs {P} before", full(m3b, P),
                            full(m, P), rng, {occ: sympy.Integer(rng.choice(cats)), sec: sympy.Integer(rng.choice(cats2))}, npoints=1)
        except ValueError as e:
            if len(cats2) == 1 and "Only one value" in str(e):
                tags.append("refused:one-occasion")
            else:
                mon.append({"cls": "iov-internal-error", "what": f"second add_iov({sec},{params},{dist}) raised ValueError: {e}"})
        except Exception as e:
            mon.append({"cls": "iov-internal-error", "what": f"second add_iov({sec},{params},{dist}) raised {type(e).__name__}: "
                        + str(e).split(chr(10))[0]})
    try:
        m3 = pm.remove_iov(m2)
        for P in PARAMS:
            fx = {occ: sympy.Integer(rng.choice(cats))}
            check_equal(mon, "iov-remove-not-restoring", f"{P} after remove_iov(add_iov(...)) vs {P} before", full(m3, P),
                        full(m, P), rng, fx, npoints=2)
    except Exception as e:
        mon.append({"cls": "iov-remove-internal-error", "what": f"remove_iov raised {type(e).__name__}: {e}"})
    return True


def run_etatrans(case, drv, rng, k, mon, tags):
    m = pheno(case["ids"])
    kind, etas = case["trans"], case["etas"]
    m = apply_history(m, case.get("hist"), tags)
    fn = {"boxcox": pm.transform_etas_boxcox, "tdist": pm.transform_etas_tdist, "johndraper": pm.transform_etas_john_draper}[kind]
    tags += [f"etatrans:{kind}", f"netas={len(etas) if etas else 2}"]
    try:
        m2 = fn(m, etas)
    except Exception as e:
        mon.append({"cls": "etatrans-internal-error", "what": f"transform_etas_{kind}({etas}) raised {type(e).__name__}: {e}"})
        return False
    el = etas or ["ETA_CL", "ETA_VC"]
    pre = {"boxcox": ("ETAB", "lambda"), "tdist": ("ETAT", "df"), "johndraper": ("ETAD", "lambda")}[kind]
    if drv is not None:
        es = [[e, f"{pre[0]}{i}", f"{pre[1]}{i}"] for i, e in enumerate(el, 1)]
        ans = drv.ask(["etatrans", U.stmts_wire(m.statements), kind, es])
        cmp_stmts(f"transform_etas_{kind}({etas})", ans, U.stmts_wire(m2.statements), rng, k)
    for P in PARAMS:
        p_old, p_new = full(m, P), full(m2, P)
        check_equal(mon, "etatrans-not-neutral-at-eta-zero", f"{P} after transform_etas_{kind} at etas 0 vs before", p_new, p_old,
                    rng, {e: sympy.Integer(0) for e in el}, npoints=2)
        # formula: P_new(eta) = P_old(T(eta))
        pt = U.gen_point(rng, [p_old, p_new], lo=1, hi=9)
        sub = {}
        for i, e in enumerate(el, 1):
            pt[S(e)] = Rational(rng.randint(-5, 5), rng.randint(2, 4))
            th = pt.get(S(f"{pre[1]}{i}"), Rational(rng.randint(3, 9), 2))
            pt[S(f"{pre[1]}{i}")] = th
            sub[S(e)] = doc_trans(kind, pt[S(e)], th)
        pt_old = dict(pt)
        pt_old.update(sub)
        vo, vn = U.value_at(p_old, pt_old), U.value_at(p_new, pt)
        if vo is not None and not U.same_value(vn, vo, TOL):
            mon.append({"cls": "etatrans-formula", "what": f"{P} after transform_etas_{kind} is {vn}, documented transformation "
                        f"applied to the old model gives {vo}"})
    return True


def error_base(name, ids):
    m = pheno(ids)
    if name == "pheno":
        return m
    m0 = pm.remove_error_model(m)
    if name == "noerr":
        return m0
    if name == "add":
        return pm.set_additive_error_model(m0)
    if name == "comb":
        return pm.set_combined_error_model(m0)
    if name == "prop":
        return pm.set_proportional_error_model(m0)
    raise AssertionError(name)


def y_of(model):
    return full(model, "Y", "after")


def eps_in(model, y):
    return [n for n in model.random_variables.epsilons.names if S(n) in y.free_symbols]


def run_error(case, drv, rng, k, mon, tags):
    base, setter, log, zp = case["base"], case["setter"], case["log"], case["zp"]
    m = apply_history(error_base(base, case["ids"]), case.get("hist"), tags)
    tags += [f"error:{setter}", f"errbase:{base}"]
    y_old = y_of(m)
    eps_old = eps_in(m, y_old)
    f_old = y_old.xreplace({S(e): sympy.Integer(0) for e in eps_old})
    Fs = full(m, "F", "after")
    kw = {}
    if setter in ("additive", "proportional", "combined"):
        if log:
            kw["data_trans"] = "log(Y)"
            tags.append("data_trans:log")
        if setter == "proportional":
            kw["zero_protection"] = zp
    try:
        if setter == "additive":
            m2 = pm.set_additive_error_model(m, **kw)
        elif setter == "proportional":
            m2 = pm.set_proportional_error_model(m, **kw)
        elif setter == "combined":
            m2 = pm.set_combined_error_model(m, **kw)
        elif setter == "power":
            m2 = pm.set_power_on_ruv(m, zero_protection=zp)
        elif setter == "weighted":
            m2 = pm.set_weighted_error_model(m)
        elif setter == "dtbs":
            m2 = pm.set_dtbs_error_model(m)
        elif setter == "time_varying":
            m2 = pm.set_time_varying_error_model(m, cutoff=case["cutoff"])
        elif setter == "iiv_on_ruv":
            m2 = pm.set_iiv_on_ruv(m)
        else:
            raise AssertionError(setter)
    except Exception as e:
        if base == "noerr" and setter in ("power", "weighted", "dtbs", "time_varying", "iiv_on_ruv"):
            tags.append("refused:no-epsilon")       # nothing to transform in a model without an error model
            return False
        cls = "error-internal-error"
        if setter == "dtbs" and m.statements.find_assignment("IPREDADJ") is not None:
            cls = "error-use-thetas-on-zero-protected-internal-error"
        mon.append({"cls": cls, "what": f"{setter} on {base} ({kw}) raised {type(e).__name__}: " + str(e).split(chr(10))[0]})
        return False
    y_new = y_of(m2)
    eps_new = eps_in(m2, y_new)
    changed = m2.statements != m.statements
    # ------------------------------------------------ named error models
    if setter in ("additive", "proportional", "combined"):
        want_n = {"additive": 1, "proportional": 1, "combined": 2}[setter]
        already = (setter == "additive" and pm.has_additive_error_model(m)) or \
                  (setter == "proportional" and pm.has_proportional_error_model(m)) or \
                  (setter == "combined" and pm.has_combined_error_model(m))
        if already:
            tags.append("already-that-error-model")
        # K on the right-hand side of Y (and the guard)
        if drv is not None and changed:
            yst = m2.statements.find_assignment("Y")
            kind = setter + ("-log" if log else "") + ("-zp" if setter == "proportional" and zp else "")
            # the names of the new epsilons are chosen by create_symbol (fresh w.r.t. the model): take them from the result
            fresh = [n for n in m2.random_variables.epsilons.names if n not in m.random_variables.epsilons.names]
            e1 = next((n for n in fresh if n.startswith("epsilon_p" if setter != "additive" else "epsilon_a")), "epsilon_p")
            e2 = next((n for n in fresh if n.startswith("epsilon_a")), "epsilon_a")
            ans = drv.ask(["errory", kind, U.wire(m.statements.find_assignment("Y").expression.subs({e: 0 for e in eps_old})), "IPREDADJ", e1, e2])
            if setter == "additive" and log:
                tags.append("k-skipped:series-expansion")    # additive/log is a sympy series expansion, not a literal template
            else:
                cmp_expr(f"Y of set_{setter}_error_model({kw})", ans, U.norm(yst.expression), rng, k)
            g = m2.statements.find_assignment("IPREDADJ")
            if g is not None:
                ans = drv.ask(["guard", U.wire(m.statements.find_assignment("Y").expression.subs({e: 0 for e in eps_old}))])
                cmp_expr("IPREDADJ guard", ans, U.norm(g.expression), rng, k)
        # Mon: documented dependence on f and on each epsilon
        ok = len(eps_new) == want_n
        if ok:
            for _ in range(3):
                pt = U.gen_point(rng, [y_new, f_old], lo=1, hi=9)
                for e in eps_new:
                    pt[S(e)] = Rational(rng.randint(-5, 5), rng.randint(2, 7))
                f = U.value_at(f_old, pt)
                vy = U.value_at(y_new, pt)
                if f is None or f == 0:
                    continue
                ev = [pt[S(e)] for e in eps_new]
                cands = []
                if setter == "additive":
                    cands = [sympy.log(f) + ev[0] / f] if log else [f + ev[0]]
                elif setter == "proportional":
                    cands = [sympy.log(f) + ev[0]] if log else [f + f * ev[0]]
                else:
                    for a, b in ((ev[0], ev[1]), (ev[1], ev[0])):
                        cands.append(sympy.log(f) + a + b / f if log else f + f * a + b)
                if not any(U.same_value(vy, c, TOL) for c in cands):
                    ok = False
                    break
        if not ok:
            cls = f"error-{setter}-shape"
            if already and log:
                cls = "error-setter-noop-ignores-data-trans"
            mon.append({"cls": cls, "what": f"set_{setter}_error_model({kw}) on base '{base}': Y = {y_new} is not the documented "
                        f"{'log-transformed ' if log else ''}{setter} function of f = {f_old} and {want_n} epsilon(s)"})
        # remove restores (natural scale)
        if not log and ok:
            try:
                m3 = pm.remove_error_model(m2)
                check_equal(mon, "error-remove-not-restoring", f"Y after remove_error_model(set_{setter}) vs the prediction", y_of(m3),
                            f_old, rng, npoints=2)
            except Exception as e:
                mon.append({"cls": "error-remove-internal-error", "what": f"remove_error_model raised {type(e).__name__}: {e}"})
        return changed
    # ------------------------------------------------ modifiers of an existing error model
    if not eps_old:
        tags.append("no-epsilon-in-base")
        return False
    if setter == "power":
        new_thetas = sorted([n for n in m2.parameters.names if n not in m.parameters.names], key=U.natural_key)
        if drv is not None and len(new_thetas) == len(eps_old):
            yst = U.norm(m2.statements.find_assignment("Y").expression)
            tot = U.norm(m.statements.find_assignment("Y").expression).xreplace({S(e): 0 for e in eps_old})
            # the code raises the zero-protected prediction to the power when the model has one
            ip = "IPREDADJ" if m.statements.find_assignment("IPREDADJ") is not None else "F"
            for th, e in zip(new_thetas, eps_old):
                tot = tot + U.from_wire(drv.ask(["power", ip, th, e]))
            ok, wit = U.same_expr(tot, yst, rng)
            if not ok:
                k.append(f"set_power_on_ruv on {base}: model {tot} code {yst} differ at {wit}")
        # Mon: every epsilon enters as f**theta * eps
        for _ in range(2):
            pt = U.gen_point(rng, [y_new, y_old], lo=1, hi=9)
            for th in new_thetas:
                pt[S(th)] = Rational(rng.randint(1, 5), 2)
            f = U.value_at(f_old, pt)
            if f is None or len(new_thetas) != len(eps_old):
                mon.append({"cls": "error-power-shape", "what": f"set_power_on_ruv on {base}: {len(new_thetas)} thetas for {len(eps_old)} epsilons"})
                break
            want = f + sum(f ** pt[S(th)] * pt[S(e)] for th, e in zip(new_thetas, eps_old))
            if not U.same_value(U.value_at(y_new, pt), want, TOL):
                mon.append({"cls": "error-power-shape", "what": f"set_power_on_ruv on {base}: Y = {y_new}; at a seeded point "
                            f"{U.value_at(y_new, pt)} vs documented f + sum f**theta*eps = {want}"})
                break
        return changed
    if setter == "weighted":
        # Y = f + W*eps with W**2 = sum of squared epsilon coefficients
        e0 = eps_in(m2, y_new)
        for _ in range(2):
            pt = U.gen_point(rng, [y_new, y_old], lo=1, hi=9)
            f = U.value_at(f_old, pt)
            if f is None or len(e0) != 1:
                mon.append({"cls": "error-weighted-shape", "what": f"weighted model has epsilons {e0}"})
                break
            coef2 = 0
            for e in eps_old:
                p1 = dict(pt)
                for e_ in eps_old:
                    p1[S(e_)] = sympy.Integer(1 if e_ == e else 0)
                coef2 += (U.value_at(y_old, p1) - f) ** 2
            p1 = dict(pt)
            p1[S(e0[0])] = sympy.Integer(1)
            w = U.value_at(y_new, p1) - f
            if not U.same_value(sympy.simplify(w**2), sympy.simplify(coef2), TOL) or not U.same_value(U.value_at(y_new, {**pt, S(e0[0]): sympy.Integer(0)}), f, TOL):
                mon.append({"cls": "error-weighted-shape", "what": f"set_weighted_error_model on {base}: W**2 = {w**2}, sum of squared "
                            f"epsilon coefficients {coef2}"})
                break
        return changed
    if setter == "dtbs":
        if drv is not None:
            ipred = m2.statements.find_assignment("IPRED")
            ws = [s for s in m2.statements.after_odes if str(getattr(s, "symbol", "")) == "W"]
            ans = drv.ask(["dtbs", "F", "tbs_lambda", "tbs_zeta"])
            if ipred is None or len(ws) < 2:
                k.append("set_dtbs_error_model: no IPRED / W statements")
            else:
                cmp_expr("dtbs IPRED", ans[0], U.norm(ipred.expression), rng, k)
                cmp_expr("dtbs W", ans[1], U.norm(ws[-1].expression), rng, k)
        return changed
    if setter == "time_varying":
        cut = U.rat(case["cutoff"])
        tv = [n for n in m2.parameters.names if n not in m.parameters.names]
        for tval, scaled in ((cut - 1, True), (cut + 1, False), (cut, False)):
            pt = U.gen_point(rng, [y_new, y_old], {"TIME": tval}, lo=1, hi=9)
            for e in eps_old:
                pt[S(e)] = Rational(rng.randint(-5, 5), 3)
            th = pt.get(S(tv[0]), Rational(3, 7)) if tv else 1
            if tv:
                pt[S(tv[0])] = th
            po = dict(pt)
            if scaled:
                for e in eps_old:
                    po[S(e)] = pt[S(e)] * th
            if not U.same_value(U.value_at(y_new, pt), U.value_at(y_old, po), TOL):
                mon.append({"cls": "error-time-varying-shape", "what": f"set_time_varying_error_model(cutoff={cut}) on {base} at TIME={tval}: "
                            f"{U.value_at(y_new, pt)} vs {U.value_at(y_old, po)}"})
                break
        return changed
    if setter == "iiv_on_ruv":
        new_etas = [n for n in m2.random_variables.names if n not in m.random_variables.names]
        check_equal(mon, "error-iiv-on-ruv-not-neutral-at-eta-zero", f"Y after set_iiv_on_ruv at eta 0 vs before on {base}", y_new, y_old, rng,
                    {n: sympy.Integer(0) for n in new_etas}, npoints=2)
        pt = U.gen_point(rng, [y_new, y_old], lo=1, hi=9)
        for n in new_etas:
            pt[S(n)] = Rational(rng.randint(-3, 3), 2)
        po = dict(pt)
        for e in eps_old:
            po[S(e)] = pt[S(e)] * sympy.exp(pt[S(new_etas[0])]) if new_etas else pt[S(e)]
        if not U.same_value(U.value_at(y_new, pt), U.value_at(y_old, po), TOL):
            mon.append({"cls": "error-iiv-on-ruv-shape", "what": f"set_iiv_on_ruv on {base}: {U.value_at(y_new, pt)} vs eps*exp(eta): {U.value_at(y_old, po)}"})
        return changed
    return changed


def run_errseq(case, drv, rng, k, mon, tags):
    """A named error-model setter applied AFTER residual-error modifiers on the same DV (set_iiv_on_ruv and/or
    set_time_varying_error_model, either order).  Documented: combined = f + f*eps_p + eps_a; IIV on RUV multiplies every
    epsilon by exp(ETA_RV1); time-varying multiplies every epsilon by theta before the cutoff.  set_combined_error_model
    keeps both modifiers, so Y must be f + (f*eps_p + eps_a) * [exp(eta)] * [theta if idv < cutoff], with the SAME factor on
    both epsilons, at points on both sides of (and at) the cutoff, eta != 0, both epsilons != 0."""
    base, mods, cutoff = case["base"], case["mods"], case["cutoff"]
    m0 = error_base(base, case["ids"])
    tags += [f"errseq:{'+'.join(mods)}", f"errseqbase:{base}", f"dv:{case['dv']}", f"cutoff:{cutoff}"]
    m = m0
    try:
        for md in mods:
            m = pm.set_iiv_on_ruv(m) if md == "iiv_on_ruv" else pm.set_time_varying_error_model(m, cutoff=cutoff)
    except Exception as e:
        mon.append({"cls": "errseq-modifier-internal-error", "what": f"{mods} on {base} raised {type(e).__name__}: " + str(e).split(chr(10))[0]})
        return False
    y_mod = y_of(m)
    eps_mod = eps_in(m, y_mod)
    f_old = y_mod.xreplace({S(e): sympy.Integer(0) for e in eps_mod})
    new_etas = [n for n in m.random_variables.etas.names if n not in m0.random_variables.names]
    tvs = [n for n in m.parameters.names if n not in m0.parameters.names and n not in m.random_variables.parameter_names]
    has_iiv, has_tv = "iiv_on_ruv" in mods, "time_varying" in mods
    if len(new_etas) != (1 if has_iiv else 0) or len(tvs) != (1 if has_tv else 0):
        mon.append({"cls": "errseq-modifier-symbols", "what": f"{mods} on {base}: new etas {new_etas}, new thetas {tvs}"})
        return False
    dvarg = {None: None, "name": "Y", "dvid": 1}[case["dv"]]
    kw = {} if dvarg is None else {"dv": dvarg}
    # all epsilons of the old model proportional to the prediction?  (decides the witness class, from the model before the call)
    y_base = y_of(m0)
    f_base = y_base.xreplace({S(e): sympy.Integer(0) for e in eps_in(m0, y_base)})
    prop_like = True
    for _ in range(5):
        ptb = U.gen_point(rng, [y_base], lo=2, hi=9)
        fb = U.value_at(f_base, ptb)
        if fb is not None and fb not in (0, 1):
            break
    for e in eps_in(m0, y_base):
        p1 = dict(ptb)
        for e_ in eps_in(m0, y_base):
            p1[S(e_)] = sympy.Integer(1 if e_ == e else 0)
        if fb is None or not U.same_value(U.value_at(y_base, p1) - fb, fb, TOL):
            prop_like = False
    tags.append(f"errseq-base-proportional:{prop_like}")
    try:
        m2 = pm.set_combined_error_model(m, **kw)
    except Exception as e:
        mon.append({"cls": "errseq-combined-internal-error", "what": f"set_combined_error_model({kw}) after {mods} on {base} raised "
                    f"{type(e).__name__}: " + str(e).split(chr(10))[0]})
        return False
    changed = m2.statements != m.statements
    y_new = y_of(m2)
    eps_new = eps_in(m2, y_new)
    fresh = [n for n in m2.random_variables.epsilons.names if n not in m.random_variables.epsilons.names]
    # ---- K: the Y statement
    if drv is not None and changed and len(fresh) == 2:
        e1 = next((n for n in fresh if n.startswith("epsilon_p")), fresh[0])
        e2 = next((n for n in fresh if n.startswith("epsilon_a")), fresh[1])
        so, sn = _stmt_expr(m, "Y"), _stmt_expr(m2, "Y")
        eta_present = "ETA_RV1" in m.random_variables.names
        if isinstance(so, sympy.Piecewise):
            if len(so.args) != 2:
                k.append(f"set_combined_error_model after {mods}: old Y has {len(so.args)} piecewise branches")
            else:
                ans = drv.ask(["combinedtv", U.wire(so.args[0][0]), U.wire(so.args[1][0]), U.wire(so.args[0][1]),
                               list(m.random_variables.epsilons.names), e1, e2, bool(eta_present), "ETA_RV1", "time_varying"])
                cmp_expr(f"Y of set_combined_error_model({kw}) after {mods} on {base}", ans, sn, rng, k)
            tags.append("k:combinedtv")
        else:
            f_st = so.xreplace({S(e): sympy.Integer(0) for e in m.random_variables.epsilons.names})
            ans = drv.ask(["errory", "combined-iivruv" if eta_present else "combined", U.wire(f_st), "IPREDADJ", e1, e2])
            cmp_expr(f"Y of set_combined_error_model({kw}) after {mods} on {base}", ans, sn, rng, k)
            tags.append("k:errory")
    # ---- Mon: documented composition
    cut = U.rat(cutoff)
    cls = "error-combined-after-modifiers-shape"
    if has_tv and not prop_like:
        cls = "error-combined-after-time-varying-eps-not-proportional"
    if len(eps_new) != 2:
        mon.append({"cls": cls, "what": f"set_combined_error_model({kw}) after {mods} on {base}: Y = {y_new} has epsilons {eps_new}"})
        return changed
    tvals = [cut - 1, cut - Rational(1, 7), cut, cut + 1, cut + Rational(5, 3)] if has_tv else [cut - 1, cut + 1]
    bad = first_bad = None
    nat = sorted(eps_new, key=lambda n: (not n.startswith("epsilon_p"), eps_new.index(n)))    # (proportional, additive) by name first
    for (a, b) in ((nat[0], nat[1]), (nat[1], nat[0])):
        bad = None
        for i, tval in enumerate(tvals + [cut + 2]):
            pt = U.gen_point(rng, [y_new, f_old], {"TIME": tval}, lo=1, hi=9)
            for e in eps_new:
                pt[S(e)] = Rational(rng.choice([-5, -3, -1, 1, 2, 4]), rng.randint(2, 7))
            for n in new_etas:
                # last point: the reference (eta = 0 after the cutoff), where Y must be the plain combined model
                pt[S(n)] = sympy.Integer(0) if i == len(tvals) else Rational(rng.choice([-3, -2, -1, 1, 2, 3]), rng.randint(2, 4))
            for n in tvs:
                pt[S(n)] = Rational(rng.randint(2, 9), 7) + 1
            f = U.value_at(f_old, pt)
            if f is None or f == 0:
                continue
            sc = sympy.Integer(1)
            if has_iiv:
                sc = sc * sympy.exp(pt[S(new_etas[0])])
            if has_tv and tval < cut:
                sc = sc * pt[S(tvs[0])]
            want = f + (f * pt[S(a)] + pt[S(b)]) * sc
            got = U.value_at(y_new, pt)
            if not U.same_value(got, want, TOL):
                bad = (f"at TIME={tval} (cutoff {cut}), f={f}, {a}={pt[S(a)]}, {b}={pt[S(b)]}, "
                       + ", ".join(f"{n}={pt[S(n)]}" for n in new_etas + tvs) + f": Y = {got}, documented f + (f*{a} + {b})*"
                       + ("exp(eta)" if has_iiv else "1") + ("*theta" if has_tv and tval < cut else "") + f" = {want}")
                break
        first_bad = first_bad or bad
        if bad is None:
            break
    if bad is not None:
        bad = first_bad
        mon.append({"cls": cls, "what": f"set_combined_error_model({kw}) after {mods} on base '{base}': Y = {y_new} is not the "
                    f"combined function of f = {f_old} under the modifiers; {bad}"})
    return changed


def ruv_base(name, ids):
    if name in ("pheno", "add", "comb", "prop"):
        return error_base(name, ids)
    if name == "twodv":
        return pm.set_direct_effect(pheno(ids), "linear")
    if name == "twodv-comb":
        # (set_combined_error_model(..., dv=2) raises, see run_errordv) two epsilons on the first DV, one on the second
        return pm.set_direct_effect(error_base("comb", ids), "linear")
    if name == "comb-upper":
        return pm.rename_symbols(error_base("comb", ids), {"epsilon_p": "EPS_P", "epsilon_a": "EPS_A"})
    raise AssertionError(name)


def _stmt_expr(model, sym):
    st = model.statements.find_assignment(str(sym))
    return None if st is None else U.norm(st.expression)


def _injections(src, dst):
    import itertools
    if len(src) > len(dst):
        return []
    return [dict(zip(src, p)) for p in itertools.permutations(dst, len(src))]


def run_ruvmod(case, drv, rng, k, mon, tags):
    """Modifiers of an existing residual error model with all their options.  Monitor: on the targeted DV every
    selected epsilon carries the documented factor (checked at eta != 0, several epsilon values), the other DVs are
    untouched when a DV is named, and the extension is neutral at eta = 0."""
    import itertools
    base, fn = case["base"], case["fn"]
    m = apply_history(ruv_base(base, case["ids"]), case.get("hist"), tags)
    dvs = [(str(sym), int(i)) for sym, i in m.dependent_variables.items()]
    eps_model = list(m.random_variables.epsilons.names)
    which = case["dv"]
    second = which in ("name2", "dvid2") and len(dvs) > 1
    tname, tid = dvs[1] if second else dvs[0]
    dvarg = None if which is None else (tname if which.startswith("name") else tid)
    sel = case["list_of_eps"]
    if sel is not None:
        sel = [e for e in sel if e in eps_model] or None
    selected = list(sel) if sel is not None else list(eps_model)
    tags += [f"ruvmod:{fn}", f"ruvbase:{base}", f"dv:{which}", f"sel:{'all' if sel is None else len(sel)}"]
    kw = {}
    if dvarg is not None and fn != "weighted":
        kw["dv"] = dvarg
    if fn in ("iiv_on_ruv", "power") and sel is not None:
        kw["list_of_eps"] = list(sel)
    if fn == "iiv_on_ruv":
        kw["same_eta"] = case["same_eta"]
        tags.append(f"same_eta:{case['same_eta']}")
        if case["eta_names"] and (not case["same_eta"] or len(selected) == 1):
            kw["eta_names"] = [f"ETA_Q{i}" for i in range(1, len(selected) + 1)]
    if fn == "power":
        kw["lower_limit"] = case["lower_limit"]
        kw["zero_protection"] = case["zp"]
    if fn == "time_varying":
        kw["cutoff"] = case["cutoff"]
    call = {"iiv_on_ruv": pm.set_iiv_on_ruv, "power": pm.set_power_on_ruv, "time_varying": pm.set_time_varying_error_model,
            "weighted": pm.set_weighted_error_model}[fn]
    try:
        m2 = call(m, **kw)
    except Exception as e:
        cls = f"ruv-{fn}-internal-error"
        if sel is not None and any(e != e.upper() for e in sel):
            cls = "ruv-list-of-eps-lowercase-name-ignored"
        mon.append({"cls": cls, "what": f"{call.__name__}({kw}) on {base} raised {type(e).__name__}: " + str(e).split(chr(10))[0]})
        return False
    changed = m2.statements != m.statements
    # list_of_eps entries are upper-cased before the lookup: lower-case names (as pharmpy's own setters create) are dropped
    unresolvable = [e for e in selected if sel is not None and e != e.upper()]
    y_old = {d: full(m, d, "after") for d, _ in dvs}
    y_new = {d: full(m2, d, "after") for d, _ in dvs}
    new_etas = [n for n in m2.random_variables.etas.names if n not in m.random_variables.names]
    new_thetas = sorted([n for n in m2.parameters.names if n not in m.parameters.names
                         and n not in m2.random_variables.parameter_names], key=U.natural_key)

    def affected(d):
        return [e for e in selected if S(e) in y_old[d].free_symbols]

    def lower_cls(default):
        return "ruv-list-of-eps-lowercase-name-ignored" if unresolvable else default

    # ---------------------------------------------------------------- frame: other DVs when a DV is named
    if dvarg is not None and fn != "weighted":
        for d, _ in dvs:
            if d != tname:
                check_equal(mon, "ruv-other-dv-changed", f"{d} after {call.__name__}({kw}) (only {tname} was named) vs before",
                            y_new[d], y_old[d], rng, npoints=2)
    tgt_old, tgt_new = y_old[tname], y_new[tname]
    aff = affected(tname)

    if fn == "iiv_on_ruv":
        want_n = 1 if case["same_eta"] else len(selected)
        if len(new_etas) != want_n and not unresolvable:
            mon.append({"cls": "ruv-iiv-on-ruv-eta-count", "what": f"set_iiv_on_ruv({kw}) on {base}: new etas {new_etas}, expected {want_n}"})
        # K: the statement of the targeted DV (and of every DV when none is named)
        if drv is not None and not unresolvable and len(new_etas) == want_n:
            eta_of = {e: (new_etas[0] if case["same_eta"] else new_etas[i]) for i, e in enumerate(selected)}
            for d, _ in dvs:
                if dvarg is not None and d != tname:
                    continue
                so, sn = _stmt_expr(m, d), _stmt_expr(m2, d)
                prs = [[e, eta_of[e]] for e in selected if dvarg is None or S(e) in so.free_symbols]
                ans = drv.ask(["iivonruv", U.wire(so), prs])
                cmp_expr(f"{d} of set_iiv_on_ruv({kw}) on {base}", ans, sn, rng, k)
        # Mon: every selected epsilon of the DV is multiplied by exp(eta), at eta != 0
        maps = ([{e: new_etas[0] for e in aff}] if case["same_eta"] and new_etas else _injections(aff, new_etas)) if aff else [{}]
        ok_any = False
        detail = ""
        for mp in maps:
            good = True
            for _ in range(3):
                pt = U.gen_point(rng, [tgt_old, tgt_new], lo=1, hi=9)
                for n in new_etas:
                    pt[S(n)] = Rational(rng.choice([-3, -2, -1, 1, 2, 3]), rng.randint(2, 4))
                for e in eps_model:
                    pt[S(e)] = Rational(rng.choice([-5, -3, -1, 1, 2, 4]), rng.randint(2, 7))
                po = dict(pt)
                for e, h in mp.items():
                    po[S(e)] = pt[S(e)] * sympy.exp(pt[S(h)])
                vn, vo = U.value_at(tgt_new, pt), U.value_at(tgt_old, po)
                if not U.same_value(vn, vo, TOL):
                    good = False
                    detail = f"{vn} vs {vo} at eps/eta " + str({str(a): str(b) for a, b in pt.items() if str(a) in eps_model + new_etas})
                    break
            if good:
                ok_any = True
                break
        if not ok_any:
            mon.append({"cls": lower_cls("ruv-iiv-on-ruv-shape"), "what": f"set_iiv_on_ruv({kw}) on {base}: {tname} = {tgt_new} does not multiply "
                        f"every selected epsilon {aff} of {tname} by exp(eta) ({detail})"})
        check_equal(mon, "ruv-iiv-on-ruv-not-neutral-at-eta-zero", f"{tname} after set_iiv_on_ruv at eta 0 vs before", tgt_new, tgt_old, rng,
                    {n: sympy.Integer(0) for n in new_etas}, npoints=2)
        return changed

    zero = {S(e): sympy.Integer(0) for e in eps_model}
    f_old = tgt_old.xreplace(zero)

    def coef(expr, e, pt):
        p1 = dict(pt)
        for e_ in eps_model:
            p1[S(e_)] = sympy.Integer(1 if e_ == e else 0)
        p0 = dict(pt)
        p0.update(zero)
        a, b = U.value_at(expr, p1), U.value_at(expr, p0)
        return None if a is None or b is None else a - b

    if fn == "power":
        so = _stmt_expr(m, tname)
        ipsym = so.xreplace(zero)
        if drv is not None and not unresolvable and ipsym.is_Symbol and len(new_thetas) >= len(aff):
            adj = m.statements.find_assignment("IPREDADJ") is not None and tname == dvs[0][0]
            ip = "IPREDADJ" if adj else str(ipsym)
            # thetas are created per selected epsilon, in order
            th_of = {}
            pool = list(new_thetas)
            order = [e for e in selected if dvarg is None or sel is not None or S(e) in so.free_symbols]
            for e in order:
                if pool:
                    th_of[e] = pool.pop(0)
            tot = ipsym
            for e in [x for x in eps_model if S(x) in so.free_symbols]:
                if e in th_of and e in selected:
                    tot = tot + U.from_wire(drv.ask(["power", adj, ip, th_of[e], e]))
                else:
                    tot = tot + (so - so.xreplace({S(e): 0})).expand()
            ok, wit = U.same_expr(tot, _stmt_expr(m2, tname), rng)
            if not ok:
                k.append(f"set_power_on_ruv({kw}) on {base}: model {tot} code {_stmt_expr(m2, tname)} differ at {wit}")
        ok_any = False
        detail = ""
        for mp in (_injections(aff, new_thetas) if aff else [{}]):
            good = True
            for _ in range(2):
                pt = U.gen_point(rng, [tgt_old, tgt_new], lo=1, hi=9)
                for th in new_thetas:
                    pt[S(th)] = Rational(rng.randint(1, 5), 2)
                f = U.value_at(f_old, pt)
                if f is None or f == 0:
                    continue
                want = f
                for e in [x for x in eps_model if S(x) in tgt_old.free_symbols]:
                    c = coef(tgt_old, e, pt)
                    ev_ = Rational(rng.choice([-5, -3, 1, 2, 4]), rng.randint(2, 7))
                    pt[S(e)] = ev_
                    if e in mp:
                        c = f ** pt[S(mp[e])] if U.same_value(c, f, TOL) else c * f ** pt[S(mp[e])]
                    want = want + c * ev_
                vn = U.value_at(tgt_new, pt)
                if not U.same_value(vn, want, TOL):
                    good = False
                    detail = f"{vn} vs documented {want}"
                    break
            if good:
                ok_any = True
                break
        if not ok_any:
            mon.append({"cls": lower_cls("ruv-power-shape"), "what": f"set_power_on_ruv({kw}) on {base}: {tname} = {tgt_new} does not give every "
                        f"selected epsilon {aff} the factor f**theta ({detail})"})
        return changed

    if fn == "time_varying":
        cut = U.rat(case["cutoff"])
        tv = [n for n in new_thetas]
        so = _stmt_expr(m, tname)
        if drv is not None and tv:
            ans = drv.ask(["timevarying", U.wire(so), [e for e in eps_model], tv[0], ["lt", "TIME", U.wire_num(case["cutoff"])]])
            cmp_expr(f"{tname} of set_time_varying_error_model({kw}) on {base}", ans, _stmt_expr(m2, tname), rng, k)
        for tval, scaled in ((cut - 1, True), (cut + 1, False), (cut, False), (cut - Rational(1, 7), True)):
            pt = U.gen_point(rng, [tgt_new, tgt_old], {"TIME": tval}, lo=1, hi=9)
            for e in eps_model:
                pt[S(e)] = Rational(rng.choice([-5, -2, 1, 3]), 3)
            th = Rational(rng.randint(2, 9), 7)
            if tv:
                pt[S(tv[0])] = th
            po = dict(pt)
            if scaled:
                for e in eps_model:
                    po[S(e)] = pt[S(e)] * th
            if not U.same_value(U.value_at(tgt_new, pt), U.value_at(tgt_old, po), TOL):
                mon.append({"cls": "ruv-time-varying-shape", "what": f"set_time_varying_error_model({kw}) on {base} at TIME={tval}: {tname} is "
                            f"{U.value_at(tgt_new, pt)}, documented {U.value_at(tgt_old, po)} (every epsilon times theta before the cutoff)"})
                break
        return changed

    if fn == "weighted":
        d0 = dvs[0][0]
        yo, yn = y_old[d0], y_new[d0]
        e_old = [e for e in eps_model if S(e) in yo.free_symbols]
        e_new = [e for e in m2.random_variables.epsilons.names if S(e) in yn.free_symbols]
        for _ in range(2):
            pt = U.gen_point(rng, [yn, yo], lo=1, hi=9)
            f = U.value_at(yo.xreplace(zero), pt)
            if f is None or len(e_new) != 1:
                mon.append({"cls": "ruv-weighted-shape", "what": f"set_weighted_error_model on {base}: epsilons of {d0} are {e_new}"})
                break
            coef2 = sum(coef(yo, e, pt) ** 2 for e in e_old)
            p1 = dict(pt)
            for e_ in list(m2.random_variables.epsilons.names):
                p1[S(e_)] = sympy.Integer(1 if e_ == e_new[0] else 0)
            p0 = dict(p1)
            p0[S(e_new[0])] = sympy.Integer(0)
            w = U.value_at(yn, p1) - f
            if not U.same_value(sympy.simplify(w**2), sympy.simplify(coef2), TOL) or not U.same_value(U.value_at(yn, p0), f, TOL):
                mon.append({"cls": "ruv-weighted-shape", "what": f"set_weighted_error_model on {base}: W**2 = {w**2}, sum of squared epsilon "
                            f"coefficients {coef2}"})
                break
        return changed
    return changed


def run_errordv(case, drv, rng, k, mon, tags):
    """named error-model setters addressed to the second DV of a two-DV model"""
    m = pm.set_direct_effect(pheno(case["ids"]), "linear")
    setter, how = case["setter"], case["how"]
    dvarg = 2 if how == "dvid" else "Y_2"
    tags += [f"errordv:{setter}", f"dv:{how}"]
    fn = {"additive": pm.set_additive_error_model, "proportional": pm.set_proportional_error_model,
          "combined": pm.set_combined_error_model}[setter]
    kw = {"dv": dvarg}
    if setter == "proportional":
        kw["zero_protection"] = case["zp"]
    y_old = {d: full(m, d, "after") for d in ("Y", "Y_2")}
    eps_old = list(m.random_variables.epsilons.names)
    f_old = y_old["Y_2"].xreplace({S(e): sympy.Integer(0) for e in eps_old})
    try:
        m2 = fn(m, **kw)
    except Exception as e:
        cls = "error-internal-error"
        if setter == "combined":
            cls = "error-combined-dv-not-first-internal-error"
        mon.append({"cls": cls, "what": f"set_{setter}_error_model({kw}) on the two-DV model raised {type(e).__name__}: " + str(e).split(chr(10))[0]})
        return False
    check_equal(mon, "error-other-dv-changed", f"Y after set_{setter}_error_model({kw}) vs before", full(m2, "Y", "after"), y_old["Y"], rng, npoints=2)
    y_new = full(m2, "Y_2", "after")
    eps_new = [n for n in m2.random_variables.epsilons.names if S(n) in y_new.free_symbols]
    already = setter == "proportional"     # Y_2 = E + E*eps is proportional already
    want_n = 2 if setter == "combined" else 1
    ok = len(eps_new) == want_n
    for _ in range(3 if ok else 0):
        pt = U.gen_point(rng, [y_new, f_old], lo=1, hi=9)
        for e in eps_new:
            pt[S(e)] = Rational(rng.choice([-5, -2, 1, 3]), rng.randint(2, 7))
        f, vy = U.value_at(f_old, pt), U.value_at(y_new, pt)
        if f is None or f == 0:
            continue
        ev = [pt[S(e)] for e in eps_new]
        cands = [f + ev[0]] if setter == "additive" else [f + f * ev[0]] if setter == "proportional" else \
            [f + f * ev[0] + ev[1], f + f * ev[1] + ev[0]]
        if not any(U.same_value(vy, c, TOL) for c in cands):
            ok = False
            break
    if not ok:
        mon.append({"cls": f"error-{setter}-shape", "what": f"set_{setter}_error_model({kw}): Y_2 = {y_new} is not the documented {setter} "
                    f"function of f = {f_old}"})
    return not already


def run_allometry(case, drv, rng, k, mon, tags):
    m = pheno(case["ids"])
    var, ref, params = case["var"], case["ref"], case["params"]
    if case["nocov"]:
        m = pm.remove_covariate_effect(pm.remove_covariate_effect(m, "CL", "WGT"), "V", "WGT")
        tags.append("allometry:wgt-effects-removed")
    m = apply_history(m, case.get("hist"), tags)
    tags += [f"allometry:{var}"]
    try:
        m2 = pm.add_allometry(m, allometric_variable=var, reference_value=ref, parameters=params)
    except Exception as e:
        mon.append({"cls": "allometry-internal-error", "what": f"add_allometry({var},{ref},{params}) raised {type(e).__name__}: {e}"})
        return False
    plist = params if params is not None else ["CL", "VC"]
    touched = [p for p in plist if not pm.has_covariate_effect(m, p, var)]
    if drv is not None:
        w = U.stmts_wire(m.statements)
        for p in touched:
            w = drv.ask(["allometry", w, p, var, U.wire_num(ref), f"ALLO_{p}"])
        cmp_stmts(f"add_allometry({var},{ref},{params})", w, U.stmts_wire(m2.statements), rng, k)
    refr = U.rat(ref)
    for P in PARAMS:
        p_old, p_new = full(m, P), full(m2, P)
        check_equal(mon, "allometry-not-neutral-at-reference", f"{P} after add_allometry at {var}={ref} vs before", p_new, p_old, rng,
                    {var: refr}, npoints=2)
        if P in touched:
            pt = U.gen_point(rng, [p_old, p_new], lo=1, hi=9)
            th = Rational(rng.randint(1, 5), 4)
            pt[S(f"ALLO_{P}")] = th
            vo, vn = U.value_at(p_old, pt), U.value_at(p_new, pt)
            if vo is not None and not U.same_value(vn, vo * (pt[S(var)] / refr) ** th, TOL):
                mon.append({"cls": "allometry-formula", "what": f"{P} after add_allometry is {vn}, documented P*(X/Z)**T = "
                            f"{vo * (pt[S(var)] / refr) ** th}"})
        else:
            check_equal(mon, "allometry-changed-untouched", f"{P} (not scaled) after add_allometry vs before", p_new, p_old, rng, npoints=1)
    return bool(touched)


def chain_of(model):
    """transit chain by compartment name (TRANSIT1..k, independent of pharmpy's transit detection):
    [(compartment name, numerator, denominator, rate expression with K-symbols resolved one level)]"""
    cs = model.statements.ode_system
    out = []
    i = 1
    while cs.find_compartment(f"TRANSIT{i}") is not None:
        c = cs.find_compartment(f"TRANSIT{i}")
        _, rate = cs.get_compartment_outflows(c)[0]
        e = U.norm(rate)
        for _ in range(3):      # K12 = 5/MDT, KA = K12
            if e.is_Symbol and model.statements.find_assignment(str(e)) is not None and str(e) not in ("MDT", "MAT"):
                e = U.norm(model.statements.find_assignment(str(e)).expression)
        num, den = e.as_numer_denom()
        out.append((c.name, num, den, e))
        i += 1
    return out


def run_transit(case, drv, rng, k, mon, tags):
    m = pheno(case["ids"])
    if case["base"] == "fo":
        m = pm.set_first_order_absorption(m)
        ka = U.norm(m.statements.find_assignment("KA").expression)
        if ka != 1 / S("MAT"):
            mon.append({"cls": "absorption-ka-not-1-over-mat", "what": f"set_first_order_absorption: KA = {ka}"})
        if drv is not None:
            t = drv.ask(["tables"])
            cmp_expr("first-order absorption rate", t[4], ka.xreplace({S("MAT"): S("mat_symb")}), rng, k)
    chain = []
    changed = False
    removed_all = False
    for n in case["ns"]:
        tags.append(f"transit:n={n}")
        before = len(chain_of(m))
        try:
            m2 = pm.set_transit_compartments(m, n, keep_depot=case["keep_depot"])
        except ValueError as e:
            if "Cannot set the number of transits to 1" in str(e):
                tags.append("refused:one-transit-instantaneous")
                continue
            cls = "transit-internal-error"
            if removed_all and ("is not defined" in str(e) or "defined after being used" in str(e)):
                cls = "transit-set-after-removing-all-transits-internal-error"
            mon.append({"cls": cls, "what": f"set_transit_compartments({n}) after {before} transits raised ValueError: {e}"})
            return changed
        except Exception as e:
            mon.append({"cls": "transit-internal-error", "what": f"set_transit_compartments({n}) after {before} transits raised "
                        f"{type(e).__name__}: {e}"})
            return changed
        rates = chain_of(m2)
        depot = m2.statements.ode_system.find_compartment("DEPOT") is not None
        if len(rates) != n:
            mon.append({"cls": "transit-count", "what": f"set_transit_compartments({n}) from {before}: model has {len(rates)} TRANSIT compartments"})
            return changed
        if drv is not None:
            ans = drv.ask(["transit", [[a, b] for a, b in chain], n, "MDT", depot])
            model_chain = [(int(a), b) for a, b, _ in ans]
            if not all(num.is_Integer and den.is_Symbol for _, num, den, _ in rates):
                k.append(f"set_transit_compartments({n}): a rate is not integer/symbol: {[str(r[3]) for r in rates]}")
            elif [a for a, _ in model_chain] != [int(num) for _, num, _, _ in rates]:
                k.append(f"set_transit_compartments({n}) from {chain} (depot={depot}): model numerators {model_chain} code "
                         f"{[str(r[3]) for r in rates]}")
            chain = model_chain
        # Mon: the mean transit time through n compartments is MDT iff every rate is n/MDT (one and the same MDT symbol)
        dens = {str(den) for _, _, den, _ in rates}
        for name, num, den, e in rates:
            if not (den.is_Symbol and num == n and len(dens) == 1):
                cls = "transit-rate-not-n-over-mdt"
                if n == 1 and not depot and before > 1:
                    cls = "transit-single-remaining-rate-not-updated"
                mon.append({"cls": cls, "what": f"set_transit_compartments({n}) (from {before}, depot={depot}): rate out of {name} is {e}, "
                            f"documented {n}/MDT"})
                break
        changed = changed or before != n
        removed_all = removed_all or (n == 0 and before > 0)
        m = m2
        if n == 1 and not depot:
            tags.append("history-stopped:single-transit-without-depot-is-not-detected")
            break
    return changed


RUNNERS = {"errseq": run_errseq, "errordv": run_errordv, "ruvmod": run_ruvmod, "coveff": run_coveff, "iiv": run_iiv, "iov": run_iov, "etatrans": run_etatrans, "error": run_error,
           "allometry": run_allometry, "transit": run_transit}


def run_case(case, drv):
    rng = random.Random(case["seed"])
    k, mon, tags = [], [], [f"kind:{case['kind']}", "subset" if case.get("ids") else "full-data"]
    nontrivial = RUNNERS[case["kind"]](case, drv, rng, k, mon, tags)
    return {"k": k, "mon": mon, "tags": tags, "nontrivial": bool(nontrivial)}
