"""Wire helpers for C03 (Python side of lean/PharmpyModel/C03/Wire.lean)."""
from __future__ import annotations

_SAFE = set("abcdefghijklmnopqrstuvwxyzABCDEFGHIJKLMNOPQRSTUVWXYZ0123456789_.,:=+*/<>-$;&@#!?[]{}|^'")


def enc(s: str) -> str:
    return "~" + "".join(c if c in _SAFE else "%%%x;" % ord(c) for c in s)


def dec(a: str) -> str:
    assert a.startswith("~"), a
    out = []
    i, n = 1, len(a)
    while i < n:
        c = a[i]
        if c == "%":
            j = a.index(";", i)
            out.append(chr(int(a[i + 1:j], 16)))
            i = j + 1
        else:
            out.append(c)
            i += 1
    return "".join(out)


def pos(i, j):
    if isinstance(i, int) and isinstance(j, int):
        return [i, j]
    return "none"


def lark_tree_to_wire(node):
    """lark Tree/Token -> (n RULE (children) pos) / (t KIND value pos)."""
    from lark import Tree
    if isinstance(node, Tree):
        m = node.meta
        p = "none" if getattr(m, "empty", True) else pos(getattr(m, "start_pos", None), getattr(m, "end_pos", None))
        return ["n", str(node.data), [lark_tree_to_wire(c) for c in node.children], p]
    return ["t", str(node.type), enc(str(node)), pos(node.start_pos, node.end_pos)]


def lark_leaves(node):
    from lark import Tree
    if isinstance(node, Tree):
        out = []
        for c in node.children:
            out += lark_leaves(c)
        return out
    return [[str(node.type), str(node)]]


def attr_leaves(node):
    """AttrTree/AttrToken -> [[rule, value], ...] depth-first."""
    ch = getattr(node, "children", None)
    if ch is None:
        return [[str(node.rule), str(node.value)]]
    out = []
    for c in ch:
        out += attr_leaves(c)
    return out


def dec_leaves(ans):
    return [[k, dec(v)] for k, v in ans]
