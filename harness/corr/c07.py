"""C07 — Refactorings and pharmpy's own evaluators preserve the model function.

K   : Lean model (PharmpyModel/C07/Model.lean) vs the real make_declarative, cleanup_model (inlining pass),
      replace_non_random_rvs, rename_symbols, mu_reference_model (statement surgery) and
      get_observation_expression / prediction extractors: same statements in the same order, expressions
      compared by exact rational evaluation; the Lean side-conditions (noStaleCapture, inlineSafe, obsSafe,
      injectiveOn) are compared with independent Python classifiers.
Mon : eval(r(M)) == eval(M) at seeded exact points on the real code for every refactoring of the property
      statement, on generated statement lists (kind "prog") and on models reachable from the examples
      by a few transformations (kind "model"); gradient / prediction extractors vs direct evaluation and
      central finite differences; solve_ode_system by substituting the closed form into the ODE.
"""
from __future__ import annotations

import os
import random

# tiny matrices, many worker processes: multi-threaded BLAS only oversubscribes the machine
for _v in ("OMP_NUM_THREADS", "OPENBLAS_NUM_THREADS", "MKL_NUM_THREADS"):
    os.environ.setdefault(_v, "1")

ID = "C07"
DRIVER = "drv_c07"
LEAN_TARGETS = ["PharmpyProofs.C07.Properties", "drv_c07"]
PROPERTIES = ["PharmpyProofs/C07/Properties.lean"]
LEAN_SOURCES = ["PharmpyModel/Core/*.lean", "PharmpyModel/C07/*.lean", "PharmpyProofs/C07/*.lean",
                "PharmpyProofs/C10/Lemmas.lean", "Drivers/C07.lean"]
TIME_LIMIT = {"quick": 900, "thorough": 3000}
CASE_CPU_LIMIT = 60
RULE = ("kind=prog: statement lists over temporaries A,B,C,D,G,H, PK names CL,VC,V,S1,F and final Y on the generic "
        "pheno model (inputs: thetas, etas, epsilon, data columns): 3-12 statements with reassignment, "
        "self-referencing piecewise (NM-TRAN IF), alias assignments X=Y, eta forms theta*exp(eta)/theta+eta, "
        "assignment to a data column, optional compartmental system with generated rates; every refactoring "
        "(make_declarative, cleanup_model, rename_symbols, replace_non_random_rvs, replace_fixed_thetas, "
        "mu_reference_model, extractors) applied to each. kind=model: pheno / pheno_linear after 0-2 seeded "
        "transformations, every refactoring of the property applied. kind=wide: ODE-free model over 7-18 covariate columns, "
        "2-5 etas, 1-2 epsilons with distinct coefficients (11-25 data symbols in the compiled expressions): extractors and "
        "all numeric evaluators with every argument form. non-trivial = at least one refactoring "
        "changed the statements; distinct = distinct case JSON")
TRUSTED = [
    "Lean 4.33 kernel; axioms propext, Quot.sound, Classical.choice only (audited per theorem each run)",
    "hand-written model PharmpyModel/C07/Model.lean tied to expressions.py/common.py/random_variables.py by the "
    "correspondence run of this invocation",
    "sympy/symengine: automatic canonicalisation, subs (simultaneous), piecewise_fold, solve, diff preserve values",
    "an ODE system is an uninterpreted function of the values of its expressions (rates, doses, lag, bioavailability)",
    "harness/corr/c07.py, c07_util.py (generators, exact sequential evaluator, classifiers)",
]
ASSUMPTIONS = [
    "expressions are compared by exact evaluation at seeded rational points (exp/log kept symbolic, compared to 1e-25 "
    "relative after 40-digit evaluation), never by printed form",
    "finite differences: central, h = 1e-12 at 60 digits, relative tolerance 1e-8",
]

TEMPS = ["A", "B", "C", "D", "G", "H"]
THETAS = ["POP_CL", "POP_VC", "COVAPGR"]
ETAS = ["ETA_CL", "ETA_VC"]
EPS = ["EPS_1"]
COLS = ["WGT", "APGR", "TIME"]
SMALL = set(ETAS + EPS)

PRE_STEPS = ["none", "peripheral", "absorption", "covariate", "proportional", "combined", "joint", "lag", "fix", "iiv_ruv",
             "blockfix0", "fixvar0", "iov", "iovfix0"]


def budget(tier):
    return int(os.environ.get("VERIF_BUDGET", 0)) or {"quick": 340, "thorough": 2000}[tier]


# ---------------------------------------------------------------- generation

def gen_expr(rng, avail, depth=0):
    r = rng.random()
    if depth >= 2 or r < 0.35:
        if rng.random() < 0.85 and avail:
            return rng.choice(avail)
        return str(rng.randint(1, 9))
    a = lambda: gen_expr(rng, avail, depth + 1)
    if r < 0.55:
        return f"({a()} + {a()})"
    if r < 0.75:
        return f"({a()} * {a()})"
    if r < 0.80:
        return f"({a()})**2"
    if r < 0.86:
        return f"exp(-({a()})/50)"
    if r < 0.92:
        return f"({a()} / ({a()} + 11))"
    return f"Piecewise(({a()}, APGR < {rng.randint(1, 9)}), ({a()}, True))"


def gen_prog(rng):
    n = rng.randint(3, 11)
    with_ode = rng.random() < 0.35
    ode_at = rng.randint(1, n - 1) if with_ode else None
    stmts, defined = [], []
    leaves = THETAS + ETAS + COLS
    for i in range(n):
        if with_ode and i == ode_at:
            pool = defined + THETAS + COLS[:1]
            stmts.append(["ode", {"cl": rng.choice(pool), "v": rng.choice(pool), "two": rng.random() < 0.4,
                                  "q": rng.choice(pool), "dose": rng.choice(["AMT"] + defined)}])
            continue
        avail = defined + leaves
        if with_ode and i > ode_at and rng.random() < 0.5:
            avail = avail + ["A_CENTRAL(t)"]
        r = rng.random()
        x = rng.choice(TEMPS)
        if r < 0.16 and defined:
            e = rng.choice(avail)                                   # alias
        elif r < 0.30 and defined:
            x = rng.choice([d for d in defined if d not in COLS] or TEMPS)     # NM-TRAN IF: self-referencing piecewise
            e = f"Piecewise(({gen_expr(rng, avail, 1)}, APGR < {rng.randint(1, 9)}), ({x}, True))"
        elif r < 0.40:
            th, eta = rng.choice(THETAS[:2] + defined[:2]), rng.choice(ETAS)   # eta forms (mu referencing)
            e = rng.choice([f"{th}*exp({eta})", f"{th} + {eta}", f"{th}*exp({eta})*WGT", f"{th}*(1 + {eta})"])
        elif r < 0.45:
            x = "WGT"                                               # assignment to a data column
            e = gen_expr(rng, avail)
        else:
            e = gen_expr(rng, avail)
        stmts.append(["=", x, e])
        if x not in defined:
            defined.append(x)
    last = rng.choice(defined)
    form = rng.random()
    if form < 0.6:
        stmts.append(["=", "Y", f"{last} + {last}*EPS_1"])
    elif form < 0.8:
        stmts.append(["=", "Y", f"{last} + EPS_1"])
        stmts.append(["=", "Y", f"Piecewise((Y*2, APGR < {rng.randint(1, 9)}), (Y, True))"])
    else:
        stmts.append(["=", "Y", f"{last}*exp(EPS_1)"])
    return stmts


def gen_rv(rng):
    """Random-effect structure on the generic pheno base: ETA_CL / ETA_VC separate or joint (BLOCK), every variance /
    covariance parameter left estimated, fixed at its value, or fixed to 0 (kept positive semi-definite: a zero
    variance forces a zero covariance)."""
    pick = lambda: rng.choice([None, None, "keep", 0, 0])
    joint = rng.random() < 0.7
    fix = {"IIV_CL": pick(), "IIV_VC": pick()}
    if joint:
        fix["COV"] = pick()
        if fix["IIV_CL"] == 0 or fix["IIV_VC"] == 0:
            fix["COV"] = 0
    return {"joint": joint, "fix": fix}


def gen_wide(rng):
    """An ODE-free model over MANY data symbols: 7-18 covariate columns, 2-5 etas, 1-2 epsilons, every one with its own
    coefficient (nothing symmetric), so that the expression the evaluators compile has 11-25 distinct data symbols."""
    ncov, neta, neps = rng.randint(7, 18), rng.randint(2, 5), rng.randint(1, 2)
    covs = [f"C{i}" for i in range(1, ncov + 1)]
    nth = min(ncov, 9)
    coef = rng.sample(range(2, 40), ncov)
    half = max(3, ncov // 2)
    stmts = [["=", "BASE", " + ".join(f"{coef[i]}*TH{i % nth + 1}*{covs[i]}" for i in range(half))]]
    rest = covs[half:]
    for j in range(1, neta + 1):
        c = rest[(j - 1) % len(rest)]
        k = coef[(half + j) % ncov]
        form = rng.randrange(3)
        e = [f"(TH{j % nth + 1}*{c} + {k})*exp(ETA_{j})", f"(TH{j % nth + 1}*{c}*{k} + ETA_{j})", f"{k}*{c}*(1 + ETA_{j})"][form]
        stmts.append(["=", f"P{j}", e])
    tail = " + ".join(f"{coef[(half + neta + i) % ncov]}*{c}" for i, c in enumerate(rest[neta:])) or "1"
    stmts.append(["=", "Q", tail])
    prod = "*".join(f"P{j}" for j in range(1, neta + 1, 2))
    den = " + ".join(f"P{j}" for j in range(2, neta + 1, 2))
    stmts.append(["=", "F", f"BASE*{prod}/({den} + 11*Q + 13)"])
    if rng.random() < 0.4:
        stmts.append(["=", "F", f"Piecewise((F*2, {rng.choice(covs)} < 2), (F, True))"])
    y = "F + F*EPS_1" + (f" + {rng.choice(covs)}*EPS_2" if neps == 2 else "")
    stmts.append(["=", "Y", y])
    return {"kind": "wide", "covs": covs, "nth": nth, "neta": neta, "neps": neps, "stmts": stmts, "seed": rng.randrange(1 << 30)}


def gen_cases(rng, n, tier):
    out = []
    for i in range(n):
        if i % 7 == 3:
            out.append(gen_wide(rng))
            continue
        if i % 7 == 6:
            out.append({"kind": "model", "base": rng.choice(["pheno", "pheno", "pheno", "pheno_linear"]),
                        "pre": [rng.choice(PRE_STEPS) for _ in range(rng.randint(0, 2))], "seed": rng.randrange(1 << 30)})
            continue
        stmts = gen_prog(rng)
        targets = [s[1] for s in stmts if s[0] == "="]
        pool = sorted(set(targets) - {"Y", "WGT"}) + THETAS + ETAS
        k = rng.randint(1, 3)
        olds = rng.sample(pool, min(k, len(pool)))
        table = []
        for o in olds:
            if rng.random() < 0.12:
                table.append([o, rng.choice(pool)])          # possible clash (documented: caller's duty)
            else:
                table.append([o, "R_" + o])
        base = rng.choice(["plain", "zero", "fixed", "rv", "rv"])
        case = {"kind": "prog", "stmts": stmts, "base": base, "rename": table, "seed": rng.randrange(1 << 30)}
        if base == "rv":
            case["rv"] = gen_rv(rng)
        out.append(case)
    return out


def corpus_cases():
    A = lambda x, e: ["=", x, e]
    return [
        # F8 (fixed by e5b2100): first occurrence of a later re-assigned symbol was stored un-substituted
        {"kind": "prog", "stmts": [A("A", "1"), A("B", "A"), A("A", "2"), A("B", "B + A"), A("Y", "POP_CL + B + EPS_1")],
         "base": "plain", "rename": [["A", "R_A"]], "seed": 1},
        # pending value reads an input that is assigned before the pending symbol's last assignment
        {"kind": "prog", "stmts": [A("A", "WGT"), A("WGT", "5"), A("A", "A + 1"), A("Y", "A + EPS_1")],
         "base": "plain", "rename": [["A", "R_A"]], "seed": 2},
        # alias chain in cleanup_model
        {"kind": "prog", "stmts": [A("A", "WGT"), A("C", "A"), A("D", "C"), A("Y", "D + EPS_1")],
         "base": "plain", "rename": [["C", "R_C"]], "seed": 3},
        # the pheno shape with ODE
        {"kind": "prog", "stmts": [A("A", "POP_VC*WGT"), A("A", "Piecewise((A*(1 + COVAPGR), APGR < 5), (A, True))"),
                                   A("CL", "POP_CL*exp(ETA_CL)"), A("V", "A*exp(ETA_VC)"), A("S1", "V"),
                                   ["ode", {"cl": "CL", "v": "V", "two": False, "q": "CL", "dose": "AMT"}],
                                   A("F", "A_CENTRAL(t)/S1"), A("Y", "F + F*EPS_1")],
         "base": "fixed", "rename": [["POP_CL", "R_POP_CL"], ["ETA_VC", "R_ETA_VC"]], "seed": 4},
        # DV assigned twice: get_observation_expression takes the first assignment
        {"kind": "prog", "stmts": [A("A", "POP_CL*exp(ETA_CL)"), A("Y", "A + EPS_1"),
                                   A("Y", "Piecewise((Y*2, APGR < 5), (Y, True))")],
         "base": "zero", "rename": [["A", "R_A"]], "seed": 5},
        # proportional eta (mu must be solved for all eta, not at eta = 0) and additive eta
        {"kind": "prog", "stmts": [A("CL", "POP_CL*(1 + ETA_CL)"), A("V", "POP_VC + ETA_VC"), A("Y", "CL/V + EPS_1")],
         "base": "plain", "rename": [["CL", "R_CL"]], "seed": 9},
        # fixed omega (fixed by 4dd8d54): replace_fixed_thetas removed it from the parameters
        {"kind": "model", "base": "pheno_linear", "pre": ["fix"], "seed": 10},
        # data-independent value with data symbols (eval_expr scalar result, fixed by 8459299); symbol-keyed parameters
        # for evaluate_expression (20af928) and WRES with parameters/dataset (c665448) are exercised by every ODE-free case
        {"kind": "prog", "stmts": [A("B", "Piecewise((2, APGR < 3), (6, True))"), A("Y", "B + B*EPS_1")],
         "base": "plain", "rename": [["B", "R_B"]], "seed": 11},
        {"kind": "prog", "stmts": [A("CL", "POP_CL*exp(ETA_CL)"), A("Y", "CL*WGT + EPS_1")],
         "base": "plain", "rename": [["CL", "R_CL"]], "seed": 12},
        # joint block whose covariance alone is fixed to 0: both etas are random and must survive cleanup_model
        {"kind": "prog", "stmts": [A("CL", "POP_CL*exp(ETA_CL)"), A("V", "POP_VC*exp(ETA_VC)"), A("Y", "CL/V + EPS_1")],
         "base": "rv", "rv": {"joint": True, "fix": {"IIV_CL": None, "IIV_VC": None, "COV": 0}}, "rename": [["CL", "R_CL"]], "seed": 13},
        {"kind": "prog", "stmts": [A("CL", "POP_CL*exp(ETA_CL)"), A("V", "POP_VC*exp(ETA_VC)"), A("Y", "CL/V + EPS_1")],
         "base": "rv", "rv": {"joint": True, "fix": {"IIV_CL": 0, "IIV_VC": "keep", "COV": 0}}, "rename": [["CL", "R_CL"]], "seed": 14},
        {"kind": "model", "base": "pheno", "pre": ["blockfix0"], "seed": 15},
        {"kind": "model", "base": "pheno", "pre": ["iov", "iovfix0"], "seed": 16},
        # twelve data symbols in the compiled expression (nine covariates, three etas), nothing symmetric
        {"kind": "wide", "covs": [f"C{i}" for i in range(1, 10)], "nth": 9, "neta": 3, "neps": 1, "seed": 17,
         "stmts": [A("BASE", "3*TH1*C1 + 5*TH2*C2 + 7*TH3*C3 + 11*TH4*C4 + 13*TH5*C5 + 17*TH6*C6"), A("P1", "(TH7*C7 + 2)*exp(ETA_1)"),
                   A("P2", "(TH8*C8*19 + ETA_2)"), A("P3", "23*C9*(1 + ETA_3)"), A("F", "BASE*P1*P3/(P2 + 13)"), A("Y", "F + F*EPS_1")]},
        {"kind": "model", "base": "pheno", "pre": [], "seed": 6},
        {"kind": "model", "base": "pheno", "pre": ["peripheral", "absorption"], "seed": 7},
        {"kind": "model", "base": "pheno_linear", "pre": [], "seed": 8},
    ]


def shrink(case):
    if case.get("kind") == "wide":
        st = case["stmts"]
        for i in range(len(st) - 1):
            c = dict(case)
            c["stmts"] = st[:i] + st[i + 1:]
            yield c
        return
    if case.get("kind") != "prog":
        if case.get("pre"):
            for i in range(len(case["pre"])):
                c = dict(case)
                c["pre"] = case["pre"][:i] + case["pre"][i + 1:]
                yield c
        return
    st = case["stmts"]
    for i in range(len(st) - 1):
        c = dict(case)
        c["stmts"] = st[:i] + st[i + 1:]
        yield c
    if len(case["rename"]) > 1:
        c = dict(case)
        c["rename"] = case["rename"][:1]
        yield c


# ---------------------------------------------------------------- real-code side

def worker_init():
    global sympy, pm, Assignment, Statements, Expr, Compartment, CompartmentalSystemBuilder, CompartmentalSystem
    global Bolus, output, exprconv, U, EV, BASES, EXAMPLES
    import sympy  # noqa
    import pharmpy.modeling as pm  # noqa
    from pharmpy.basic import Expr  # noqa
    from pharmpy.model import (Assignment, Bolus, Compartment, CompartmentalSystem,  # noqa
                               CompartmentalSystemBuilder, Statements, output)
    from harness.common import exprconv  # noqa
    from harness.corr import c07_util as U  # noqa
    from harness.corr import c07_eval as EV  # noqa
    pheno = pm.load_example_model("pheno")
    g = pm.convert_model(pheno, "generic")
    BASES = {"plain": g, "fixed": pm.fix_parameters_to(g, {"COVAPGR": 0.5}),
             "zero": pm.fix_parameters_to(g, {"IIV_VC": 0})}
    EXAMPLES = {"pheno": pheno, "pheno_linear": pm.load_example_model("pheno_linear")}


_RV_CACHE = {}


def _rv_base(spec):
    key = repr(sorted(spec["fix"].items())) + str(spec["joint"])
    if key not in _RV_CACHE:
        g = BASES["plain"]
        if spec["joint"]:
            before = set(g.parameters.names)
            g = pm.create_joint_distribution(g, ["ETA_CL", "ETA_VC"], individual_estimates=None)
            cov = [n for n in g.parameters.names if n not in before][0]
        to0, keep = {}, []
        for nm, v in spec["fix"].items():
            name = cov if nm == "COV" else nm
            if v == 0:
                to0[name] = 0
            elif v == "keep":
                keep.append(name)
        if to0:
            g = pm.fix_parameters_to(g, to0)
        if keep:
            g = pm.fix_parameters(g, keep)
        _RV_CACHE[key] = g
    return _RV_CACHE[key]


def _zero_fixed(m):
    return [p.name for p in m.parameters if p.fix and p.init == 0]


def _legit_zero_rvs(m):
    """Random variables the distribution pins to 0: their own variance is fixed to zero."""
    zf = set(_zero_fixed(m))
    out = []
    for dist in m.random_variables:
        for n in dist.names:
            if str(dist.get_variance(n)) in zf:
                out.append(n)
    return out


def _entitled(m):
    """Values every refactoring is entitled to assume: fixed thetas at their value, parameters fixed to zero at 0,
    random variables whose variance is fixed to zero at 0."""
    ov = {n: sympy.Rational(str(m.parameters[n].init)) for n in _fixed_thetas(m)}
    ov.update({n: sympy.Integer(0) for n in _zero_fixed(m) if n in m.random_variables.parameter_names})
    ov.update({n: sympy.Integer(0) for n in _legit_zero_rvs(m)})
    return ov


def _check_non_random(M, w, drv, seed, small, rng, tags, k, mon, what=""):
    """replace_non_random_rvs: K on which random variables / parameters are removed and on the statements; monitors:
    only random variables without variability are removed, the model function is unchanged where those are 0."""
    R = _call(mon, tags, "replace_non_random_rvs", lambda: pm.replace_non_random_rvs(M))
    if R is None:
        return False
    zf = _zero_fixed(M)
    legit = set(_legit_zero_rvs(M))
    removed = [n for n in M.random_variables.names if n not in R.random_variables.names]
    removed_p = [n for n in M.parameters.names if n not in R.parameters.names]
    tags.append("nonrandom:removed=" + str(len(removed)) + ("/joint" if any(len(d.names) > 1 for d in M.random_variables) else ""))
    bad = [n for n in removed if n not in legit]
    if bad:
        mon.append({"cls": "replace-non-random-rvs-removes-random-rv", "what": f"{what}replace_non_random_rvs removed {bad} whose variance "
                    f"is not fixed to zero (zero-fixed parameters: {zf}; distributions: {[(list(d.names), list(d.parameter_names)) for d in M.random_variables]})"})
    lost = [n for n in R.random_variables.parameter_names if n not in R.parameters.names]
    if lost:
        mon.append({"cls": "replace-non-random-rvs-loses-rv-parameter", "what": f"{what}replace_non_random_rvs: remaining random variables use {lost}, no longer parameters"})
    ov = _entitled(M)
    diff = U.compare_eval(U.evaluate(M.statements, seed, small=small, override=ov),
                          U.evaluate(R.statements, seed, small=small, override=ov))
    if diff:
        mon.append({"cls": "replace-non-random-rvs-changes-value", "what": f"{what}replace_non_random_rvs changed the model function "
                    f"(random variables with non-zero variance at non-zero values): {diff}"})
    if drv is not None and w is not None:
        dists = [[list(d.names), list(d.parameter_names)] for d in M.random_variables]
        ans = drv.ask(["nonrandom", zf, dists, w])
        syms = set(ans[0])
        if {n for n in M.random_variables.names if n in syms} != set(removed) or \
                {n for n in M.parameters.names if n in syms} != set(removed_p):
            k.append(f"replace_non_random_rvs: model removes {sorted(syms)}, code removes rvs {removed} parameters {removed_p}")
        if [list(x) for x in ans[1]] != [list(d.names) for d in R.random_variables]:
            k.append(f"replace_non_random_rvs: model keeps {ans[1]}, code keeps {[list(d.names) for d in R.random_variables]}")
        k += U.compare_wire(ans[2], R.statements, rng, "replace_non_random_rvs")
    return list(R.statements) != list(M.statements)


def build_statements(stmts):
    sts = []
    for s in stmts:
        if s[0] == "=":
            sts.append(Assignment.create(s[1], s[2]))
        else:
            spec = s[1]
            cb = CompartmentalSystemBuilder()
            central = Compartment.create("CENTRAL", doses=(Bolus.create(spec["dose"]),))
            cb.add_compartment(central)
            cb.add_flow(central, output, f"{spec['cl']}/{spec['v']}")
            if spec["two"]:
                peri = Compartment.create("PERIPHERAL")
                cb.add_compartment(peri)
                cb.add_flow(central, peri, f"{spec['q']}/{spec['v']}")
                cb.add_flow(peri, central, f"{spec['q']}/11")
            sts.append(CompartmentalSystem(cb))
    return Statements(sts)


def _norm(x):
    if isinstance(x, list):
        return [_norm(y) for y in x]
    return str(x)


def _call(mon, tags, what, fn, refusal=(), model=None):
    """Run a refactoring of the real code; an exception that is not a documented refusal is an internal error."""
    try:
        return fn()
    except Exception as e:
        if type(e).__name__ == "CaseTimeout":
            raise
        if refusal and isinstance(e, refusal):
            tags.append(f"{what}:refused-{type(e).__name__}")
            return None
        if model is not None and type(e).__name__ == "UnexpectedToken" and "'FIX'" in str(e) and any(
                d.level == "IOV" and any(model.parameters[n].fix for n in d.parameter_names) for d in model.random_variables.etas):
            # NONMEM code generation: a fixed IOV omega is written as `$OMEGA BLOCK(1) SAME FIX`, which pharmpy's own
            # $OMEGA grammar rejects when the record is re-parsed (any refactoring that regenerates the omegas)
            mon.append({"cls": "nonmem-fixed-iov-omega-same-fix-unparsable", "what": f"{what} raised UnexpectedToken: {str(e)[:120]}"})
            return None
        mon.append({"cls": f"internal-error:{what}", "what": f"{what} raised {type(e).__name__}: {str(e)[:200]}"})
        return None


def _wire_or_none(sts, tags):
    try:
        return U.wire(sts)
    except exprconv.Unsupported as e:
        tags.append("wire-unsupported:" + str(e).split(":")[0][:30])
        return None


def run_case(case, drv):
    if case["kind"] == "prog":
        return run_prog(case, drv)
    if case["kind"] == "wide":
        return run_wide(case, drv)
    return run_model(case, drv)


# ---------------------------------------------------------------- kind = wide

def build_wide(case):
    from pharmpy.model import DataInfo, Model, NormalDistribution, Parameter, Parameters, RandomVariables
    import pandas as pd
    r = random.Random(case["seed"] ^ 0xDA7A)
    nid, nobs = 3, 3
    data = {"ID": [i for i in range(1, nid + 1) for _ in range(nobs)], "TIME": [float(t) for _ in range(nid) for t in range(nobs)],
            "DV": [r.randint(100, 300) / 100 for _ in range(nid * nobs)]}
    for c in case["covs"]:
        data[c] = [r.randint(50, 400) / 100 for _ in range(nid * nobs)]
    df = pd.DataFrame(data)
    params = [Parameter.create(f"TH{i}", init=(30 + 17 * i) / 100) for i in range(1, case["nth"] + 1)]
    params += [Parameter.create(f"OM{j}", init=(8 + j) / 100) for j in range(1, case["neta"] + 1)]
    params += [Parameter.create(f"SI{j}", init=(3 + j) / 100) for j in range(1, case["neps"] + 1)]
    dists = [NormalDistribution.create(f"ETA_{j}", "iiv", 0, f"OM{j}") for j in range(1, case["neta"] + 1)]
    dists += [NormalDistribution.create(f"EPS_{j}", "ruv", 0, f"SI{j}") for j in range(1, case["neps"] + 1)]
    di = DataInfo.create(list(df.columns)).set_id_column("ID").set_idv_column("TIME").set_dv_column("DV")
    return Model.create(name="wide", parameters=Parameters.create(params), random_variables=RandomVariables.create(dists),
                        statements=build_statements(case["stmts"]), dataset=df, datainfo=di,
                        dependent_variables={Expr.symbol("Y"): 1})


def run_wide(case, drv):
    """Extractors and numeric evaluators on a model whose compiled expressions have many data symbols."""
    global SMALL
    seed = case["seed"]
    rng = random.Random(seed)
    k, mon, tags = [], [], []
    M = build_wide(case)
    w = _wire_or_none(M.statements, tags)
    saved = SMALL
    try:
        SMALL = set(M.random_variables.names)
        k2, m2 = _extractors(M, w, drv, rng, seed, tags)
    finally:
        SMALL = saved
    k += k2
    mon += m2
    if "obs-safe" in tags:
        nsym = len({str(x) for x in exprconv.to_sympy(pm.get_individual_prediction_expression(M)).free_symbols}
                   - set(M.parameters.names))
        tags.append(f"wide:data-symbols={'>10' if nsym > 10 else '<=10'}")
        k3, m3 = EV.run(pm, Expr, M, w, drv, seed, tags, what=f"wide({len(case['covs'])} covariates, {case['neta']} etas): ")
        k += k3
        mon += m3
    return {"k": k, "mon": mon, "tags": tags + ["kind=wide"], "nontrivial": True}


# ---------------------------------------------------------------- kind = prog

def run_prog(case, drv):
    rng = random.Random(case["seed"])
    seed = case["seed"]
    k, mon, tags = [], [], []
    base = _rv_base(case["rv"]) if case["base"] == "rv" else BASES[case["base"]]
    ss = build_statements(case["stmts"])
    try:
        M = base.replace(statements=ss)
    except ValueError as e:
        return {"k": [], "mon": [], "tags": ["prog-rejected-by-model-validation"], "nontrivial": False}
    has_ode = M.statements.ode_system is not None
    tags += [f"base={case['base']}", "ode" if has_ode else "no-ode", f"len={len(ss)}"]
    w = _wire_or_none(M.statements, tags)
    ev0 = U.evaluate(M.statements, seed, small=SMALL)
    changed = False

    # ---------- make_declarative
    md_bad = U.md_classify(_norm(w)) if w is not None else set()
    tags.append("md-safe" if not md_bad else "md-stale-" + "+".join(sorted(md_bad)))
    R = _call_md(mon, tags, M, md_bad)
    md_sts = None
    if R is not None:
        md_sts = R.statements
        changed |= list(md_sts) != list(M.statements)
        lhs = [str(s.symbol) for s in md_sts if U.is_assignment(s)]
        if len(lhs) != len(set(lhs)):
            mon.append({"cls": "make-declarative-not-declarative", "what": f"a symbol is assigned twice in the result: {lhs}"})
        diff = U.compare_eval(ev0, U.evaluate(md_sts, seed, small=SMALL))
        if diff:
            mon.append({"cls": _md_class(md_bad), "what": f"make_declarative changed the model function: {diff}"})
        if drv is not None and w is not None:
            ans = drv.ask(["md", w])
            k += U.compare_wire(ans[0], md_sts, rng, "make_declarative")
            if ans[0] != ans[2]:
                k.append("make_declarative: structural model and index-list transcription disagree")
            if (ans[1] == "true") != (not md_bad):
                k.append(f"noStaleCapture: Lean {ans[1]}, Python classifier {sorted(md_bad)}")

    # ---------- cleanup_model (inlining pass isolated against the real make_declarative output)
    if md_sts is not None:
        wmd = _wire_or_none(md_sts, tags)
        inl_bad = U.inline_classify(_norm(wmd)) if wmd is not None else set()
        tags.append("inline-safe" if not inl_bad else "inline-" + "+".join(sorted(inl_bad)))
        try:
            C = pm.cleanup_model(M)
        except ValueError as e:
            C = None
            msg = str(e)
            if "is not defined" in msg or "defined after being used" in msg:
                cls = "cleanup-alias-chain" if "chain" in inl_bad else "cleanup-dangling-symbol"
                mon.append({"cls": cls, "what": f"cleanup_model of a valid model raised ValueError: {msg}"})
            else:
                mon.append({"cls": "internal-error:cleanup_model", "what": f"cleanup_model raised ValueError: {msg[:200]}"})
        except Exception as e:
            if type(e).__name__ == "CaseTimeout":
                raise
            C = None
            mon.append({"cls": "internal-error:cleanup_model", "what": f"cleanup_model raised {type(e).__name__}: {str(e)[:200]}"})
        if C is not None:
            cs = C.statements
            changed |= list(cs) != list(md_sts)
            nfixed = len(_fixed_thetas(M)) if case["base"] == "fixed" else 0
            body = cs[nfixed:]
            ev_md = U.evaluate(md_sts, seed, small=SMALL, override=_entitled(M))
            ev_c = U.evaluate(cs, seed, small=SMALL, override=_entitled(M))
            kept = [str(s.symbol) for s in body if U.is_assignment(s)]
            bad_rm = [n for n in M.random_variables.names if n not in C.random_variables.names and n not in _legit_zero_rvs(M)]
            if bad_rm:
                mon.append({"cls": "replace-non-random-rvs-removes-random-rv", "what": f"cleanup_model removed {bad_rm} whose variance is not fixed to zero"})
            diff = U.compare_eval(ev_md, ev_c, symbols=kept)
            if diff is None and "Y" not in ev_c[0]:
                diff = "the dependent variable Y is no longer defined"
            if diff:
                cls = ("cleanup-alias-chain" if "chain" in inl_bad else
                       "cleanup-alias-redefined" if "redefine" in inl_bad else "cleanup-changes-value")
                mon.append({"cls": cls, "what": f"cleanup_model changed the model function (vs make_declarative's output): {diff}"})
            if drv is not None and wmd is not None and case["base"] == "plain":
                ans = drv.ask(["inline", wmd])
                k += U.compare_wire(ans[0], cs, rng, "cleanup_model")
                if (ans[1] == "true") != (not inl_bad):
                    k.append(f"inlineSafe: Lean {ans[1]}, Python classifier {sorted(inl_bad)}")

    # ---------- rename_symbols
    table = {a: b for a, b in case["rename"]}
    univ = sorted({str(o) for o in U.inputs_of(M.statements)} | set(M.parameters.names) | set(M.random_variables.names))
    f = lambda x: table.get(x, x)
    injective = len({f(x) for x in univ}) == len(univ)
    tags.append("rename-injective" if injective else "rename-clash")
    R = _call(mon, tags, "rename_symbols", lambda: pm.rename_symbols(M, table), refusal=(ValueError,) if not injective else ())
    if R is not None:
        changed = True
        if injective:
            inv = {f(x): x for x in univ}
            inv.update({f"A_{c}(t)": f"A_{c}(t)" for c in ("CENTRAL", "PERIPHERAL")})
            diff = U.compare_eval(ev0, U.evaluate(R.statements, seed, name_map=inv, small=SMALL), rename={x: f(x) for x in univ})
            if diff:
                mon.append({"cls": "rename-changes-value", "what": f"rename_symbols({table}) changed the model function: {diff}"})
            missing = [f(p) for p in M.parameters.names if f(p) not in R.parameters.names] + \
                      [f(p) for p in M.random_variables.names if f(p) not in R.random_variables.names]
            if missing:
                mon.append({"cls": "rename-loses-parameter", "what": f"rename_symbols({table}): {missing} not among parameters/rvs"})
        if drv is not None and w is not None:
            ans = drv.ask(["rename", [[a, b] for a, b in table.items()], w, univ])
            k += U.compare_wire(ans[0], R.statements, rng, "rename_symbols")
            if (ans[1] == "true") != injective:
                k.append(f"injectiveOn: Lean {ans[1]}, Python {injective}")

    # ---------- replace_non_random_rvs / replace_fixed_thetas
    changed |= _check_non_random(M, w, drv, seed, SMALL, rng, tags, k, mon)
    if case["base"] == "fixed":
        R = _call(mon, tags, "replace_fixed_thetas", lambda: pm.replace_fixed_thetas(M))
        if R is not None:
            changed = True
            ov = _entitled(M)
            diff = U.compare_eval(U.evaluate(M.statements, seed, small=SMALL, override=ov),
                                  U.evaluate(R.statements, seed, small=SMALL, override=ov))
            if diff:
                mon.append({"cls": "replace-fixed-thetas-changes-value", "what": f"replace_fixed_thetas: {diff}"})
            fixed = _fixed_thetas(M)
            head = [str(s.symbol) for s in R.statements[:len(fixed)] if U.is_assignment(s)]
            if head != fixed or list(R.statements[len(fixed):]) != list(M.statements) or set(fixed) & set(R.parameters.names):
                k.append(f"replace_fixed_thetas: result is not [theta = init for fixed thetas {fixed}] ++ statements (prependConsts)")

    # ---------- mu_reference_model
    R = _call(mon, tags, "mu_reference_model", lambda: pm.mu_reference_model(M), refusal=(IndexError, NotImplementedError))
    if R is not None:
        rs = R.statements
        if list(rs) != list(M.statements):
            changed = True
            tags.append("mu-referenced")
        ev_r = U.evaluate(rs, seed, small=SMALL)
        diff = U.compare_eval(ev0, ev_r)
        if diff:
            mon.append({"cls": _mu_class(M), "what": f"mu_reference_model changed the model function: {diff}"})
        if drv is not None and w is not None:
            kk = _mu_surgery(drv, M.statements, rs, rng, tags)
            k += kk

    # ---------- extractors (ODE-free programs)
    if not has_ode:
        k2, m2 = _extractors(M, w, drv, rng, seed, tags)
        k += k2
        mon += m2
        if "obs-safe" in tags:
            k3, m3 = EV.run(pm, Expr, M, w, drv, seed, tags)
            k += k3
            mon += m3
    return {"k": k, "mon": mon, "tags": tags, "nontrivial": bool(changed)}


def _md_class(md_bad):
    return ("make-declarative-pending-value-reads-reassigned-symbol" if "emit" in md_bad else
            "make-declarative-changes-value")


def _call_md(mon, tags, M, md_bad):
    """make_declarative on the real code.  A stale capture can make the result read a symbol before its (now single)
    definition; the model validation inside make_declarative then raises ValueError — same witness classes."""
    try:
        return pm.make_declarative(M)
    except Exception as e:
        if type(e).__name__ == "CaseTimeout":
            raise
        msg = str(e)
        if isinstance(e, ValueError) and md_bad and ("defined after being used" in msg or "is not defined" in msg):
            mon.append({"cls": _md_class(md_bad), "what": f"make_declarative of a valid model raised ValueError: {msg}"})
        else:
            mon.append({"cls": "internal-error:make_declarative", "what": f"make_declarative raised {type(e).__name__}: {msg[:200]}"})
        return None


def _fixed_thetas(m):
    """The parameters replace_fixed_thetas replaces (since 4dd8d54): fixed parameters that are thetas, in order."""
    thetas = set(pm.get_thetas(m).names)
    return [p.name for p in m.parameters if p.fix and p.name in thetas]


def _fixed_variance_params(m, after_non_random=False):
    """Fixed parameters that are variance/covariance parameters of a random variable of the model (replace_fixed_thetas
    iterates over *all* fixed parameters, not only thetas).  With `after_non_random` the distributions that
    replace_non_random_rvs removes first (all parameters fixed to 0) are left out, as in cleanup_model."""
    out = []
    for dist in m.random_variables:
        ps = [m.parameters[n] for n in dist.parameter_names if n in m.parameters.names]
        if after_non_random and ps and all(q.fix and q.init == 0 for q in ps):
            continue
        out += [q.name for q in ps if q.fix]
    return sorted(set(out))


def _rft_check(mon, what, src, R):
    """replace_fixed_thetas / cleanup_model must not drop a parameter a remaining random variable uses."""
    lost = [n for n in R.random_variables.parameter_names if n not in R.parameters.names]
    if lost:
        cls = ("replace-fixed-thetas-removes-fixed-variance-parameter"
               if set(lost) <= set(_fixed_variance_params(src)) else "refactoring-loses-rv-parameter")
        mon.append({"cls": cls, "what": f"{what}: random variables still use {lost}, which are no longer parameters of the model"})


def _rft_exception_class(src, e, what, after_non_random=False):
    fv = _fixed_variance_params(src, after_non_random)
    if isinstance(e, KeyError) and "Could not find" in str(e) and any(n in str(e) for n in fv):
        return "replace-fixed-thetas-removes-fixed-variance-parameter"
    return f"internal-error:{what}"


def _mu_class(M):
    """Witness class of a mu_reference_model failure: (1) an eta occurs in an assignment whose expression is (or
    contains) a Piecewise — `as_independent` + `sympy.solve` then produce a partial (nan) mu; (2) the eta reaches the
    assignment a second time through another symbol it reads, so the solved mu depends on the eta itself
    (log of a quantity that is zero / negative for some eta); (3) the eta occurs more than once inside one assignment
    (e.g. exp(-ETA/50)/(ETA+11)): `sympy.solve(old_def - new_def, mu)` returns a LambertW root of another branch instead
    of mu = 0."""
    etas = {sympy.Symbol(n) for n in M.random_variables.etas.names}
    for s in M.statements.before_odes:
        e = exprconv.to_sympy(s.expression)
        if e.free_symbols & etas and e.has(sympy.Piecewise):
            return "mu-reference-piecewise-eta"
    sts = M.statements.before_odes
    for i, s in enumerate(sts):
        e = exprconv.to_sympy(s.expression)
        for eta in e.free_symbols & etas:
            for other in e.free_symbols - {eta}:
                try:
                    full = exprconv.to_sympy(sts[:i].full_expression(Expr.symbol(str(other))))
                except Exception as ex:
                    if type(ex).__name__ == "CaseTimeout":
                        raise
                    continue
                if eta in full.free_symbols:
                    return "mu-reference-eta-reaches-twice"
    for s in sts:
        e = exprconv.to_sympy(s.expression)
        if any(e.count(eta) > 1 for eta in e.free_symbols & etas):
            return "mu-reference-eta-occurs-twice-in-assignment"
    return "mu-reference-changes-value"


def _mu_surgery(drv, old, new, rng, tags):
    """Tie of the statement surgery of mu_reference_model: replay every inserted `mu_i = m; x = e'` pair through
    the Lean `muInsert` starting from the original statements and compare the final list."""
    old, new = list(old), list(new)
    try:
        cur = U.wire(old)
    except exprconv.Unsupported:
        return []
    i = j = 0
    steps = []
    while j < len(new):
        s = new[j]
        if (U.is_assignment(s) and str(s.symbol).startswith("mu_") and j + 1 < len(new) and i < len(old)
                and (not U.is_assignment(old[i]) or str(old[i].symbol) != str(s.symbol))):
            steps.append((j, str(s.symbol), s.expression, new[j + 1].expression))
            j += 2
            i += 1
        else:
            j += 1
            i += 1
    out = []
    try:
        for (pos, mu, m, e2) in steps:
            cur = drv.ask(["muins", cur, pos, mu, exprconv.to_sexp(m), exprconv.to_sexp(e2)])
            if cur and cur[0] == "err":
                return [f"mu_reference_model: driver rejected step {pos}"]
    except exprconv.Unsupported:
        tags.append("wire-unsupported")
        return []
    if steps:
        tags.append(f"mu-steps={len(steps)}")
    out += U.compare_wire(cur, new, rng, "mu_reference_model")
    return out


def _fd(fun, x0, h):
    return (fun(x0 + h) - fun(x0 - h)) / (2 * h)


def _extractors(M, w, drv, rng, seed, tags):
    k, mon = [], []
    names_eta = list(M.random_variables.etas.names)
    names_eps = list(M.random_variables.epsilons.names)
    sts = M.statements
    ylhs = [i for i, s in enumerate(sts) if U.is_assignment(s) and str(s.symbol) == "Y"]
    obs_safe = len(ylhs) == 1 and sympy.Symbol("Y") not in exprconv.to_sympy(sts[ylhs[0]].expression).free_symbols
    tags.append("obs-safe" if obs_safe else "obs-dv-reassigned")

    def direct(override):
        return U.evaluate(sts, seed, small=SMALL, override=override)[0].get("Y")

    def at_point(expr, override=None):
        e = exprconv.to_sympy(expr)
        env = {}
        for o in e.free_symbols | e.atoms(sympy.core.function.AppliedUndef):
            nm = str(o)
            env[o] = (override or {}).get(nm, U.value_of(seed, nm, "small" if nm in SMALL else "pos"))
        v = e.xreplace(env)
        return sympy.piecewise_fold(v) if v.has(sympy.Piecewise) else v

    zero_eps = {n: sympy.Integer(0) for n in names_eps}
    zero_all = dict(zero_eps, **{n: sympy.Integer(0) for n in names_eta})
    for what, fn, ov, drvreq in [
        ("get_observation_expression", pm.get_observation_expression, {}, ["obs", w, "Y"]),
        ("get_individual_prediction_expression", pm.get_individual_prediction_expression, zero_eps, ["pred", w, "Y", names_eps]),
        ("get_population_prediction_expression", pm.get_population_prediction_expression, zero_all,
         ["pred", w, "Y", names_eps + names_eta]),
    ]:
        try:
            e = fn(M)
        except Exception as ex:
            if type(ex).__name__ == "CaseTimeout":
                raise
            mon.append({"cls": f"internal-error:{what}", "what": f"{what} raised {type(ex).__name__}: {str(ex)[:200]}"})
            continue
        got, want = at_point(e), direct(ov)      # the extracted expression must not depend on the zeroed variables any more
        if not U.same_value(got, want):
            cls = "obs-expr-first-assignment" if not obs_safe else "obs-expr-wrong"
            mon.append({"cls": cls, "what": f"{what} evaluates to {sympy.N(got, 12)}, executing the statements gives Y = {sympy.N(want, 12)}"})
        if drv is not None and w is not None:
            ans = drv.ask(drvreq)
            if ans[0] == "none":
                k.append(f"{what}: model none, code {e}")
            elif not exprconv.equal_at_points(exprconv.from_sexp(ans[0][1]), exprconv.to_sympy(e), rng):
                k.append(f"{what}: model {exprconv.from_sexp(ans[0][1])} code {e}")
            if (ans[1] == "true") != obs_safe:
                k.append(f"obsSafe: Lean {ans[1]}, Python {obs_safe}")
    # gradients vs central finite differences of direct evaluation
    h = sympy.Rational(1, 10**12)
    for what, fn, names, ov in [("calculate_eta_gradient_expression", pm.calculate_eta_gradient_expression, names_eta, zero_eps),
                                ("calculate_epsilon_gradient_expression", pm.calculate_epsilon_gradient_expression, names_eps, {})]:
        try:
            grads = fn(M)
        except Exception as ex:
            if type(ex).__name__ == "CaseTimeout":
                raise
            mon.append({"cls": f"internal-error:{what}", "what": f"{what} raised {type(ex).__name__}: {str(ex)[:200]}"})
            continue
        for nm, g in zip(names, grads):
            x0 = U.value_of(seed, nm, "small")
            fd = _fd(lambda x: sympy.N(direct(dict(ov, **{nm: x})), 60), x0, h)
            got = sympy.N(at_point(g), 60)
            if abs(complex(got - fd)) > 1e-8 * (1 + abs(complex(fd))):
                cls = "obs-expr-first-assignment" if not obs_safe else "gradient-expr-wrong"
                mon.append({"cls": cls, "what": f"{what} d/d{nm} = {sympy.N(got, 12)}, central finite difference of the "
                            f"executed statements = {sympy.N(fd, 12)} (rel. tol 1e-8)"})
                break
    return k, mon


# ---------------------------------------------------------------- kind = model

def _pre(m, step):
    if step == "none":
        return m
    if step == "peripheral":
        return pm.add_peripheral_compartment(m)
    if step == "absorption":
        return pm.set_first_order_absorption(m)
    if step == "covariate":
        return pm.add_covariate_effect(m, "CL", "WGT", "exp")
    if step == "proportional":
        return pm.set_proportional_error_model(m)
    if step == "combined":
        return pm.set_combined_error_model(m)
    if step == "joint":
        return pm.create_joint_distribution(m, individual_estimates=None)
    if step == "lag":
        return pm.add_lag_time(m)
    if step == "fix":
        return pm.fix_parameters(m, [m.parameters.names[0]])
    if step == "iiv_ruv":
        return pm.set_iiv_on_ruv(m)
    if step == "blockfix0":
        # `$OMEGA BLOCK(2) FIX v1 / 0 v2`: a joint distribution of the first two etas, all fixed, zero covariance
        etas = list(m.random_variables.etas.names)[:2]
        before = set(m.parameters.names)
        j = pm.create_joint_distribution(m, etas, individual_estimates=None)
        names = list(j.random_variables[etas[0]].parameter_names)
        cov = [n for n in names if n not in before]
        return pm.fix_parameters_to(j, {n: (0 if n in cov else j.parameters[n].init) for n in names})
    if step == "fixvar0":
        uni = [d for d in m.random_variables.etas if len(d.names) == 1]
        return pm.fix_parameters_to(m, {uni[-1].parameter_names[0]: 0})
    if step == "iov":
        return pm.add_iov(m, "FA1", ["CL"], distribution="same-as-iiv")
    if step == "iovfix0":
        iov = [d for d in m.random_variables.etas if d.level == "IOV"]
        return pm.fix_parameters_to(m, {iov[0].parameter_names[0]: 0})
    raise ValueError(step)


def run_model(case, drv):
    seed = case["seed"]
    rng = random.Random(seed)
    k, mon, tags = [], [], []
    m = EXAMPLES[case["base"]]
    for step in case["pre"]:
        try:
            m = _pre(m, step)
            tags.append(f"pre:{step}")
        except Exception as e:
            if type(e).__name__ == "CaseTimeout":
                raise
            tags.append(f"pre-failed:{step}:{type(e).__name__}")
    small = set(m.random_variables.names)

    def _callm(what, fn, **kw):
        return _call(mon, tags, what, fn, model=m, **kw)
    ev0 = U.evaluate(m.statements, seed, small=small)
    changed = False

    def sem(what, R, ev0_=None, ev_kw=None, rename=None):
        nonlocal changed
        if R is None:
            return
        changed |= list(R.statements) != list(m.statements)
        tags.append(f"r:{what}")
        ev1 = U.evaluate(R.statements, seed, small=small, **(ev_kw or {}))
        diff = U.compare_eval(ev0_ if ev0_ is not None else ev0, ev1, rename=rename)
        if diff:
            mon.append({"cls": f"{what}-changes-value", "what": f"{what} changed the model function of {case['base']}+{case['pre']}: {diff}"})

    R = _callm("mu_reference_model", lambda: pm.mu_reference_model(m), refusal=(IndexError, NotImplementedError))
    if R is not None:
        tags.append("r:mu_reference_model")
        changed |= list(R.statements) != list(m.statements)
        diff = U.compare_eval(ev0, U.evaluate(R.statements, seed, small=small))
        if diff:
            mon.append({"cls": _mu_class(m), "what": f"mu_reference_model changed the model function of {case['base']}+{case['pre']}: {diff}"})
    # make_declarative / cleanup_model
    wm = _wire_or_none(m.statements, tags)
    md_bad = U.md_classify(_norm(wm)) if wm is not None else set()
    R = _call_md(mon, tags, m, md_bad)
    if R is not None:
        diff = U.compare_eval(ev0, U.evaluate(R.statements, seed, small=small))
        tags.append("r:make_declarative")
        changed |= list(R.statements) != list(m.statements)
        if diff:
            mon.append({"cls": _md_class(md_bad), "what": f"make_declarative changed the model function of {case['base']}+{case['pre']}: {diff}"})
        if drv is not None and wm is not None:
            ans = drv.ask(["md", wm])
            k += U.compare_wire(ans[0], R.statements, rng, "make_declarative")
        wmd = _wire_or_none(R.statements, tags)
        inl_bad = U.inline_classify(_norm(wmd)) if wmd is not None else set()
        fixed = {p.name: sympy.Rational(str(p.init)) for p in m.parameters if p.fix}
        try:
            C = pm.cleanup_model(m)
        except Exception as e:
            if type(e).__name__ == "CaseTimeout":
                raise
            C = None
            msg = str(e)
            if isinstance(e, ValueError) and ("is not defined" in msg or "defined after being used" in msg):
                cls = "cleanup-alias-chain" if "chain" in inl_bad else "cleanup-dangling-symbol"
                mon.append({"cls": cls, "what": f"cleanup_model of {case['base']}+{case['pre']} raised ValueError: {msg}"})
            else:
                mon.append({"cls": _rft_exception_class(m, e, "cleanup_model", after_non_random=True),
                            "what": f"cleanup_model of {case['base']}+{case['pre']} raised {type(e).__name__}: {msg[:200]}"})
        if C is not None:
            tags.append("r:cleanup_model")
            _rft_check(mon, "cleanup_model", m, C)
            kept = [str(s.symbol) for s in C.statements if U.is_assignment(s)]
            ov = dict(fixed, **_entitled(m))
            bad_rm = [n for n in m.random_variables.names if n not in C.random_variables.names and n not in _legit_zero_rvs(m)]
            if bad_rm:
                mon.append({"cls": "replace-non-random-rvs-removes-random-rv",
                            "what": f"cleanup_model of {case['base']}+{case['pre']} removed {bad_rm} whose variance is not fixed to zero"})
            ev_a = U.evaluate(R.statements, seed, small=small, override=ov)
            ev_b = U.evaluate(C.statements, seed, small=small, override=ov)
            diff = U.compare_eval(ev_a, ev_b, symbols=[x for x in kept if x not in fixed])
            for dv in m.dependent_variables:
                if diff is None and str(dv) not in ev_b[0]:
                    diff = f"dependent variable {dv} no longer defined"
            if diff:
                cls = ("cleanup-alias-chain" if "chain" in inl_bad else
                       "cleanup-alias-redefined" if "redefine" in inl_bad else "cleanup-changes-value")
                mon.append({"cls": cls, "what": f"cleanup_model changed the model function of {case['base']}+{case['pre']}: {diff}"})
    # replace_non_random_rvs
    changed |= _check_non_random(m, wm, drv, seed, small, rng, tags, k, mon, what=f"{case['base']}+{case['pre']}: ")
    # greekify / rename
    R = _callm("greekify_model", lambda: pm.greekify_model(m))
    if R is not None:
        ren = dict(zip(m.parameters.names, R.parameters.names))
        ren.update(zip(m.random_variables.names, R.random_variables.names))
        if len(set(ren.values())) != len(ren):
            mon.append({"cls": "greekify-name-clash", "what": f"greekify_model maps two symbols to one name: {ren}"})
        else:
            sem("greekify_model", R, ev_kw={"name_map": {v: kx for kx, v in ren.items()}}, rename=ren)
    # replace_fixed_thetas (after fixing one theta)
    thetas = [p.name for p in pm.get_thetas(m)]
    if thetas:
        th = thetas[rng.randrange(len(thetas))]
        mf = pm.fix_parameters(m, [th])
        ov = {p.name: sympy.Rational(str(p.init)) for p in mf.parameters if p.fix}
        try:
            R = pm.replace_fixed_thetas(mf)
        except Exception as e:
            if type(e).__name__ == "CaseTimeout":
                raise
            R = None
            mon.append({"cls": _rft_exception_class(mf, e, "replace_fixed_thetas"),
                        "what": f"replace_fixed_thetas of {case['base']}+{case['pre']} (fixed: {sorted(ov)}) raised {type(e).__name__}: {str(e)[:200]}"})
        if R is not None:
            _rft_check(mon, "replace_fixed_thetas", mf, R)
            ft = _fixed_thetas(mf)
            head = [str(s_.symbol) for s_ in R.statements[:len(ft)] if U.is_assignment(s_)]
            if head != ft or list(R.statements[len(ft):]) != list(mf.statements) or \
                    list(R.parameters.names) != [n for n in mf.parameters.names if n not in ft]:
                k.append(f"replace_fixed_thetas: result is not [theta = init for fixed thetas {ft}] ++ statements with exactly "
                         f"those parameters removed (prependConsts): head {head}, parameters {list(R.parameters.names)}")
            sem("replace_fixed_thetas", R, ev0_=U.evaluate(mf.statements, seed, small=small, override=ov), ev_kw={"override": ov})
    # remove_unused_parameters_and_rvs
    R = _callm("remove_unused_parameters_and_rvs", lambda: pm.remove_unused_parameters_and_rvs(m))
    if R is not None:
        sem("remove_unused_parameters_and_rvs", R)
        used = {str(x) for x in m.statements.free_symbols}
        lost = [n for n in list(m.parameters.names) + list(m.random_variables.names)
                if n in used and n not in list(R.parameters.names) + list(R.random_variables.names)]
        if lost:
            mon.append({"cls": "remove-unused-removes-used", "what": f"remove_unused_parameters_and_rvs removed {lost}, which the statements read"})
    # create / split joint distribution
    etas = list(m.random_variables.etas.names)
    if len(etas) >= 2:
        R = _callm("create_joint_distribution", lambda: pm.create_joint_distribution(m, etas[:2], individual_estimates=None))
        if R is not None:
            sem("create_joint_distribution", R)
            if sorted(R.random_variables.etas.names) != sorted(etas):
                mon.append({"cls": "joint-distribution-changes-etas", "what": f"etas {etas} -> {R.random_variables.etas.names}"})
            # documented: only non-fixed etas are split; an explicitly named eta with a fixed parameter is refused
            has_fixed = any(R.parameters[n].fix for e_ in etas[:2] for n in R.random_variables[e_].parameter_names)
            R2 = _callm("split_joint_distribution", lambda: pm.split_joint_distribution(R, etas[:2]),
                       refusal=(ValueError,) if has_fixed else ())
            if R2 is not None:
                sem("split_joint_distribution", R2)
                va = {n: m.random_variables.etas.get_covariance(n, n) for n in etas[:2]} if hasattr(m.random_variables.etas, "get_covariance") else None
                vb = {n: R2.random_variables.etas.get_covariance(n, n) for n in etas[:2]} if va is not None else None
                if va is not None and va != vb:
                    mon.append({"cls": "split-joint-changes-variance", "what": f"variance parameters {va} -> {vb}"})
    # convert_model nonmem <-> generic
    G = _callm("convert_model(generic)", lambda: pm.convert_model(m, "generic"))
    if G is not None:
        sem("convert_model(generic)", G)
        N = _callm("convert_model(nonmem)", lambda: pm.convert_model(G, "nonmem"))
        if N is not None:
            sem("convert_model(nonmem)", N)
    # unload / load dataset
    if m.dataset is not None:
        Un = _callm("unload_dataset", lambda: pm.unload_dataset(m))
        if Un is not None:
            sem("unload_dataset", Un)
            if Un.dataset is not None:
                mon.append({"cls": "unload-dataset-keeps-data", "what": "dataset still present after unload_dataset"})
            L = _callm("load_dataset", lambda: pm.load_dataset(Un))
            if L is not None:
                sem("load_dataset", L)
                if L.dataset is None or not L.dataset.equals(m.dataset):
                    import re
                    from pathlib import Path
                    data_rec = " ".join(l for l in getattr(m, "code", "").split("\n") if l.startswith("$DATA"))
                    nm_rules = bool(re.search(r"(IGNORE|ACCEPT)\s*=?\s*\(", data_rec)) or \
                        not Path(str(m.datainfo.path)).with_suffix(".datainfo").is_file()
                    cls = "load-dataset-ignores-nonmem-data-rules" if nm_rules else "load-dataset-differs"
                    mon.append({"cls": cls, "what": f"dataset after unload_dataset + load_dataset differs from the original: shape "
                                f"{m.dataset.shape} -> {None if L.dataset is None else L.dataset.shape} ($DATA record: {data_rec!r})"})
    # solve_ode_system: closed form substituted into the ODE
    ode = m.statements.ode_system
    if ode is not None and len(ode.compartment_names) <= 2:
        # sympy's dsolve may be unable to solve a system: that is a refusal, not a change of the model function
        S = _callm("solve_ode_system", lambda: pm.solve_ode_system(m), refusal=(NotImplementedError, ValueError))
        if S is not None and S.statements.ode_system is None:
            tags.append("r:solve_ode_system")
            changed = True
            res = _ode_residual(ode, S.statements)
            if res:
                mon.append({"cls": "solve-ode-residual", "what": f"solve_ode_system of {case['base']}+{case['pre']}: {res}"})
        elif S is not None:
            tags.append("solve_ode_system:unchanged")
    # extractors on ODE-free models
    if ode is None and len(m.dependent_variables) == 1 and str(list(m.dependent_variables)[0]) == "Y":
        wv = _wire_or_none(m.statements, tags)
        global SMALL
        saved = SMALL
        try:
            SMALL = small
            k2, m2 = _extractors(m, wv, drv if wv is not None else None, rng, seed, tags)
        finally:
            SMALL = saved
        k += k2
        mon += m2
        tags.append("r:extractors")
        if "obs-safe" in tags:
            k3, m3 = EV.run(pm, Expr, m, wv, drv if wv is not None else None, seed, tags, what=f"{case['base']}+{case['pre']}: ")
            k += k3
            mon += m3
    return {"k": k, "mon": mon, "tags": tags, "nontrivial": bool(changed)}


def _ode_residual(ode, solved):
    """Substitute the closed-form amounts into the ODE system: d/dt A_i(t) - rhs_i must simplify to 0."""
    t = exprconv.to_sympy(ode.t)
    sol = {}
    for s in solved:
        if U.is_assignment(s) and exprconv.to_sympy(s.symbol).is_Function:
            sol[exprconv.to_sympy(s.symbol)] = exprconv.to_sympy(s.expression)
    amounts = [exprconv.to_sympy(a) for a in ode.amounts]
    missing = [str(a) for a in amounts if a not in sol]
    if missing:
        return f"no closed form for {missing}"
    for eq in ode.eqs:
        lhs = exprconv.to_sympy(eq.lhs)
        rhs = exprconv.to_sympy(eq.rhs)
        a = lhs.args[0]
        res = sympy.diff(sol[a], t) - rhs.xreplace(sol)
        # exact rational points, 40 digits; the residual must vanish relative to the size of its terms
        for j in range(3):
            env = {o: U.value_of(j, str(o)) for o in res.free_symbols | rhs.xreplace(sol).free_symbols}
            v = abs(complex(sympy.N(res.xreplace(env), 40)))
            scale = abs(complex(sympy.N(rhs.xreplace(sol).xreplace(env), 40)))
            if v > 1e-25 * (1 + scale):
                return f"closed form of {a} does not satisfy its equation at {env} (residual {v:.3g})"
    return None
