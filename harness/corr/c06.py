"""C06 — Models are immutable values; equal means equal; results well formed.

T3a : harness/translate/c06_eqhash.py regenerates lean/PharmpyModel/Generated/EqHash.lean (fields
      compared by __eq__, fields hashed by __hash__, for every value class).
T3b : harness/translate/c06_effects.py regenerates lean/PharmpyModel/Generated/Effects.lean (effect
      programs of the public functions of pharmpy.modeling: aliases of argument objects, copies,
      in-place write sites).
K   : (a) real objects are encoded as `Val`s (by the field lists of T3a) and the Lean driver's `==`,
      hash-key equality, hashability are compared with the real `==`, `hash`;  the declared kinds of
      T3a are compared with the types of the real fields;
      (b) the effect checker's verdict on a function is compared with what the deep snapshot of the
      argument model shows after really calling it.
      (c) `_choose_param_inits` (bounds and initial estimate of the thetas add_covariate_effect creates) vs the Lean
      `CovInit.chooseInits` on the statistics the code reads, for covariate columns of constructed classes.
Mon : the property statement on the real code: deep snapshot of the argument model before/after every
      call (returns or raises); well-formedness of returned models; copy/equality/hash laws.
"""
from __future__ import annotations

import contextlib
import copy
import hashlib
import io
import inspect
import json
import math
import os
import random
import shutil
import typing
import warnings

ID = "C06"
DRIVER = "drv_c06"
LEAN_TARGETS = ["PharmpyProofs.C06.Properties", "PharmpyProofs.C06.CovInitProperties", "drv_c06"]
PROPERTIES = ["PharmpyProofs/C06/Properties.lean", "PharmpyProofs/C06/CovInitProperties.lean"]
LEAN_SOURCES = ["PharmpyModel/C06/*.lean", "PharmpyModel/Generated/EqHash.lean", "PharmpyModel/Generated/Effects.lean",
                "PharmpyModel/Generated/Containers.lean",
                "PharmpyProofs/C06/*.lean", "Drivers/C06.lean"]
TIME_LIMIT = {"quick": 900, "thorough": 3000}
CASE_CPU_LIMIT = 60
RULE = ("call cases: every public function of pharmpy.modeling whose first parameter is `model` x start models "
        "(pheno and pheno after 1-2 seeded transformations) x seeded type/name-directed arguments (required ones always, "
        "optional ones with probability 1/2); the call is made twice on the same argument model; deep snapshot before/after; "
        "pairs (r1, r2) and their components feed the eq/hash comparison.  object cases: seeded pairs of Parameter(s), "
        "ColumnInfo/DataInfo, frozenmapping, EstimationStep/ExecutionSteps, distributions, Compartment/CompartmentalSystem "
        "(same content built in different orders, or one field changed).  coveff cases: pheno with a covariate column of a "
        "constructed class (0/1 flag mostly 1 / mostly 0, constant for most individuals with the minority above / below, "
        "constant, continuous at scale 1-100, continuous in the tens of thousands, varying within the individual, a column of "
        "the example) x add_covariate_effect with exp and 1-2 further effects; _choose_param_inits for every effect and index "
        "against the Lean chooseInits.  non-trivial = the call returned or raised after "
        "argument construction succeeded / the pair is of a table class; distinct = distinct case JSON")
TRUSTED = [
    "Lean 4.33 kernel; axioms propext, Quot.sound, Classical.choice only (audited per theorem each run)",
    "translators harness/translate/c06_eqhash.py, c06_effects.py (closed list of AST shapes, refuse otherwise)",
    "hand-written value model PharmpyModel/C06/EqHash.lean and effect language PharmpyModel/C06/Effects.lean",
    "hand-written model PharmpyModel/C06/CovInit.lean of _choose_bounds/_choose_param_inits (exact rationals, log10 constants -2/2; K tolerance one unit of the 4th decimal at exact rounding ties)",
    "str/int/float/bool/None, symengine/sympy expressions, Path: == and hash agree (atoms of the value model)",
    "pandas 3 Copy-on-Write: a frame derived from another never writes through; only identical objects alias",
    "harness/corr/c06.py: argument generator, snapshot (hash_pandas_object digest of values+index, dtypes, columns, attrs), encoders",
]
ASSUMPTIONS = [
    "dict entries and primitive field values are compared through a canonical rendering (numbers as float repr, strings tagged)",
    "a function the argument generator cannot call is reported by name in the distribution (uncallable:<fn>), not verified",
    "mutation through C extensions other than pandas in-place operations is outside the effect analysis (covered by the snapshot only)",
]


def budget(tier):
    return int(os.environ.get("VERIF_BUDGET", 0)) or {"quick": 600, "thorough": 3500}[tier]


# ================================================================== case generation

RECIPES = [
    [],
    [["set_first_order_absorption", {}]],
    [["add_peripheral_compartment", {}]],
    [["create_joint_distribution", {}]],
    [["set_zero_order_absorption", {}]],
    [["add_covariate_effect", {"parameter": "CL", "covariate": "WGT", "effect": "exp"}]],
    [["set_proportional_error_model", {}], ["add_peripheral_compartment", {}]],
    [["set_transit_compartments", {"n": 2}]],
    [["add_iov", {"occ": "FA1"}]],
    [["set_michaelis_menten_elimination", {}]],
    [["add_lag_time", {}], ["set_combined_error_model", {}]],
    [["unload_dataset", {}]],
    [["add_time_after_dose", {}]],
    [["solve_ode_system", {}]],
    # start models whose datasets / column types switch on rarely used code paths
    [["@data", {"variant": "time-hhmm"}]],
    [["@data", {"variant": "time-hhmm+date"}]],
    [["@data", {"variant": "time-hhmm+date"}], ["drop_columns", {"column_names": ["DATE"], "mark": True}]],
    [["@data", {"variant": "time-hhmm+date"}], ["drop_columns", {"column_names": ["DATE"]}]],
    [["@data", {"variant": "events"}]],
    [["@data", {"variant": "loq"}]],
    [["@data", {"variant": "events"}], ["add_peripheral_compartment", {}]],
    [["set_first_order_absorption", {}], ["@data", {"variant": "time-hhmm"}]],
]
DATA_RECIPES = [i for i, r in enumerate(RECIPES) if any(step[0] == "@data" for step in r)]
# transformations that often commute: a = g(f(m)), b = f(g(m)); wherever a (or a component of a) == b, hashes must agree
COMMUTING = [
    ["set_first_order_absorption", {}], ["add_peripheral_compartment", {}], ["add_lag_time", {}],
    ["set_zero_order_elimination", {}], ["set_michaelis_menten_elimination", {}], ["set_zero_order_absorption", {}],
    ["add_covariate_effect", {"parameter": "CL", "covariate": "WGT", "effect": "exp"}],
    ["add_covariate_effect", {"parameter": "VC", "covariate": "APGR", "effect": "lin"}],
    ["set_proportional_error_model", {}], ["set_additive_error_model", {}], ["set_combined_error_model", {}],
    ["create_joint_distribution", {}], ["add_population_parameter", {"name": "XP", "init": 1.0}],
    ["fix_parameters", {"parameter_names": ["POP_CL"]}], ["set_transit_compartments", {"n": 1}],
    ["add_bioavailability", {}], ["add_estimation_step", {"method": "IMP"}], ["set_evaluation_step", {}],
    ["add_time_after_dose", {}], ["set_initial_estimates", {"inits": {"POP_VC": 1.2}}],
    ["add_effect_compartment", {"expr": "linear"}], ["add_metabolite", {}], ["set_seq_zo_fo_absorption", {}],
    ["add_iiv", {"list_of_parameters": ["S1"], "expression": "exp"}], ["remove_iiv", {"to_remove": ["CL"]}],
    ["set_lower_bounds", {"bounds": {"POP_CL": 0.001}}], ["set_name", {"new_name": "other"}],
    ["drop_columns", {"column_names": ["FA2"]}], ["set_dvid", {"name": "FA1"}], ["add_cmt", {}], ["add_admid", {}],
]
COLL_OPS = [("create", "-"), ("replace", "-"), ("__add__", "item"), ("__add__", "collection"), ("__add__", "sequence"),
            ("__radd__", "item"), ("__radd__", "sequence")]
COLL_CLASSES = ["Parameters", "RandomVariables", "DataInfo"]
ORDER_KINDS = ["odes", "statements", "parameters", "columninfo", "datainfo", "eststep", "rvs", "dists", "basic",
               "model", "compartment", "mappings"]
# classes of covariate columns (by construction, over the individuals of the example dataset): where the median of the
# per-individual medians sits relative to the minimum / maximum, and how large the values are
COV_SHAPES = ["flag-mostly-1", "flag-mostly-0", "mostly-constant-low", "mostly-constant-high", "constant", "continuous",
              "continuous-wide", "time-varying", "column-of-model"]
COV_EFFECTS = ["exp", "lin", "piece_lin", "pow", "cat", "cat2", "other"]
OBJECT_KINDS = ["parameter", "parameters", "columninfo", "datainfo", "frozenmapping", "eststep", "steps", "normal", "joint",
                "rvs", "compartment", "odes", "statements", "assignment", "model_dataset", "model_iie", "varlevel"]


def _fn_names():
    """Names of the public modeling functions taking `model` first (static: from the AST of __init__/__all__)."""
    import ast
    from harness.common.paths import REPO_SRC
    tree = ast.parse((REPO_SRC / "pharmpy" / "modeling" / "__init__.py").read_text())
    names = None
    for n in tree.body:
        if isinstance(n, ast.Assign) and any(isinstance(t, ast.Name) and t.id == "__all__" for t in n.targets):
            names = [e.value for e in n.value.elts]
    if names is None:
        raise RuntimeError("pharmpy.modeling.__all__ not found")
    return names


def gen_cases(rng: random.Random, n: int, tier: str):
    names = _fn_names()
    out = []
    n_obj = max(len(OBJECT_KINDS), n // 8)
    n_ord = max(len(ORDER_KINDS), n // 8)
    n_com = max(20, n // 8)
    n_call = max(0, n - n_obj - n_ord - n_com)
    # every function at least once per pass over the name list; recipes cycle with a seeded offset
    i = 0
    while len(out) < n_call:
        fn = names[i % len(names)]
        rep = i // len(names)
        if rep == 0:
            recipe = 0
        else:
            recipe = rng.randrange(len(RECIPES)) if rep > 2 else 1 + (i + rep) % (len(RECIPES) - 1)
        if fn in SLOW_FUNCTIONS:
            recipe = 0
        out.append({"kind": "call", "fn": fn, "recipe": recipe, "seed": rng.randrange(1 << 30)})
        i += 1
    for j in range(n_obj):
        out.append({"kind": "obj", "what": OBJECT_KINDS[j % len(OBJECT_KINDS)], "variant": rng.randrange(6),
                    "seed": rng.randrange(1 << 30)})
    for j in range(n_ord):
        out.append({"kind": "orders", "what": ORDER_KINDS[j % len(ORDER_KINDS)], "seed": rng.randrange(1 << 30)})
    for j in range(max(len(COLL_OPS) * len(COLL_CLASSES) * 2, n // 10)):
        out.append({"kind": "coll", "cls": COLL_CLASSES[j % 3], "op": (j // 3) % len(COLL_OPS), "seed": rng.randrange(1 << 30)})
    for j in range(max(10, n // 25)):
        out.append({"kind": "cacheops", "seed": rng.randrange(1 << 30)})
    for j in range(max(2 * len(COV_SHAPES), n // 10)):
        out.append({"kind": "coveff", "shape": COV_SHAPES[j % len(COV_SHAPES)], "seed": rng.randrange(1 << 30)})
    for j in range(n_com):
        f, g = rng.sample(range(len(COMMUTING)), 2)
        out.append({"kind": "commute", "f": f, "g": g, "recipe": rng.choice([0, 0, 0, 1, 2, 3, 9]), "seed": rng.randrange(1 << 30)})
    return out


def corpus_cases():
    return [
        # F3: equal compartmental systems / statements / models hash differently
        {"kind": "call", "fn": "set_first_order_absorption", "recipe": 0, "seed": 1},
        {"kind": "obj", "what": "odes", "variant": 0, "seed": 2},
        {"kind": "obj", "what": "frozenmapping", "variant": 0, "seed": 3},
        {"kind": "obj", "what": "model_dataset", "variant": 0, "seed": 4},
        {"kind": "obj", "what": "columninfo", "variant": 0, "seed": 5},
        {"kind": "obj", "what": "model_iie", "variant": 0, "seed": 6},
        {"kind": "call", "fn": "add_time_after_dose", "recipe": 0, "seed": 7},
        {"kind": "call", "fn": "set_dataset", "recipe": 0, "seed": 8},
        {"kind": "call", "fn": "write_csv", "recipe": 0, "seed": 9},
        # open finding: lag time left on CENTRAL after the dose moved to TRANSIT1
        {"kind": "call", "fn": "set_transit_compartments", "recipe": 10, "seed": 325059778},
    ] + [{"kind": "coll", "cls": c, "op": o, "seed": 300 + 7 * o + i} for i, c in enumerate(COLL_CLASSES) for o in range(len(COLL_OPS))] + [
        {"kind": "call", "fn": fn, "recipe": rec, "seed": sd}
        for fn in ("add_population_parameter", "add_individual_parameter", "add_iiv", "add_iov", "rename_symbols", "create_symbol")
        for rec in (0, 5) for sd in (401, 402, 403)
    ] + [{"kind": "cacheops", "seed": 500 + i} for i in range(4)] + [
        {"kind": "call", "fn": fn, "recipe": 0, "seed": 510 + i}
        for i, fn in enumerate(("set_direct_effect", "add_effect_compartment", "add_indirect_effect", "add_metabolite", "set_tmdd"))
    ] + [{"kind": "orders", "what": w, "seed": 100 + i} for i, w in enumerate(ORDER_KINDS)] + [
        {"kind": "commute", "f": 0, "g": 1, "recipe": 0, "seed": 200},
        {"kind": "commute", "f": 2, "g": 1, "recipe": 0, "seed": 201},
        {"kind": "commute", "f": 6, "g": 8, "recipe": 0, "seed": 202},
    ] + [{"kind": "coveff", "shape": sh, "seed": 600 + i} for i, sh in enumerate(COV_SHAPES)] + [
        # a 0/1 flag column of the example as covariate (median == maximum)
        {"kind": "coveff", "shape": "column-of-model", "seed": 611}, {"kind": "coveff", "shape": "column-of-model", "seed": 612},
    ] + [
        # time/date translation on datasets with NM-TRAN clock strings (with a DATE column, with it marked
        # dropped, with it removed, without one): the paths of translate_nmtran_time that the plain example never takes
        {"kind": "call", "fn": fn, "recipe": rec, "seed": 10 + rec}
        for fn in ("translate_nmtran_time", "add_time_after_dose", "convert_model", "get_doseid", "expand_additional_doses",
                   "add_admid", "add_cmt", "remove_loq_data", "transform_blq", "set_lloq_data")
        for rec in DATA_RECIPES
    ]


def shrink(case):
    if case.get("kind") == "call" and case.get("recipe"):
        c = dict(case)
        c["recipe"] = 0
        yield c


# ================================================================== worker state

_S = {}


def worker_init():
    warnings.filterwarnings("ignore")
    import numpy as np
    import pandas as pd
    import pharmpy.modeling as M
    from pharmpy.model import Model
    from harness.common.paths import scratch_root
    from harness.translate import c06_eqhash
    # The monitors must run whatever the translator thinks of the current source: a class whose __eq__/__hash__ it
    # refuses keeps its field list and is probed dynamically; if nothing can be extracted the table is empty.
    try:
        table, _unh = c06_eqhash.extract(tolerant=True)
    except Exception as e:
        table = []
        _S["table_error"] = f"{type(e).__name__}: {e}"
    _S.update(np=np, pd=pd, M=M, Model=Model, table={c["name"]: c for c in table}, base={}, scratch=scratch_root(),
              effects=None, refused={c["name"]: c["refused"] for c in table if c.get("refused")})
    shutil.rmtree(_S["scratch"], ignore_errors=True)      # created per call case, removed after it
    try:
        from harness.translate import c06_effects
        _S["effects"] = c06_effects.verdicts()
    except Exception:
        _S["effects"] = None


def _data_variant(m, variant):
    """pheno with a dataset / column types that reach code paths the plain example never takes:
    TIME as NM-TRAN clock strings (datatype nmtran-time) with or without a DATE column (nmtran-date);
    EVID/MDV/ADDL/II/SS/CMT/ADMID columns typed event/mdv/additional/ii/ss/compartment/admid; BLQ/LLOQ columns."""
    np = _S["np"]
    df = m.dataset.copy()
    di = m.datainfo
    retype = {}
    if variant.startswith("time-hhmm"):
        hours = df["TIME"].astype(float)
        if variant == "time-hhmm+date":
            day = (hours // 24).astype(int)
            df["DATE"] = ["%d/%d/2001" % (1 + d // 28, 1 + d % 28) for d in day]
            hours = hours % 24
            retype["DATE"] = dict(type="unknown", datatype="nmtran-date", scale="interval")
        df["TIME"] = ["%d:%02d" % (int(h), int(round((h - int(h)) * 60)) % 60) for h in hours]
        retype["TIME"] = dict(datatype="nmtran-time")
    elif variant == "events":
        dose = df["AMT"] > 0
        df["EVID"] = np.where(dose, 1, 0)
        df["MDV"] = np.where(dose, 1, 0)
        first = dose & (df.groupby("ID").cumcount() == 0)
        df["ADDL"] = np.where(first, 2, 0)
        df["II"] = np.where(first, 12.0, 0.0)
        df["SS"] = 0
        df["CMT"] = 1
        df["ADMID"] = 1
        retype.update(EVID=dict(type="event"), MDV=dict(type="mdv"), ADDL=dict(type="additional"), II=dict(type="ii"),
                      SS=dict(type="ss"), CMT=dict(type="compartment"), ADMID=dict(type="admid"))
    elif variant == "loq":
        obs = df["AMT"] == 0
        df["LLOQ"] = 12.0
        df["BLQ"] = np.where(obs & (df["DV"] < 12.0), 1, 0)
        retype.update(LLOQ=dict(type="lloq"), BLQ=dict(type="blq"))
    else:
        raise ValueError(variant)
    m = m.replace(dataset=df)
    di = m.datainfo
    for col, kw in retype.items():
        di = di.set_column(di[col].replace(**kw))
    m = m.replace(datainfo=di)
    try:
        m = m.update_source()
    except Exception:
        pass
    return m


def _base_model(recipe_idx):
    if recipe_idx not in _S["base"]:
        M = _S["M"]
        m = M.load_example_model("pheno")
        for fn, kw in RECIPES[recipe_idx]:
            m = _data_variant(m, **kw) if fn == "@data" else getattr(M, fn)(m, **kw)
        # every start model and all its components have been hashed before any case transforms it (as a search that
        # keeps its candidates in a set does): a cached hash must never leak into a derived object
        _prehash(m)
        _S["base"][recipe_idx] = m
    return _S["base"][recipe_idx]


# ================================================================== snapshot of a model

def _digest_frame(df):
    pd = _S["pd"]
    h = hashlib.sha256()
    h.update(repr(list(df.columns)).encode())
    h.update(repr([str(t) for t in df.dtypes]).encode())
    h.update(repr(df.index.names).encode())
    h.update(repr(type(df.index).__name__).encode())
    try:
        h.update(pd.util.hash_pandas_object(df, index=True).values.tobytes())
    except TypeError:
        h.update(repr(df.to_dict()).encode())
    h.update(repr(sorted(df.attrs.items(), key=str)).encode())
    return h.hexdigest()[:24]


def _digest_obj(x):
    pd = _S["pd"]
    if isinstance(x, pd.DataFrame):
        return "df:" + _digest_frame(x)
    if isinstance(x, pd.Series):
        return "ser:" + _digest_frame(x.to_frame())
    return repr(x)


def snapshot(model):
    """Everything the property lists, as {part: canonical string}."""
    snap = {}
    d = vars(model)
    snap["attrs"] = repr(sorted(k for k in d if k != "_hash"))
    for k, v in d.items():
        if k != "_hash":
            snap["id:" + k] = str(id(v))
    ds = model.dataset
    snap["dataset"] = "None" if ds is None else _digest_frame(ds)
    iie = model.initial_individual_estimates
    snap["iie"] = "None" if iie is None else _digest_frame(iie)
    snap["datainfo"] = json.dumps(model.datainfo.to_dict(), sort_keys=True, default=str) + repr(model.datainfo.path)
    snap["parameters"] = json.dumps(model.parameters.to_dict(), sort_keys=True, default=str)
    snap["random_variables"] = json.dumps(model.random_variables.to_dict(), sort_keys=True, default=str)
    snap["statements"] = json.dumps(model.statements.to_dict(), sort_keys=True, default=str)
    snap["execution_steps"] = json.dumps(model.execution_steps.to_dict(), sort_keys=True, default=str)
    snap["misc"] = repr((model.name, model.description, model.value_type, dict(model.dependent_variables),
                         dict(model.observation_transformation)))
    try:
        snap["code"] = model.code
    except Exception as e:  # the generated code is part of the snapshot; failing to generate is a state too
        snap["code"] = "exc:" + type(e).__name__
    internals = model.internals
    if internals is not None:
        parts = []
        for k, v in sorted(vars(internals).items()) if hasattr(internals, "__dict__") else []:
            parts.append((k, str(v) if k == "control_stream" else _digest_obj(v)))
            snap["id:internals." + k] = str(id(v))
        snap["internals"] = repr(parts)
    return snap


def snap_diff(a, b):
    return sorted(k for k in set(a) | set(b) if a.get(k) != b.get(k))


# ================================================================== argument generation

class Uncallable(Exception):
    pass


def _pools(model):
    M = _S["M"]
    pools = {}
    pools["params"] = list(model.parameters.names)
    pools["etas"] = list(model.random_variables.etas.names)
    pools["eps"] = list(model.random_variables.epsilons.names)
    try:
        pools["indiv"] = [str(s) for s in M.get_individual_parameters(model)] or ["CL"]
    except Exception:
        pools["indiv"] = ["CL", "V"]
    pools["columns"] = list(model.datainfo.names)
    # continuous covariates and 0/1 flag columns (median of the per-individual medians == minimum or maximum)
    pools["covs"] = [c for c in pools["columns"] if c in ("WGT", "APGR", "FA1", "FA2")] or pools["columns"][:1]
    pools["symbols"] = [str(s.symbol) for s in model.statements if hasattr(s, "symbol")]
    ode = model.statements.ode_system
    pools["comps"] = list(ode.compartment_names) if ode is not None else ["CENTRAL"]
    return pools


def _subset(rng, xs, lo=1):
    xs = list(xs)
    if not xs:
        return []
    k = rng.randint(min(lo, len(xs)), len(xs))
    return rng.sample(xs, k)


def _frame_of_etas(model, rng):
    pd = _S["pd"]
    ids = sorted(set(model.dataset["ID"])) if model.dataset is not None else [1, 2, 3]
    etas = list(model.random_variables.etas.names)
    return pd.DataFrame({e: [round(rng.uniform(-0.3, 0.3), 3) for _ in ids] for e in etas},
                        index=pd.Index(ids, name="ID"))


def _inits_within_bounds(model, rng, names, sometimes_outside=False):
    out = {}
    for nme in names:
        p = model.parameters[nme]
        lo = p.lower if p.lower > -1e6 else p.init - 1
        hi = p.upper if p.upper < 1e6 else p.init + 1
        out[nme] = round(lo + (hi - lo) * rng.uniform(0.2, 0.8), 6)
        if sometimes_outside and p.lower > -1e6 and rng.random() < 0.15:
            out[nme] = p.lower - 1.0        # inadmissible: the code must refuse
    return out


def _by_name(fn, pname, ann, rng, model, pools):
    """Name-directed values; returns (found, value)."""
    pd, M = _S["pd"], _S["M"]
    P = pools
    table = {
        "parameter": lambda: rng.choice(P["indiv"] + P["symbols"][:2]),
        "covariate": lambda: rng.choice(P["covs"]),
        "effect": lambda: rng.choice(["lin", "cat", "piece_lin", "exp", "pow"]),
        "list_of_parameters": lambda: _subset(rng, P["indiv"]),
        "occ": lambda: rng.choice(["FA1", "APGR"]),
        # fresh names and names that are already taken (parameter, random variable, statement symbol, data column)
        "name": lambda: rng.choice(["FA1", "DVID"]) if fn == "set_dvid" else rng.choice(
            ["NEWP", "XP1"] + [rng.choice(P["params"]), rng.choice(P["etas"] + P["eps"]), rng.choice(P["symbols"]),
                               rng.choice(P["columns"])]),
        "init": lambda: round(rng.uniform(0.1, 2), 3),
        "pred": lambda: _subset(rng, ["IPRED", "PRED", "CIPREDI"]),
        "res": lambda: _subset(rng, ["CWRES", "RES", "WRES"]),
        "tool_options": lambda: {"NITER": rng.randint(1, 9), "SEED": 3},
        "idx": lambda: rng.choice([0, 0, -1, 1]),
        "nbins": lambda: rng.randint(2, 6),
        "bins": lambda: rng.randint(2, 6),
        "likelihood": lambda: round(rng.uniform(100, 900), 2),
        "parameter_estimates": lambda: pd.Series(_inits_within_bounds(model, rng, P["params"])),
        "individual_estimates": lambda: _frame_of_etas(model, rng),
        "etas": lambda: _frame_of_etas(model, rng),
        "stem": lambda: rng.choice(["X", "CL", "TVCL", rng.choice(P["params"]), rng.choice(P["etas"]), rng.choice(P["columns"])]),
        "column_names": lambda: rng.choice([["FA1"], "FA2", ["APGR", "FA1"], ["WGT"]]),
        "parameters": lambda: ({p: rng.random() < 0.5 for p in _subset(rng, P["params"])} if fn == "fix_or_unfix_parameters"
                               else _subset(rng, P["params"]) if "list" in ann or "Iterable" in ann else None),
        "parameter_names": lambda: rng.choice([_subset(rng, P["params"]), rng.choice(P["params"])]),
        "inits": lambda: _inits_within_bounds(model, rng, _subset(rng, P["params"]), sometimes_outside=True),
        # mostly admissible (below / above the initial estimate), sometimes not: the code must then refuse
        "bounds": lambda: {p: (model.parameters[p].init + (-0.5 if (fn == "set_lower_bounds") == (rng.random() < 0.8) else 0.5))
                           for p in _subset(rng, P["params"])},
        "rv": lambda: rng.choice(P["etas"] + P["eps"]),
        "rvs": lambda: _subset(rng, P["etas"]),
        "list_of_etas": lambda: _subset(rng, P["etas"]),
        "list_of_eps": lambda: _subset(rng, P["eps"]),
        "eta_names": lambda: rng.choice([None, "@taken"]),
        "variable": lambda: rng.choice(P["columns"]),
        "new_names": lambda: rng.choice([{"CL": "CLX"}, {"TVCL": "TVCLX"}, {P["params"][0]: "THX"},
                                         # targets that are already taken
                                         {P["params"][0]: P["params"][-1]}, {P["etas"][0]: P["etas"][-1]},
                                         {P["symbols"][0]: P["symbols"][-1]}, {P["params"][0]: P["columns"][-1]},
                                         {P["symbols"][-1]: P["params"][0]}, {P["etas"][0]: P["params"][0]}]),
        "covariates": lambda: _subset(rng, P["covs"]),
        "path_or_df": lambda: (model.dataset.copy() if model.dataset is not None
                               else pd.DataFrame({"ID": [1, 1], "TIME": [0.0, 1.0], "DV": [0.0, 2.0]})),
        "dataset": lambda: None,
        "new_description": lambda: "descr %d" % rng.randint(0, 99),
        "compartment": lambda: rng.choice(P["comps"]),
        "value": lambda: rng.choice([0.5, 10.0, "FA1"]),
        "new_name": lambda: "run%d" % rng.randint(2, 9),
        "n": lambda: rng.randint(0, 3),
        "refs": lambda: {"WGT": 70, "APGR": 5},
        "cutoff": lambda: 2.0,
        "limit": lambda: 0.9,
        "zero_limit": lambda: 0.001,
        "significant_digits": lambda: 2,
        "seed": lambda: rng.randint(1, 999),
        "resamples": lambda: 2,
        "fraction": lambda: 0.5,
        "samples_per_id": lambda: 2,
        "group": lambda: "ID",
        "stratify": lambda: None,
        "stratify_on": lambda: None,
        "sample_size": lambda: None,
        "name_pattern": lambda: "omitted_{}",
        "path": lambda: None if "NoneType" in ann or "Optional" in ann else str(_S["scratch"] / "out_file"),
        "dv": lambda: None,
        "lloq": lambda: rng.choice([None, 10.0]),
        "uloq": lambda: None,
        "blq": lambda: None,
        "alq": lambda: None,
        "idv": lambda: "TIME",
        "allometric_variable": lambda: "WGT",
        "reference_value": lambda: 70,
        "individuals": lambda: None,
        "drug_dvid": lambda: 1,
        "datatype": lambda: None,
        "ipred": lambda: None,
        "lower_limit": lambda: None,
        "data_trans": lambda: None,
        "time": lambda: 0,
        "series_terms": lambda: 2,
        "lower": lambda: None,
        "upper": lambda: None,
        "initial_estimate": lambda: round(rng.uniform(0.05, 0.5), 3),
        "with_respect_to": lambda: None,
        "scale": lambda: (M.calculate_ucp_scale(model) if "UCPScale" in ann else rng.choice(["UCP", "normal"])),
        "ucps": lambda: {p: 0.1 for p in P["params"]},
        "cor": lambda: pd.DataFrame([[1.0, 0.95], [0.95, 1.0]], index=P["params"][:2], columns=P["params"][:2]),
        "values": lambda: pd.Series(_inits_within_bounds(model, rng, P["params"])),
        "keep": lambda: None,
        "force_posdef_samples": lambda: None,
        "dv_types": lambda: None,
        "to_remove": lambda: None,
    }
    exprs = {
        ("add_iiv", "expression"): lambda: rng.choice(["exp", "add", "prop", "log"]),
        ("add_pk_iiv", "initial_estimate"): lambda: 0.09,
        ("evaluate_expression", "expression"): lambda: rng.choice(["TVCL*2", "CL", "POP_CL + 1"]),
        ("filter_dataset", "expr"): lambda: rng.choice(["WGT > 1.2", "TIME < 100", "AMT == 0"]),
        ("simplify_expression", "expr"): lambda: rng.choice(["CL + CL", "POP_CL*WGT/WGT"]),
        ("is_real", "expr"): lambda: rng.choice(["CL", "log(POP_CL)"]),
        ("set_initial_condition", "expression"): lambda: rng.choice([0, 10, "WGT"]),
        ("set_zero_order_input", "expression"): lambda: rng.choice([0, 10, "WGT"]),
        ("calculate_individual_parameter_statistics", "expr_or_exprs"): lambda: rng.choice(["CL/V", ["CL", "V"]]),
        ("set_tmdd", "type"): lambda: rng.choice(["full", "qss", "cr", "wagner", "mmapp", "ib", "crib"]),
        ("add_estimation_step", "method"): lambda: rng.choice(["FOCE", "FO", "IMP", "SAEM"]),
        ("set_estimation_step", "method"): lambda: rng.choice(["FOCE", "FO", "IMP", "SAEM"]),
        ("calculate_individual_shrinkage", "individual_estimates_covariance"): lambda: _cov_series(model, rng),
        ("sample_individual_estimates", "individual_estimates_covariance"): lambda: _cov_series(model, rng),
        ("sample_parameters_from_covariance_matrix", "covariance_matrix"): lambda: _param_cov(model),
        ("update_initial_individual_estimates", "individual_estimates"): lambda: _frame_of_etas(model, rng),
    }
    if (fn, pname) in exprs:
        return True, exprs[(fn, pname)]()
    if pname in table:
        v = table[pname]()
        return True, v
    return False, None


def _cov_series(model, rng):
    pd, np = _S["pd"], _S["np"]
    ids = sorted(set(model.dataset["ID"])) if model.dataset is not None else [1, 2, 3]
    etas = list(model.random_variables.etas.names)
    mat = pd.DataFrame(np.eye(len(etas)) * 0.01, index=etas, columns=etas)
    return pd.Series([mat for _ in ids], index=pd.Index(ids, name="ID"))


def _param_cov(model):
    pd, np = _S["pd"], _S["np"]
    names = list(model.parameters.nonfixed.names)
    return pd.DataFrame(np.eye(len(names)) * 1e-6, index=names, columns=names)


def _by_annotation(ann, annobj, rng):
    origin = typing.get_origin(annobj)
    if origin is typing.Literal:
        return True, rng.choice(list(typing.get_args(annobj)))
    if origin is typing.Union:
        args = typing.get_args(annobj)
        lits = [a for a in args if typing.get_origin(a) is typing.Literal]
        if lits:
            return True, rng.choice(list(typing.get_args(lits[0])))
        if type(None) in args and rng.random() < 0.5:
            return True, None
        for a in args:
            ok, v = _by_annotation(str(a), a, rng)
            if ok:
                return True, v
        return False, None
    if annobj is bool or ann in ("bool", "<class 'bool'>"):
        return True, rng.random() < 0.5
    if annobj is int or ann in ("int", "<class 'int'>"):
        return True, rng.randint(0, 3)
    if annobj is float or ann in ("float", "<class 'float'>"):
        return True, round(rng.uniform(0.1, 2.0), 3)
    if ann.startswith("Literal[") or ann.startswith("typing.Literal["):
        try:
            vals = eval(ann.replace("typing.", ""), {"Literal": typing.Literal})
            return True, rng.choice(list(typing.get_args(vals)))
        except Exception:
            return False, None
    if ann.startswith("Optional[") or "NoneType" in ann:
        return True, None
    return False, None


# seconds per call on models with more than one compartment: called on the plain start model only
SLOW_FUNCTIONS = {"has_linear_odes_with_real_eigenvalues", "calculate_pk_parameters_statistics", "solve_ode_system",
                  "calculate_individual_parameter_statistics"}
MODEL_PARAM_NAMES = ("model", "dataset_or_model")
SKIP_FUNCTIONS = {
    # need artefacts of an estimation run (simulation tables, files) that the generator cannot produce
    "plot_vpc": "needs a simulation table",
}


def build_args(fn, f, model, rng):
    sig = inspect.signature(f)
    params = list(sig.parameters.values())
    if not params or params[0].name not in MODEL_PARAM_NAMES:
        raise Uncallable("first parameter is not a model")
    if fn in SKIP_FUNCTIONS:
        raise Uncallable(SKIP_FUNCTIONS[fn])
    pools = _pools(model)
    kwargs = {}
    for p in params[1:]:
        if p.kind in (p.VAR_POSITIONAL, p.VAR_KEYWORD):
            continue
        required = p.default is inspect._empty
        if not required and rng.random() < 0.5:
            continue
        ann = str(p.annotation)
        ok, v = _by_name(fn, p.name, ann, rng, model, pools)
        if ok and v is None and required:
            ok = False
        if not ok:
            ok, v = _by_annotation(ann, p.annotation, rng)
        if not ok:
            if required:
                raise Uncallable(f"no generator for required parameter {p.name}: {ann[:60]}")
            continue
        kwargs[p.name] = v
    if kwargs.get("eta_names") == "@taken":
        # as many names as the function will need, some of them already taken by a random variable / parameter
        lp = kwargs.get("list_of_parameters")
        need = len(lp) if isinstance(lp, list) else 1
        if fn == "add_iov":
            need = len(lp) if isinstance(lp, list) else len(pools["etas"])
            need *= 2
        taken = pools["etas"] + pools["eps"] + pools["params"][:1]
        kwargs["eta_names"] = [rng.choice(taken) if rng.random() < 0.6 else f"ETA_NEW{i}" for i in range(need)]
        if len(set(kwargs["eta_names"])) != len(kwargs["eta_names"]) and rng.random() < 0.5:
            kwargs["eta_names"] = list(dict.fromkeys(kwargs["eta_names"])) + [f"ETA_X{i}" for i in range(need)]
            kwargs["eta_names"] = kwargs["eta_names"][:need]
    return kwargs


def _describe(kwargs):
    return {k: (_digest_obj(v) if not isinstance(v, (str, int, float, bool, list, dict, type(None))) else v)
            for k, v in kwargs.items()}


# ================================================================== well-formedness of a result

def _user_strings(kwargs):
    """Every string the caller passed (names, lists of names, rename targets)."""
    out = set()

    def walk(v):
        if isinstance(v, str):
            out.add(v)
        elif isinstance(v, dict):
            for a, b in v.items():
                walk(a)
                walk(b)
        elif isinstance(v, (list, tuple, set)):
            for x in v:
                walk(x)
    walk(kwargs or {})
    return out


def wellformed(model, arg_model=None, fn_name="", kwargs=None):
    """The well-formedness clauses of the property statement; returns list of (cls, what)."""
    bad = []
    arg_columns = set(arg_model.datainfo.names) if arg_model is not None else set()
    names = list(model.parameters.names)
    if len(set(names)) != len(names):
        bad.append(("wf-duplicate-parameter-names:" + fn_name, f"duplicate parameter names {sorted(n for n in names if names.count(n) > 1)}"))
    rvn = list(model.random_variables.names)
    if len(set(rvn)) != len(rvn):
        dups = sorted(n for n in set(rvn) if rvn.count(n) > 1)
        # known mechanism: a random-variable name passed by the caller (eta_names, rename target) is not checked
        # against the names already present; anything else is classified by function
        which = "user-supplied-name" if set(dups) <= _user_strings(kwargs) else fn_name
        bad.append(("wf-duplicate-rv-names:" + which, f"duplicate random variable names {dups}"))
    cols = list(model.datainfo.names)
    if len(set(cols)) != len(cols):
        bad.append(("wf-duplicate-column-names:" + fn_name, f"duplicate data column names {sorted(n for n in set(cols) if cols.count(n) > 1)}"))
    clash = (set(names) & set(rvn)) | (set(names) & set(cols)) | (set(rvn) & set(cols))
    if clash:
        which = "user-supplied-name" if clash <= _user_strings(kwargs) else fn_name
        bad.append(("wf-name-clash:" + which, f"{sorted(clash)} name(s) used for more than one of parameter / random variable / data column"))
    for p in model.parameters:
        if not (p.lower <= p.init <= p.upper) or (isinstance(p.init, float) and math.isnan(p.init)):
            bad.append(("wf-init-outside-bounds:" + fn_name, f"parameter {p.name}: init {p.init} not within [{p.lower}, {p.upper}]"))
            break
    allowed = set(names) | set(rvn) | set(model.datainfo.names)
    for dist in model.random_variables:
        for s in dist.parameter_names:
            if s not in names:
                bad.append(("wf-rv-parameter-undefined", f"random variable parameter {s} is not a model parameter"))
    defined = set()
    ode = model.statements.ode_system
    allowed.add(str(ode.t) if ode is not None else "t")   # the time variable
    if ode is not None:
        # the state variables A_X(t) are defined by the ODE statement; statements feeding its rates may
        # mention them (non-linear systems, NONMEM $DES), so they count as defined wherever they occur
        allowed |= {str(a) for a in ode.amounts}
    doseless_lags = set()
    if ode is not None:
        for cname in ode.compartment_names:
            comp = ode.find_compartment(cname)
            if not comp.doses:
                doseless_lags |= {str(x) for x in comp.lag_time.free_symbols}
    for i, st in enumerate(model.statements):
        reads = {str(s) for s in st.rhs_symbols}
        lhs_args = set()
        if hasattr(st, "symbol"):
            sym = st.symbol
            try:
                if sym.is_function():
                    lhs_args = {str(a) for a in sym.args}
            except Exception:
                pass
        missing = sorted(s for s in reads if s not in allowed and s not in defined and s not in lhs_args and s != "NaN")
        if missing:
            kind = "ode" if not hasattr(st, "symbol") else "assignment"
            if all(s in arg_columns for s in missing):
                kind = "dropped-data-column"      # was a data column of the argument, the result has no such column
            elif kind == "ode" and all(s in doseless_lags for s in missing):
                kind = "ode-lag-time-of-doseless-compartment"
            bad.append((f"wf-undefined-symbol-{kind}", f"statement #{i} ({str(st)[:50]!r}) reads {missing}: not a parameter, rv, "
                        f"data column, time variable or earlier definition"))
            break
        if hasattr(st, "symbol"):
            defined.add(str(st.symbol))
        else:
            defined |= {str(a) for a in st.amounts}
    try:
        code = model.code
        if not isinstance(code, str) or not code:
            bad.append(("wf-code-empty", "model.code is empty"))
    except Exception as e:
        bad.append(("wf-code-raises", f"model.code raised {type(e).__name__}: {str(e)[:80]}"))
    return bad


# ================================================================== encoding of real objects as `Val`

def _cls_of(x):
    for k in type(x).__mro__:
        if k.__name__ in _S["table"] and k.__module__.startswith("pharmpy"):
            return k.__name__
    return None


def _atom(x):
    if isinstance(x, bool) or isinstance(x, (int, float)) or type(x).__module__ == "numpy" and hasattr(x, "item") and getattr(x, "shape", None) == ():
        try:
            return ["a", "n:" + repr(float(x))]
        except Exception:
            return ["a", "n:" + repr(x)]
    if isinstance(x, str):
        return ["a", "s:" + x]
    if x is None:
        return ["a", "None"]
    return ["a", type(x).__name__ + ":" + str(x)]


def encode(x, notes):
    import networkx as nx
    from harness.common import sexp
    pd = _S["pd"]
    c = _cls_of(x)
    if c is not None:
        spec = _S["table"][c]
        vals = []
        for f in spec["fields"]:
            try:
                v = getattr(x, f["name"])
            except AttributeError:
                notes.append(f"missing-field:{c}.{f['name']}")
                v = None
            if f["kind"] == ["opaque"] or f["kind"] == ("opaque",):
                vals.append(["a", "opaque"])
                continue
            vals.append(encode(v, notes))
            _check_kind(c, f, v, notes)
        return ["o", c] + vals
    if isinstance(x, (tuple, list)):
        return ["t"] + [encode(v, notes) for v in x]
    if isinstance(x, dict):
        return ["d"] + [[sexp.dumps(encode(k, notes)), sexp.dumps(encode(v, notes))] for k, v in x.items()]
    if isinstance(x, nx.Graph):
        d = nx.to_dict_of_dicts(x)
        nodes = sorted(sexp.dumps(encode(u, notes)) for u in d)
        edges = sorted((sexp.dumps(encode(u, notes)), sorted((sexp.dumps(encode(v, notes)),
                                                              sorted((str(k), str(val)) for k, val in attrs.items()))
                                                             for v, attrs in nbrs.items()))
                       for u, nbrs in d.items())
        ordered = ([sexp.dumps(encode(u, notes)) for u in x.nodes],
                   [(sexp.dumps(encode(u, notes)), sexp.dumps(encode(v, notes)), sorted((str(k), str(val)) for k, val in at.items()))
                    for u, v, at in x.edges(data=True)])
        # "nodes|edges#insertion-order": a hash over frozenset(g.nodes) sees the part before the bar (Lean `partOf`),
        # a content comparison everything before `#` (`canonOf`), an order-dependent digest the whole string
        dg = lambda o: hashlib.sha256(repr(o).encode()).hexdigest()[:24]
        return ["i", id(x) % (1 << 60), dg(nodes) + "|" + dg(edges) + "#" + dg(ordered)]
    if isinstance(x, pd.DataFrame):
        return ["f", id(x) % (1 << 60), _digest_frame(x)]
    if type(x).__name__ == "NONMEMModelInternals" or type(x).__name__ == "ModelInternals":
        return ["a", "opaque"]
    return _atom(x)


def _kind_accepts(kind, v):
    import networkx as nx
    pd = _S["pd"]
    k = kind[0]
    if k == "prim":
        return _cls_of(v) is None and not isinstance(v, (tuple, list, dict, nx.Graph, pd.DataFrame))
    if k == "opaque":
        return True
    if k == "ident":
        return isinstance(v, nx.Graph)
    if k == "frame":
        return isinstance(v, pd.DataFrame)
    if k == "dict":
        return isinstance(v, dict)
    if k == "cls":
        return _cls_of(v) == kind[1]
    if k == "tupleOf":
        return isinstance(v, (tuple, list)) and all(_kind_accepts(kind[1], e) for e in v)
    if k == "either":
        return _kind_accepts(kind[1], v) or _kind_accepts(kind[2], v)
    return False


def _check_kind(c, f, v, notes):
    kind = f["kind"]
    if not _kind_accepts(kind, v):
        # only fields that __eq__/__hash__ look at matter for the theorems
        if f["cmp"] or f["hash"]:
            notes.append(f"kind-mismatch:{c}.{f['name']}:{type(v).__name__}")


def _safe_hash(x):
    """hash(x), or None when hashing raises (TypeError for unhashable content; anything else is recorded too)."""
    try:
        return hash(x)
    except TypeError:
        return None
    except Exception as e:
        _S.setdefault("hash_errors", set()).add(type(e).__name__)
        return None


def _clone_with(a, field, value):
    x = object.__new__(type(a))
    x.__dict__.update(vars(a))
    x.__dict__[field] = value
    if "_hash" in x.__dict__:            # cached hashes: frozenmapping keeps None, cache_method tests hasattr
        if type(a).__name__ == "frozenmapping":
            x.__dict__["_hash"] = None
        else:
            del x.__dict__["_hash"]
    return x


def _is_value_obj(x):
    return hasattr(x, "__dict__") and type(x).__module__.startswith("pharmpy") and not isinstance(x, type)


def _fresh(x, depth=0):
    """A structurally identical rebuild of x in which no hash has ever been cached (all `_hash` caches cleared, at
    every depth): what an equal object built from scratch looks like to `hash`."""
    if depth > 14:
        return x
    if isinstance(x, tuple):
        return tuple(_fresh(v, depth + 1) for v in x)
    if isinstance(x, list):
        return [_fresh(v, depth + 1) for v in x]
    if _is_value_obj(x) and type(x).__name__ != "Output":
        y = object.__new__(type(x))
        for f, v in vars(x).items():
            if f == "_hash":
                if type(x).__name__ == "frozenmapping":
                    y.__dict__[f] = None
                continue
            y.__dict__[f] = _fresh(v, depth + 1) if (isinstance(v, (tuple, list)) or _is_value_obj(v)) else v
        return y
    return x


def _prehash(x, depth=0):
    """Hash x and everything inside it (as a search that keeps visited candidates in a set would)."""
    if depth > 14:
        return
    if isinstance(x, (tuple, list)):
        for v in x:
            _prehash(v, depth + 1)
    elif _is_value_obj(x):
        for f, v in vars(x).items():
            if f != "_hash" and (isinstance(v, (tuple, list)) or _is_value_obj(v)):
                _prehash(v, depth + 1)
    _safe_hash(x)


def _stale_cache(x, depth=0):
    """The deepest object inside x whose cached hash is not the hash of its own content; None if there is none."""
    if depth > 14:
        return None
    if isinstance(x, (tuple, list)):
        for v in x:
            r = _stale_cache(v, depth + 1)
            if r is not None:
                return r
        return None
    if not _is_value_obj(x):
        return None
    for f, v in vars(x).items():
        if f != "_hash" and (isinstance(v, (tuple, list)) or _is_value_obj(v)):
            r = _stale_cache(v, depth + 1)
            if r is not None:
                return r
    cached = vars(x).get("_hash")
    if cached is not None:
        h = _safe_hash(_fresh(x))
        if h is not None and h != cached:
            return x
    return None


def check_cache(x, mon, tags, label):
    """Mon: copying returns an equal object and hash caching does not leak: x equals its cache-free rebuild, and the
    hash x reports (possibly from a cache) is the hash of that rebuild."""
    hx = _safe_hash(x)
    if hx is None:
        return
    y = _fresh(x)
    try:
        same = bool(x == y)
    except Exception:
        return
    if not same:
        mon.append({"cls": f"rebuild-not-equal:{_cls_of(x) or type(x).__name__}", "what": f"{label}: the object differs from a field-for-field rebuild of itself"})
        return
    hy = _safe_hash(y)
    if hy is not None and hy != hx:
        st = _stale_cache(x)
        cname = type(st).__name__ if st is not None else (_cls_of(x) or type(x).__name__)
        mon.append({"cls": f"hash-cache-stale:{cname}",
                    "what": f"{label}: hash(x) != hash(equal rebuild of x without cached hashes): the {cname} inside reports a cached "
                            f"hash that is not the hash of its content ({str(st)[:80]!r})"})
    tags.append("cache-checked")


def _root_cause(a, b, depth=0):
    """a == b but hash differs (or raises): the deepest Class.field responsible, found by a dynamic probe that
    needs no table: a field is responsible when giving `a` the value `b` has for it changes hash(a) (or when
    its value is unhashable)."""
    if depth > 12:
        return "deep"
    if isinstance(a, (tuple, list)) and isinstance(b, (tuple, list)) and len(a) == len(b):
        for x, y in zip(a, b):
            hx, hy = _safe_hash(x), _safe_hash(y)
            if hx is None or hx != hy:
                return _root_cause(x, y, depth + 1)
        return "tuple"
    cname = _cls_of(a) or type(a).__name__
    if not (hasattr(a, "__dict__") and hasattr(b, "__dict__")) or (type(a) is not type(b) and _cls_of(a) != _cls_of(b)):
        return cname
    ha = _safe_hash(a)
    for f, va in vars(a).items():
        if f == "_hash" or f not in vars(b):
            continue
        vb = vars(b)[f]
        nested = isinstance(va, (tuple, list)) or (hasattr(va, "__dict__") and type(va).__module__.startswith("pharmpy"))
        if ha is None:
            try:
                hash(_clone_with(a, f, None))
                fixed_by_removal = True
            except TypeError:
                fixed_by_removal = False
            if fixed_by_removal:
                return _root_cause(va, vb, depth + 1) if nested and _safe_hash(va) is None and type(va) is type(vb) else f"{cname}.{f}"
            continue
        if va is vb:
            continue
        try:
            changed = _safe_hash(_clone_with(a, f, vb)) != ha
        except Exception:
            changed = False
        if changed:
            try:
                same = bool(va == vb)
            except Exception:
                same = False
            if nested and same and type(va) is type(vb):
                return _root_cause(va, vb, depth + 1)
            return f"{cname}.{f}"
    return cname


def compare_pair(a, b, drv, k, mon, tags, label):
    """K: model == / hash-key equality vs the real ones.  Mon: a == b => hash(a) == hash(b)."""
    try:
        real_eq = bool(a == b)
    except Exception as e:
        mon.append({"cls": "eq-raises", "what": f"{label}: == raised {type(e).__name__}: {str(e)[:80]}"})
        return
    ha, hb = _safe_hash(a), _safe_hash(b)
    c = _cls_of(a) or type(a).__name__
    tags.append(f"pair:{c}:{'eq' if real_eq else 'ne'}")
    check_cache(a, mon, tags, label + " [a]")
    if b is not a:
        check_cache(b, mon, tags, label + " [b]")
    try:
        if bool(b == a) != real_eq:
            mon.append({"cls": f"eq-asymmetric:{c}", "what": f"{label}: a == b is {real_eq} but b == a is {not real_eq}"})
    except Exception:
        pass
    if real_eq:
        if ha is None or hb is None:
            cause = _root_cause(a, b)
            mon.append({"cls": f"hash-raises:{cause}", "what": f"{label}: hash() raises TypeError (unhashable {cause})"})
        elif ha != hb:
            cause = _root_cause(a, b)
            mon.append({"cls": f"eq-hash-mismatch:{cause}",
                        "what": f"{label}: a == b but hash(a) != hash(b), len({{a, b}}) == {len({a, b})} "
                                f"(a {c}; responsible field {cause})"})
        elif len({a, b}) != 1:
            mon.append({"cls": f"eq-set-size:{c}", "what": f"{label}: a == b, equal hashes, but len({{a, b}}) == {len({a, b})}"})
    if _S.get("refused") or "table_error" in _S:
        # the table of this run does not describe the source (broken obligation, reported by the runner):
        # no model-vs-code comparison, the monitors above have run
        tags.append("K-skipped:translator-refused")
        return
    if drv is not None:
        notes = []
        ea, eb = encode(a, notes), encode(b, notes)
        for nt in sorted(set(notes)):
            k.append(f"{label}: {nt}")
        ans = drv.ask(["eqhash", ea, eb])
        if not (isinstance(ans, list) and len(ans) == 5):
            k.append(f"{label}: driver answered {ans}")
            return
        m_eq, m_heq, m_lawful, m_ha, m_hb = [x == "true" for x in ans]
        if m_eq != real_eq:
            k.append(f"{label}: model == is {m_eq}, real == is {real_eq} ({c})")
        if m_ha != (ha is not None) or m_hb != (hb is not None):
            k.append(f"{label}: model hashable {m_ha}/{m_hb}, real {ha is not None}/{hb is not None} ({c})")
        elif ha is not None and hb is not None and m_heq != (ha == hb):
            k.append(f"{label}: model hash keys equal {m_heq}, real hashes equal {ha == hb} ({c})")
        # the theorem, on this instance (cannot fail if the proof checked)
        if m_lawful and m_eq and m_ha and not m_heq:
            k.append(f"{label}: theorem eq_implies_hash_eq contradicted by the executable model")
        tags.append("lawful" if m_lawful else "unlawful")


def _components(x):
    """(label, object) pairs inside a model worth comparing on their own."""
    Model = _S["Model"]
    if not isinstance(x, Model):
        return []
    out = [("parameters", x.parameters), ("random_variables", x.random_variables), ("statements", x.statements),
           ("datainfo", x.datainfo), ("execution_steps", x.execution_steps),
           ("dependent_variables", x.dependent_variables)]
    if x.statements.ode_system is not None:
        out.append(("ode_system", x.statements.ode_system))
    return out


# ================================================================== call cases

def run_call(case, drv):
    M, Model = _S["M"], _S["Model"]
    k, mon, tags = [], [], []
    fn = case["fn"]
    f = getattr(M, fn, None)
    if f is None or not callable(f) or inspect.isclass(f):
        return {"tags": [f"not-a-function:{fn}"], "nontrivial": False}
    rng = random.Random(case["seed"])
    ps0 = list(inspect.signature(f).parameters.values())
    if not ps0 or ps0[0].name not in MODEL_PARAM_NAMES or fn in SKIP_FUNCTIONS:
        return {"tags": [f"uncallable:{fn}", "uncallable"], "nontrivial": False}
    model = _base_model(case["recipe"])
    try:
        kwargs = build_args(fn, f, model, rng)
    except Uncallable as e:
        return {"tags": [f"uncallable:{fn}", "uncallable"], "nontrivial": False}
    _S["scratch"].mkdir(parents=True, exist_ok=True)
    os.chdir(_S["scratch"])
    before = snapshot(model)
    results = []
    outcome = None
    for rep in range(2):
        kw = {kk: (vv.copy() if hasattr(vv, "copy") and not isinstance(vv, (dict, list)) else copy.copy(vv)) for kk, vv in kwargs.items()}
        try:
            with warnings.catch_warnings(), contextlib.redirect_stdout(io.StringIO()):
                warnings.simplefilter("ignore")
                r = f(model, **kw)
                if inspect.isgenerator(r):      # omit_data / resample_data are lazy: run them up to the first item
                    r = next(r, None)
            results.append(r)
            outcome = "returns"
        except Exception as e:
            outcome = "raises:" + type(e).__name__
            results.append(None)
        after = snapshot(model)
        diff = snap_diff(before, after)
        if diff:
            parts = sorted({d.split(":")[0].split(".")[0] if d.startswith("id:") else d for d in diff})
            what = "dataset" if any(d in ("dataset", "id:_dataset") for d in diff) else parts[0]
            mon.append({"cls": f"argument-mutated:{what}:{fn}",
                        "what": f"{fn}(model, {json.dumps(_describe(kwargs), default=str)[:200]}) {outcome}: snapshot of the argument "
                                f"model differs in {diff[:6]}"})
            # the cached start model is no longer the model of the recipe: rebuild it for later cases
            _S["base"].pop(case["recipe"], None)
            break
    tags.append(f"call:{outcome.split(':')[0]}")
    if outcome.startswith("raises"):
        tags.append(outcome)
    tags.append(f"recipe={case['recipe']}")
    # effect-analysis verdict vs observation (K for T3b): the Lean checker's verdict on the regenerated
    # effect program, the translator's own view of it, and what the snapshot shows
    eff = _S.get("effects")
    if drv is not None and "lean_effects" not in _S:
        ans = drv.ask(["effects"])
        _S["lean_effects"] = {row[0]: (row[1] == "true", row[2]) for row in ans} if isinstance(ans, list) else {}
    lean_eff = _S.get("lean_effects")
    mutated = any(m_["cls"].startswith("argument-mutated") for m_ in mon)
    if eff is not None and fn in eff:
        v = eff[fn]
        tags.append("effects:" + v["verdict"])
        if lean_eff is not None and drv is not None:
            if fn not in lean_eff:
                if v["verdict"] != "unanalysed":
                    k.append(f"{fn}: missing from Generated.effects")
            else:
                ok, writes = lean_eff[fn]
                if ok != (v["verdict"] == "pure"):
                    k.append(f"{fn}: Lean checker says {'pure' if ok else 'writes ' + str(writes)}, translator says {v['verdict']}")
                if ok and mutated:
                    k.append(f"{fn}: effect checker proves no write reaches an argument object, but the snapshot of the "
                             f"argument differs ({mon[-1]['what'][:120]})")
        elif v["verdict"] == "pure" and mutated:
            k.append(f"{fn}: effect analysis says no write reaches an argument object, snapshot differs")
    r1, r2 = results[0], results[1] if len(results) > 1 else None
    models = []
    for r in (r1,):
        if isinstance(r, Model):
            models.append(r)
        elif isinstance(r, (tuple, list)):
            models += [x for x in r if isinstance(x, Model)]
    for rm in models[:2]:
        tags.append("result:Model")
        check_cache(rm, mon, tags, f"{fn} result")
        for cls, what in wellformed(rm, model, fn, kwargs):
            mon.append({"cls": cls, "what": f"{fn}(model, {json.dumps(_describe(kwargs), default=str)[:160]}) returned a model with: {what}"})
        # copying returns an equal object
        try:
            if not (copy.copy(rm) == rm and copy.deepcopy(rm) == rm):
                mon.append({"cls": "copy-not-equal", "what": f"{fn}: copy of the result is not equal to the result"})
        except Exception as e:
            mon.append({"cls": "copy-raises", "what": f"{fn}: copy raised {type(e).__name__}"})
        if rm is model:
            tags.append("result-is-argument")
    if isinstance(r1, Model) and isinstance(r2, Model):
        compare_pair(r1, r2, drv, k, mon, tags, f"{fn} twice")
        if r1 == r2:
            for (la, a), (lb, b) in zip(_components(r1), _components(r2)):
                compare_pair(a, b, drv, k, mon, tags, f"{fn} twice .{la}")
        compare_pair(model, r1, drv, k, mon, tags, f"{fn} argument vs result")
    os.chdir("/")
    shutil.rmtree(_S["scratch"], ignore_errors=True)     # nothing is left behind between cases
    return {"k": k, "mon": mon, "tags": tags, "nontrivial": True}


# ================================================================== object cases

def build_objects(what, variant, rng):
    """-> list of (label, a, b): pairs with equal content built differently, and pairs with one field changed."""
    import pharmpy.model as PM
    from pharmpy.basic import Expr
    from pharmpy.internals.immutable import frozenmapping
    from pharmpy.model.execution_steps import EstimationStep, SimulationStep
    pd, M = _S["pd"], _S["M"]
    pairs = []
    r = lambda: round(rng.uniform(0.1, 3), 3)
    if what == "parameter":
        init = r()
        a = PM.Parameter.create("TH%d" % rng.randint(1, 3), init, lower=0, upper=10, fix=rng.random() < 0.3)
        b = PM.Parameter.create(a.name, init, lower=0, upper=10, fix=a.fix)
        pairs.append(("same", a, b))
        pairs.append(("other-init", a, a.replace(init=init + 1)))
        pairs.append(("int-vs-float", PM.Parameter.create("X", 1, lower=0), PM.Parameter.create("X", 1.0, lower=0.0)))
    elif what == "parameters":
        ps = [PM.Parameter.create("P%d" % i, r(), lower=0) for i in range(rng.randint(1, 5))]
        a, b = PM.Parameters.create(ps), PM.Parameters.create(list(ps))
        pairs.append(("same", a, b))
        pairs.append(("reordered", a, PM.Parameters.create(list(reversed(ps)))))
    elif what == "columninfo":
        a = PM.ColumnInfo.create("WGT", type="covariate", descriptor="body weight")
        b = PM.ColumnInfo.create("WGT", type="covariate", descriptor=rng.choice(["body weight", "age", None]))
        pairs.append(("descriptor", a, b))
        pairs.append(("categories", PM.ColumnInfo.create("C", categories=[1, 2]), PM.ColumnInfo.create("C", categories=[1, 2, 3])))
        pairs.append(("same", a, PM.ColumnInfo.create("WGT", type="covariate", descriptor="body weight")))
    elif what == "datainfo":
        cols = [PM.ColumnInfo.create(n, descriptor=rng.choice([None, "age"])) for n in ["ID", "TIME", "DV"]]
        cols2 = [PM.ColumnInfo.create(n, descriptor=c.descriptor if variant % 2 else None) for n, c in zip(["ID", "TIME", "DV"], cols)]
        pairs.append(("columns", PM.DataInfo.create(cols), PM.DataInfo.create(cols2)))
        pairs.append(("separator", PM.DataInfo.create(cols), PM.DataInfo.create(cols, separator=";")))
    elif what == "frozenmapping":
        items = [("k%d" % i, rng.randint(0, 5)) for i in range(rng.randint(0, 4))]
        sh = items[:]
        rng.shuffle(sh)
        pairs.append(("shuffled", frozenmapping(dict(items)), frozenmapping(dict(sh))))
        pairs.append(("same-order", frozenmapping(dict(items)), frozenmapping(dict(items))))
        pairs.append(("extra", frozenmapping(dict(items)), frozenmapping(dict(items + [("zz", 1)]))))
    elif what in ("eststep", "steps"):
        opts = [("NITER", 5), ("SEED", 7), ("PRINT", 1)][: rng.randint(0, 3)]
        sh = opts[:]
        rng.shuffle(sh)
        meth = rng.choice(["FOCE", "IMP"])
        a = EstimationStep.create(meth, interaction=True, tool_options=dict(opts), predictions=("IPRED",))
        b = EstimationStep.create(meth, interaction=True, tool_options=dict(sh), predictions=("IPRED",))
        c = EstimationStep.create(meth, interaction=True, tool_options=dict(opts), predictions=("PRED",))
        if what == "eststep":
            pairs += [("tool-options-order", a, b), ("predictions", a, c), ("sim-vs-est", a, SimulationStep.create(n=2))]
        else:
            pairs += [("tool-options-order", PM.ExecutionSteps.create([a]), PM.ExecutionSteps.create([b])),
                      ("two", PM.ExecutionSteps.create([a, c]), PM.ExecutionSteps.create([a, c]))]
    elif what == "normal":
        a = PM.NormalDistribution.create("ETA1", "iiv", 0, "OM1")
        pairs += [("same", a, PM.NormalDistribution.create("ETA1", "iiv", 0, "OM1")),
                  ("var", a, PM.NormalDistribution.create("ETA1", "iiv", 0, "OM2"))]
    elif what == "joint":
        a = PM.JointNormalDistribution.create(["E1", "E2"], "iiv", [0, 0], [["A", "B"], ["B", "C"]])
        pairs += [("same", a, PM.JointNormalDistribution.create(["E1", "E2"], "iiv", [0, 0], [["A", "B"], ["B", "C"]])),
                  ("var", a, PM.JointNormalDistribution.create(["E1", "E2"], "iiv", [0, 0], [["A", "D"], ["D", "C"]]))]
    elif what == "rvs":
        d1 = PM.NormalDistribution.create("ETA1", "iiv", 0, "OM1")
        d2 = PM.NormalDistribution.create("EPS1", "ruv", 0, "SI1")
        pairs += [("same", PM.RandomVariables.create([d1, d2]), PM.RandomVariables.create([d1, d2])),
                  ("order", PM.RandomVariables.create([d1, d2]), PM.RandomVariables.create([d2, d1]))]
    elif what == "varlevel":
        pairs += [("same", PM.VariabilityLevel("IIV", True, "ID"), PM.VariabilityLevel("IIV", True, "ID")),
                  ("group", PM.VariabilityLevel("IIV", True, "ID"), PM.VariabilityLevel("IIV", True, "OCC"))]
    elif what == "assignment":
        pairs += [("same", PM.Assignment.create("X", "A+B"), PM.Assignment.create("X", "B+A")),
                  ("other", PM.Assignment.create("X", "A+B"), PM.Assignment.create("X", "A*B"))]
    elif what == "compartment":
        a = PM.Compartment.create("CENTRAL", doses=(PM.Bolus.create("AMT"),), lag_time="ALAG")
        pairs += [("same", a, PM.Compartment.create("CENTRAL", doses=(PM.Bolus.create("AMT"),), lag_time="ALAG")),
                  ("dose", a, PM.Compartment.create("CENTRAL", doses=(PM.Infusion.create("AMT", rate="R1"),), lag_time="ALAG")),
                  ("bolus-admid", PM.Bolus.create("AMT", admid=1), PM.Bolus.create("AMT", admid=2))]
    elif what in ("odes", "statements"):
        def system(order):
            cb = PM.CompartmentalSystemBuilder()
            central = PM.Compartment.create("CENTRAL", doses=(PM.Bolus.create("AMT"),))
            peri = PM.Compartment.create("PERIPHERAL")
            for cname in order:
                cb.add_compartment(central if cname == "C" else peri)
            cb.add_flow(central, PM.output, "CL/V")
            cb.add_flow(central, peri, "Q/V")
            cb.add_flow(peri, central, "Q/V2" if order != "x" else "Q/V3")
            return PM.CompartmentalSystem(cb)
        a, b = system("CP"), system("PC" if variant % 2 else "CP")
        if what == "odes":
            pairs += [("same-content", a, b), ("self", a, a)]
        else:
            s1 = PM.Assignment.create("V2", "TH1")
            pairs += [("same-content", PM.Statements([s1, a]), PM.Statements([s1, b])),
                      ("assignments-only", PM.Statements([s1]), PM.Statements([PM.Assignment.create("V2", "TH1")]))]
    elif what == "model_dataset":
        m = _base_model(0)
        pairs += [("dataset-differs", m, m.replace(dataset=m.dataset.iloc[: 10 + variant])),
                  ("dataset-copy", m, m.replace(dataset=m.dataset.copy())),
                  ("name", m, m.replace(name="other"))]
    elif what == "model_iie":
        m = _base_model(0)
        iie = pd.DataFrame({"ETA_CL": [0.1, 0.2]})
        pairs += [("iie", m.replace(initial_individual_estimates=iie), m.replace(initial_individual_estimates=iie.copy()))]
    return pairs


def run_obj(case, drv):
    rng = random.Random(case["seed"])
    k, mon, tags = [], [], []
    pairs = build_objects(case["what"], case["variant"], rng)
    for label, a, b in pairs:
        compare_pair(a, b, drv, k, mon, tags, f"{case['what']}/{label}")
        # copying returns an equal (here: the same) object
        for x in (a, b):
            try:
                if not (copy.copy(x) == x and copy.deepcopy(x) == x):
                    mon.append({"cls": "copy-not-equal", "what": f"{case['what']}/{label}: copy is not equal to the original"})
            except Exception as e:
                mon.append({"cls": "copy-raises", "what": f"{case['what']}/{label}: copy raised {type(e).__name__}"})
    return {"k": k, "mon": mon, "tags": tags + [f"obj:{case['what']}"], "nontrivial": bool(pairs)}


def build_order_pairs(what, rng):
    """Pairs of objects with the same content reached along different construction orders (builder operations,
    replace chains, dict / graph insertion orders, concatenation grouping permuted).  Every class with its own
    __eq__/__hash__ has at least one such pair; whether a pair is equal is decided by the real `==`."""
    import sympy
    import pharmpy.model as PM
    from pharmpy.basic import Expr, Matrix, Unit
    from pharmpy.internals.immutable import frozenmapping
    from pharmpy.model.execution_steps import EstimationStep
    pairs = []

    def shuffled(xs):
        ys = list(xs)
        rng.shuffle(ys)
        return ys

    prehash = rng.random() < 0.5           # hash every intermediate object of a derivation chain before the next step

    def chain(obj, steps):
        for kw in steps:
            if prehash:
                _prehash(obj)
            obj = obj.replace(**kw)
        return obj

    def system(comp_order, flow_order, comps, flows, detour):
        cb = PM.CompartmentalSystemBuilder()
        for nme in comp_order:
            cb.add_compartment(comps[nme])
        if detour is not None:                      # add a flow, take it away again, add it later with the others
            u, v, r = flows[detour]
            cb.add_flow(comps.get(u, PM.output), comps.get(v, PM.output), r)
            cb.remove_flow(comps.get(u, PM.output), comps.get(v, PM.output))
        for key in flow_order:
            u, v, r = flows[key]
            cb.add_flow(comps.get(u, PM.output), comps.get(v, PM.output), r)
        return PM.CompartmentalSystem(cb)

    def random_system_pair():
        comps = {"CENTRAL": PM.Compartment.create("CENTRAL", doses=(PM.Bolus.create("AMT"),))}
        flows = {"out": ("CENTRAL", "OUTPUT", "CL/V1")}
        for i in range(rng.randint(0, 2)):
            nme = f"PERIPHERAL{i + 1}"
            comps[nme] = PM.Compartment.create(nme)
            flows[f"c2p{i}"] = ("CENTRAL", nme, f"Q{i}/V1")
            flows[f"p2c{i}"] = (nme, "CENTRAL", f"Q{i}/VP{i}")
        if rng.random() < 0.5:
            comps["DEPOT"] = PM.Compartment.create("DEPOT", doses=(PM.Bolus.create("AMT"),))
            comps["CENTRAL"] = PM.Compartment.create("CENTRAL")
            flows["abs"] = ("DEPOT", "CENTRAL", "KA")
        a = system(list(comps), list(flows), comps, flows, None)
        b = system(shuffled(comps), shuffled(flows), comps, flows, rng.choice([None] + list(flows)))
        return a, b

    if what == "odes":
        for i in range(3):
            a, b = random_system_pair()
            pairs.append((f"builder-order-{i}", a, b))
    elif what == "statements":
        a, b = random_system_pair()
        s1, s2, s3 = PM.Assignment.create("K", "TH1"), PM.Assignment.create("V1", "TH2*WGT"), PM.Assignment.create("Y", "F + EPS1")
        pairs.append(("same-content-systems", PM.Statements([s1, s2, a, s3]), PM.Statements((s1, s2, b, s3))))
        pairs.append(("grouping", (s1 + s2) + (a + s3), s1 + (s2 + b) + s3))
        pairs.append(("before-after", PM.Statements([s1, s2, a, s3]).before_odes + b + PM.Statements([s3]), PM.Statements([s1, s2, a, s3])))
    elif what == "parameters":
        ps = [PM.Parameter.create(f"P{i}", round(rng.uniform(0.1, 3), 3), lower=0) for i in range(rng.randint(2, 5))]
        a = PM.Parameters.create(ps)
        b = PM.Parameters.create(ps[:1])
        for q in ps[1:]:
            b = b + q
        pairs.append(("create-vs-add", a, b))
        steps = [{"init": 1.5}, {"fix": True}, {"upper": 10.0}, {"lower": 0.05}]
        pairs.append(("replace-chain", chain(ps[0], steps), chain(ps[0], list(reversed(steps)))))
        inits = {q.name: q.init + 0.25 for q in ps}
        pairs.append(("set-inits-order", a.set_initial_estimates(inits), a.set_initial_estimates(dict(reversed(list(inits.items()))))))
    elif what == "columninfo":
        base = PM.ColumnInfo.create("WGT")
        cats = [("a", 1), ("b", 2), ("c", 3)]
        steps = [{"type": "covariate"}, {"scale": "ratio"}, {"descriptor": "body weight"}, {"unit": "kg"}, {"drop": False},
                 {"datatype": "float64"}]
        pairs.append(("replace-chain", chain(base, steps), chain(base, shuffled(steps))))
        pairs.append(("create-vs-replace", PM.ColumnInfo.create("WGT", type="covariate", unit="kg"),
                      base.replace(unit="kg").replace(type="covariate")))
        c1 = PM.ColumnInfo.create("SEX", continuous=False, categories=dict(cats))
        c2 = PM.ColumnInfo.create("SEX", continuous=False, categories=dict(shuffled(cats)))
        pairs.append(("categories-order", c1, c2))
    elif what == "datainfo":
        cols = [PM.ColumnInfo.create(n) for n in ["ID", "TIME", "DV", "WGT"]]
        di = PM.DataInfo.create(cols)
        edits = [cols[0].replace(type="id"), cols[1].replace(type="idv"), cols[2].replace(type="dv"),
                 cols[3].replace(type="covariate", descriptor="body weight")]
        a, b = di, di
        for cinfo in edits:
            a = a.set_column(cinfo)
        for cinfo in shuffled(edits):
            b = b.set_column(cinfo)
        pairs.append(("set-column-order", a, b))
        pairs.append(("create-list-vs-tuple", PM.DataInfo.create(list(edits)), PM.DataInfo.create(tuple(edits))))
        pairs.append(("types-setter", a, di.set_types(["id", "idv", "dv", "covariate"]).set_column(edits[3])))
    elif what == "eststep":
        opts = [("NITER", 5), ("SEED", 7), ("PRINT", 1)]
        e0 = EstimationStep.create("FOCE")
        steps = [{"interaction": True}, {"maximum_evaluations": 99}, {"tool_options": dict(opts)}, {"predictions": ("IPRED",)}]
        a = chain(e0, steps)
        b = chain(e0, shuffled(steps[:2]) + [{"tool_options": dict(shuffled(opts))}, steps[3]])
        pairs.append(("replace-chain", a, b))
        pairs.append(("steps-add", PM.ExecutionSteps.create([a, e0]), PM.ExecutionSteps.create([b]) + e0))
    elif what == "rvs":
        d1 = PM.NormalDistribution.create("ETA1", "iiv", 0, "OM1")
        d2 = PM.NormalDistribution.create("ETA2", "iiv", 0, "OM2")
        d3 = PM.NormalDistribution.create("EPS1", "ruv", 0, "SI1")
        a = PM.RandomVariables.create([d1, d2, d3])
        pairs.append(("create-vs-add", a, PM.RandomVariables.create([d1]) + d2 + d3))
        pairs.append(("slices", a, a[0:1] + a[1:]))
        try:
            j, _ = a.join(["ETA1", "ETA2"])
            pairs.append(("join-unjoin", a, j.unjoin("ETA1")))
            j2, _ = a.join(["ETA2", "ETA1"])
            pairs.append(("join-order", j, j2))
        except Exception:
            pass
        lv = [PM.VariabilityLevel("IIV", True, "ID"), PM.VariabilityLevel("IOV", False, "OCC")]
        pairs.append(("hierarchy", PM.VariabilityHierarchy(tuple(lv)), PM.VariabilityHierarchy(tuple(lv[:1])) + lv[1]))
    elif what == "dists":
        a = PM.NormalDistribution.create("ETA1", "iiv", 0, "OM1")
        pairs.append(("normal-replace", a, PM.NormalDistribution.create("X", "ruv", 1, "Q").replace(name="ETA1").replace(level="iiv")
                      .replace(mean=0).replace(variance="OM1")))
        var = [["A", "B"], ["B", "C"]]
        j1 = PM.JointNormalDistribution.create(["E1", "E2"], "iiv", [0, 0], var)
        j2 = PM.JointNormalDistribution.create(("E1", "E2"), "IIV", Matrix([0, 0]), Matrix(sympy.Matrix(var)))
        pairs.append(("joint-constructors", j1, j2))
    elif what == "basic":
        pairs.append(("expr-commutative", Expr("A + B*C"), Expr("C*B + A")))
        pairs.append(("expr-from-sympy", Expr("A + 2"), Expr(sympy.Symbol("A") + 2)))
        pairs.append(("matrix", Matrix([["A", "B"], ["B", "C"]]), Matrix(sympy.Matrix([["A", "B"], ["B", "C"]]))))
        pairs.append(("unit", Unit("kg*m"), Unit("m*kg")))
    elif what == "mappings":
        items = [(f"k{i}", rng.randint(0, 5)) for i in range(rng.randint(2, 5))]
        a = frozenmapping(dict(items))
        pairs.append(("insertion-order", a, frozenmapping(dict(shuffled(items)))))
        b = frozenmapping(dict(items[:1]))
        for kk, vv in shuffled(items[1:]):
            if prehash:
                _prehash(b)
            b = b.replace(kk, vv)
        pairs.append(("replace-order", a, b))
    elif what == "compartment":
        c0 = PM.Compartment.create("CENTRAL")
        steps = [{"doses": (PM.Bolus.create("AMT"),)}, {"lag_time": "ALAG"}, {"bioavailability": "F1"}, {"input": "R"}]
        pairs.append(("replace-chain", chain(c0, steps), chain(c0, shuffled(steps))))
        pairs.append(("infusion", PM.Infusion.create("AMT", rate="R1"), PM.Infusion.create("AMT", admid=1, rate="R1", duration=None)))
    elif what == "model":
        m = _base_model(0)
        P = m.parameters.set_initial_estimates({"POP_CL": 0.01})
        S = m.statements.reassign("S1", "VC*1")
        pairs.append(("replace-order", m.replace(parameters=P).replace(statements=S), m.replace(statements=S).replace(parameters=P)))
        dvs = [("Y", 1), ("Y2", 2)]
        try:
            pairs.append(("dv-order", m.replace(dependent_variables=dict(dvs)), m.replace(dependent_variables=dict(reversed(dvs)))))
        except Exception:
            pass
        pairs.append(("reload", m, _S["M"].load_example_model("pheno")))
    return pairs


def run_orders(case, drv):
    rng = random.Random(case["seed"])
    k, mon, tags = [], [], []
    try:
        pairs = build_order_pairs(case["what"], rng)
    except Exception as e:
        if os.environ.get("VERIF_DEBUG_ORDERS"):
            raise
        # a constructor refusing what the unchanged tree accepts is not this monitor's subject; visible in the distribution
        return {"tags": [f"orders:{case['what']}:construction-raises:{type(e).__name__}"], "nontrivial": False}
    for label, a, b in pairs:
        compare_pair(a, b, drv, k, mon, tags, f"orders:{case['what']}/{label}")
    return {"k": k, "mon": mon, "tags": tags + [f"orders:{case['what']}"], "nontrivial": bool(pairs)}


def run_commute(case, drv):
    """a = g(f(m)) and b = f(g(m)): wherever the two results (or components of them) are equal, equality must be
    consistent with hashing; an equal component of b put into a gives an equal container."""
    M, Model = _S["M"], _S["Model"]
    k, mon, tags = [], [], []
    (fn, fkw), (gn, gkw) = COMMUTING[case["f"]], COMMUTING[case["g"]]
    m = _base_model(case["recipe"])

    def app(model, name, kw):
        with warnings.catch_warnings(), contextlib.redirect_stdout(io.StringIO()):
            warnings.simplefilter("ignore")
            return getattr(M, name)(model, **copy.deepcopy(kw))
    prehash = bool(case["seed"] & 1)      # also hash the intermediate models (and their parts) before the second step
    try:
        ia, ib = app(m, fn, fkw), app(m, gn, gkw)
        if prehash:
            _prehash(ia)
            _prehash(ib)
            tags.append("commute:intermediates-prehashed")
        a = app(ia, gn, gkw)
        b = app(ib, fn, fkw)
    except Exception as e:
        return {"tags": [f"commute:raises:{type(e).__name__}"], "nontrivial": False}
    label = f"{gn}({fn}(m)) vs {fn}({gn}(m))"
    compare_pair(a, b, drv, k, mon, tags, label)
    equal_parts = 0
    for (la, ca), (lb, cb) in zip(_components(a), _components(b)):
        compare_pair(ca, cb, drv, k, mon, tags, f"{label} .{la}")
        try:
            same = bool(ca == cb) and ca is not cb
        except Exception:
            same = False
        if not same:
            continue
        equal_parts += 1
        # exchange the equal component: the containers must be equal and hash equal too
        try:
            if la == "ode_system":
                st = a.statements
                st2 = st.before_odes + cb + st.after_odes
                compare_pair(st, st2, drv, k, mon, tags, f"{label} statements with the equal ode_system exchanged")
                compare_pair(a, a.replace(statements=st2), drv, k, mon, tags, f"{label} model with the equal ode_system exchanged")
            elif la in ("parameters", "random_variables", "statements", "datainfo", "execution_steps"):
                compare_pair(a, a.replace(**{la: cb}), drv, k, mon, tags, f"{label} model with the equal {la} exchanged")
        except Exception as e:
            tags.append(f"commute:exchange-raises:{type(e).__name__}")
    tags.append(f"commute:equal-parts={equal_parts}")
    tags.append("commute:models-equal" if a == b else "commute:models-differ")
    return {"k": k, "mon": mon, "tags": tags, "nontrivial": True}


def run_coll(case, drv):
    """The container algebra used directly: create / replace / + / reflected + of Parameters, RandomVariables and
    DataInfo on items whose names collide with names already present — with equal and with different attributes.
    Expected: a refusal (ValueError) or a collection with unique names.  K: the Lean `combine` under the policy the
    translator read off the source for this operation."""
    import pharmpy.model as PM
    rng = random.Random(case["seed"])
    k, mon, tags = [], [], []
    cls = case["cls"]
    method, operand = COLL_OPS[case["op"]]
    pool = [f"N{i}" for i in range(5)]

    def item(names, variant):
        if cls == "Parameters":
            it = PM.Parameter.create(names[0], [1.5, 2.0, 0.5][variant % 3], lower=0, fix=variant >= 3)
            return it, ([it.name], f"{it.init};{it.lower};{it.upper};{it.fix}")
        if cls == "DataInfo":
            it = PM.ColumnInfo.create(names[0], type=["unknown", "covariate", "dv"][variant % 3])
            return it, ([it.name], it.type)
        if len(names) == 1:
            it = PM.NormalDistribution.create(names[0], "iiv", 0, f"OM{variant}")
        else:
            it = PM.JointNormalDistribution.create(list(names), "iiv", [0, 0], [[f"A{variant}", "B"], ["B", f"C{variant}"]])
        return it, (list(it.names), str(it.variance))

    def items(name_lists):
        built = [item(ns, rng.randrange(5)) for ns in name_lists]
        return [b[0] for b in built], [b[1] for b in built]

    def draw_names(avoid, n, collide):
        out = []
        free = [x for x in pool if x not in avoid]
        for _ in range(n):
            if cls == "RandomVariables" and rng.random() < 0.3 and len(free) >= 2:
                ns = [free.pop(rng.randrange(len(free))), free.pop(rng.randrange(len(free)))]
            elif free:
                ns = [free.pop(rng.randrange(len(free)))]
            else:
                break
            if collide and avoid and rng.random() < 0.7:
                ns[0] = rng.choice(sorted(avoid))
            out.append(ns)
        return out

    self_names = draw_names(set(), rng.randint(0, 3), False)
    self_real, self_enc = items(self_names)
    taken = {n for ns in self_names for n in ns}
    n_other = 1 if operand == "item" else rng.randint(0, 3)
    other_names = draw_names(taken, n_other, rng.random() < 0.7)
    if method in ("create", "replace") and rng.random() < 0.5 and other_names:
        other_names.append(list(rng.choice(other_names)))          # a repeated name inside one argument list
    other_real, other_enc = items(other_names)
    if other_real and self_real and rng.random() < 0.2:
        other_real[0], other_enc[0] = self_real[0], self_enc[0]     # the very same item again
    C = getattr(PM, cls)
    kw = {"Parameters": "parameters", "RandomVariables": "dists", "DataInfo": "columns"}[cls]
    try:
        base = C.create(self_real)
    except Exception as e:
        return {"tags": [f"coll:base-raises:{type(e).__name__}"], "nontrivial": False}
    reflected = method == "__radd__"
    try:
        if method == "create":
            res = C.create(other_real)
            self_enc = []
        elif method == "replace":
            res = base.replace(**{kw: tuple(other_real)})
            self_enc = []
        elif operand == "item":
            res = (other_real[0] + base) if reflected else (base + other_real[0])
        elif operand == "collection":
            try:
                operand_coll = C.create(other_real)
            except ValueError:
                # the operand itself is refused by `create` (repeated names inside it): the operation under test never runs
                return {"tags": [f"coll:{cls}.{method}:collection:operand-refused"], "nontrivial": False}
            res = base + operand_coll
        else:
            res = (list(other_real) + base) if reflected else (base + list(other_real))
        outcome = ["ok", [str(n) for n in res.names]]
    except ValueError:
        outcome = ["err"]
    except Exception as e:
        # an inner create of the *operand* may refuse before the operation under test; anything else is recorded
        outcome = ["exc", type(e).__name__]
    tags += [f"coll:{cls}.{method}:{operand}:{outcome[0]}"]
    if outcome[0] == "ok" and len(set(outcome[1])) != len(outcome[1]):
        dup = sorted(n for n in set(outcome[1]) if outcome[1].count(n) > 1)
        mon.append({"cls": f"container-duplicate-names:{cls}.{method}",
                    "what": f"{cls}.{method} ({operand}) on names {self_names} and {other_names} returned a collection with the "
                            f"name(s) {dup} defined twice instead of refusing"})
    if drv is not None and outcome[0] != "exc":
        enc = lambda xs: [[ns, a] for ns, a in xs]
        ans = drv.ask(["combine", cls, method, operand, reflected, enc(self_enc), enc(other_enc)])
        if ans[0] == "ok":
            if outcome[0] != "ok" or ans[1] != outcome[1]:
                k.append(f"{cls}.{method}:{operand}: model returns {ans[1]} (policy {ans[3]}), code {outcome} on {self_enc} / {other_enc}")
        elif ans == ["err", "no-such-op"]:
            k.append(f"{cls}.{method}:{operand}: no policy in Generated.containerOps")
        elif ans[0] == "err":
            if outcome[0] != "err":
                k.append(f"{cls}.{method}:{operand}: model refuses ({ans[1]}), code {outcome} on {self_enc} / {other_enc}")
        else:
            k.append(f"{cls}.{method}:{operand}: driver answered {ans}")
    return {"k": k, "mon": mon, "tags": tags, "nontrivial": bool(other_names)}


def run_cacheops(case, drv):
    """K for the cache model: a seeded sequence of hash / replace / identical-content copy on a real frozenmapping
    (starting empty) against `Cache.step` with the cache-free `replace`; after every step: is a hash cached, is the
    reported hash the hash of the content, which keys are present (in order)."""
    from pharmpy.internals.immutable import frozenmapping
    rng = random.Random(case["seed"])
    k, mon, tags = [], [], []
    ops, real = [], []
    x = frozenmapping({})
    for _ in range(rng.randint(3, 12)):
        r = rng.random()
        if r < 0.35:
            ops.append(["h"])
            hash(x)
        elif r < 0.85:
            key, val = f"k{rng.randrange(4)}", str(rng.randrange(3))
            ops.append(["r", key, val])
            x = x.replace(key, val)
        else:
            ops.append(["c"])
            x = frozenmapping(x)
        cached = vars(x).get("_hash") is not None
        ok = hash(_fresh(x)) == hash(x) if cached else True
        real.append([cached, ok, list(x.keys())])
        if not ok:
            mon.append({"cls": "hash-cache-stale:frozenmapping", "what": f"after {ops}: the cached hash of {dict(x)} is not the hash of its content"})
            break
    if drv is not None and not mon:
        ans = drv.ask(["cacheops", ops])
        want = [[("true" if c else "false"), ("true" if o else "false"), ks] for c, o, ks in real]
        if ans != want:
            k.append(f"cache model and frozenmapping disagree on {ops}: model {ans}, code {want}")
    return {"k": k, "mon": mon, "tags": tags + ["cacheops"], "nontrivial": True}


# ================================================================== covariate-effect cases

def _cov_column(shape, rng, df):
    """A covariate column of the given class for the individuals of `df` (values with at most 2 decimals);
    returns (column name, Series or None when an existing column is used)."""
    pd = _S["pd"]
    ids = list(dict.fromkeys(df["ID"]))
    n = len(ids)
    if shape == "column-of-model":
        return rng.choice(["FA1", "FA2", "APGR", "WGT"]), None
    scale = rng.choice([1, 1, 10, 100])
    base = round(rng.choice([0.0, 1.0, rng.uniform(0.5, 9.0)]) * scale, 2)
    minority = rng.sample(ids, rng.randint(1, (n - 1) // 2))
    if shape == "flag-mostly-1":
        per = {i: 0.0 if i in minority else 1.0 for i in ids}
    elif shape == "flag-mostly-0":
        per = {i: 1.0 if i in minority else 0.0 for i in ids}
    elif shape == "mostly-constant-low":       # median == minimum
        per = {i: round(base + scale * rng.uniform(0.1, 5.0), 2) if i in minority else base for i in ids}
    elif shape == "mostly-constant-high":      # median == maximum
        per = {i: round(base - scale * rng.uniform(0.1, 5.0), 2) if i in minority else base for i in ids}
    elif shape == "constant":
        per = {i: base for i in ids}
    elif shape == "continuous":
        per = {i: round(scale * rng.uniform(0.5, 9.0), 2) for i in ids}
    elif shape == "continuous-wide":           # median more than 2000 above the minimum
        s_ = rng.choice([5000.0, 20000.0, 100000.0])
        per = {i: round(s_ * rng.uniform(1.5, 5.0), 1) for i in ids}
        per[ids[0]] = s_
    elif shape == "time-varying":              # varies within the individual; the individual median is the usual value
        usual = {i: base if i not in minority else round(base + scale * rng.uniform(0.1, 5.0), 2) for i in ids}
        if rng.random() < 0.5:
            usual = {i: round(scale * rng.uniform(0.5, 9.0), 2) for i in ids}
        vals = []
        cnt = df.groupby("ID").cumcount()
        for i, c in zip(df["ID"], cnt):
            v = usual[i]
            if c > 0 and c % 5 == 4:          # at most every fifth record deviates, never the majority
                v = round(v + scale * rng.uniform(-0.4, 3.0), 2)
            vals.append(v)
        return "COVX", pd.Series(vals, index=df.index, dtype=float)
    else:
        raise ValueError(shape)
    return "COVX", df["ID"].map(per).astype(float)


def _cov_model(case):
    """pheno with the generated covariate column (type covariate)."""
    M = _S["M"]
    if "coveff_base" not in _S:
        m0 = M.load_example_model("pheno")
        _prehash(m0)
        _S["coveff_base"] = m0
    base = _S["coveff_base"]
    rng = random.Random(case["seed"])
    df = base.dataset.copy()
    cov, col = _cov_column(case["shape"], rng, df)
    if col is None:
        return base, cov, rng
    df[cov] = col
    m = base.replace(dataset=df)
    di = m.datainfo
    m = m.replace(datainfo=di.set_column(di[cov].replace(type="covariate")))
    m = m.update_source()
    return m, cov, rng


def _frac(x):
    from fractions import Fraction
    f = Fraction(repr(float(x)))
    return f"{f.numerator}/{f.denominator}"


def _cov_position(effect, md, mn, mx):
    """decidable description of the covariate class (from the three statistics the code reads)"""
    if md == mn or md == mx:
        return "median-at-min-or-max"
    if effect == "lin" and round(1 / (md - mn), 4) < 0.001:
        return "linear-upper-bound-below-0.001"
    return "median-interior"


def run_coveff(case, drv):
    """add_covariate_effect on a covariate of a constructed class.  Mon: argument untouched, result well formed (the new
    thetas lie within their bounds).  K: `_choose_param_inits` (every effect, index None/0/1/2) vs the Lean `chooseInits`
    on the statistics the code reads (median of individual medians, min, max as exact rationals of the floats)."""
    M, Model = _S["M"], _S["Model"]
    from pharmpy.modeling import covariate_effect as CE
    k, mon, tags = [], [], []
    model, cov, rng = _cov_model(case)
    df = model.dataset
    md = float(CE._calculate_median(model, cov))
    mn, mx = float(df[cov].min()), float(df[cov].max())
    tags += [f"coveff:{case['shape']}", "coveff:" + _cov_position("-", md, mn, mx)]
    if not (mn <= md <= mx):
        raise RuntimeError(f"median {md} outside [{mn}, {mx}]")
    # ---- K
    for effect in COV_EFFECTS:
        for index in (None, 0, 1, 2):
            if index is not None and effect != "piece_lin":
                continue
            try:
                real = CE._choose_param_inits(effect, model, cov, index)
                real = ("ok", float(real["init"]), float(real["lower"]), float(real["upper"]))
            except Exception as e:
                real = ("err", type(e).__name__ + ":" + str(e)[:40])
            if drv is None:
                continue
            ans = drv.ask(["covinit", effect, _frac(md), _frac(mn), _frac(mx), "none" if index is None else str(index)])
            where = f"_choose_param_inits({effect!r}, {cov} with median {md}, min {mn}, max {mx}, index={index})"
            if not isinstance(ans, list) or not ans or ans[0] not in ("ok", "err"):
                k.append(f"{where}: driver answered {ans}")
            elif ans[0] == "err" or real[0] == "err":
                if ans[0] != real[0] or not (ans[1] == "piece-lin-median-at-extreme" and real[1].startswith("Exception:Median cannot")):
                    k.append(f"{where}: model {ans}, code {real}")
                else:
                    tags.append("coveff:refused-piece-lin")
            else:
                i10, l4, u4 = int(ans[1]), int(ans[2]), int(ans[3])
                dl, du = abs(real[2] * 1e4 - l4), abs(real[3] * 1e4 - u4)
                # the code divides the float log(0.01, 10) = -1.9999999999999996, the model the exact -2: an exact tie
                # of the fourth decimal may round the other way (one unit)
                tie = dl > 1e-6 or du > 1e-6
                if tie:
                    tags.append("coveff:rounding-tie")
                tol = (10.0 if tie else 0.0) + 1e-6 * max(1.0, abs(i10))
                if dl > 1.000001 or du > 1.000001 or abs(real[1] * 1e5 - i10) > tol:
                    k.append(f"{where}: model init {i10}e-5 bounds [{l4}e-4, {u4}e-4], code init {real[1]} bounds [{real[2]}, {real[3]}]")
                inside = real[2] <= real[1] <= real[3]
                if (ans[4] == "true") != inside and not tie:
                    k.append(f"{where}: model says init within bounds = {ans[4]}, code gives {real[1:]}")
                if ans[5] == "true" and not inside and not tie:
                    k.append(f"{where}: contradicts init_within_bounds_partial: side condition holds, code gives {real[1:]}")
                tags.append(f"coveff:{effect}:{'inside' if inside else 'outside'}")
    # ---- Mon: the public function
    distinct = df[cov].nunique()
    effects = ["exp"]
    pool = ["lin", "piece_lin"] + (["pow"] if mn > 0 else []) + (["cat", "cat2"] if distinct <= 4 else [])
    effects += rng.sample(pool, min(len(pool), rng.randint(1, 2)))
    before = snapshot(model)
    for effect in effects:
        kwargs = {"parameter": rng.choice(["CL", "VC"]), "covariate": cov, "effect": effect}
        if rng.random() < 0.3:
            kwargs["operation"] = "+"
        outcome, r = "returns", None
        try:
            with warnings.catch_warnings(), contextlib.redirect_stdout(io.StringIO()):
                warnings.simplefilter("ignore")
                r = M.add_covariate_effect(model, **kwargs)
        except Exception as e:
            outcome = "raises:" + type(e).__name__
        tags.append(f"coveff:call:{effect}:{outcome}")
        diff = snap_diff(before, snapshot(model))
        if diff:
            what = "dataset" if any(d in ("dataset", "id:_dataset") for d in diff) else sorted(diff)[0].split(":")[0]
            mon.append({"cls": f"argument-mutated:{what}:add_covariate_effect",
                        "what": f"add_covariate_effect(model[{case['shape']}], {json.dumps(kwargs)}) {outcome}: snapshot of the "
                                f"argument model differs in {diff[:6]}"})
            _S.pop("coveff_base", None)
            break
        if isinstance(r, Model):
            pos = _cov_position(effect, md, mn, mx)
            for cls, what in wellformed(r, model, "add_covariate_effect", kwargs):
                if cls.startswith("wf-init-outside-bounds:"):
                    cls = f"wf-init-outside-bounds:add_covariate_effect:{effect}:{pos}"
                mon.append({"cls": cls, "what": f"add_covariate_effect(model, {json.dumps(kwargs)}) with covariate class "
                                                f"{case['shape']} (median {md}, min {mn}, max {mx}) returned a model with: {what}"})
            check_cache(r, mon, tags, "add_covariate_effect result")
    return {"k": k, "mon": mon, "tags": tags, "nontrivial": True}


def run_case(case, drv):
    import time
    t0 = time.time()
    kind = case["kind"]
    res = {"call": run_call, "orders": run_orders, "commute": run_commute, "coll": run_coll, "cacheops": run_cacheops, "coveff": run_coveff}.get(kind, run_obj)(case, drv)
    dt = time.time() - t0
    if dt > 3 and os.environ.get("VERIF_DEBUG"):   # timing is not part of the (deterministic) evidence
        res.setdefault("tags", []).append(f"slow>3s:{case.get('fn', case.get('what'))}:recipe{case.get('recipe', '')}:{int(dt)}s")
    return res


def translators():
    from harness.translate import c06_eqhash
    out = [("T3a-eqhash-fields", c06_eqhash.run)]
    from harness.translate import c06_effects, c06_containers
    out.append(("T3b-effects", c06_effects.run))
    out.append(("T3c-container-policies", c06_containers.run))
    return out
