"""C10 — Statement dataflow analyses are sound.

K   : Lean model (PharmpyModel/C10/Model.lean) vs pharmpy.model.Statements on every
      query for every symbol / statement of generated programs.
Mon : the property statement evaluated on the real code (exact rational evaluation,
      perturbation test for dependence, syntactic reference for single-assignment
      programs, value preservation for remove_symbol_definitions).
"""
from __future__ import annotations

import itertools
import random

ID = "C10"
DRIVER = "drv_c10"
LEAN_TARGETS = ["PharmpyProofs.C10.Properties", "PharmpyProofs.C10.UnusedProperties",
                "PharmpyProofs.C10.DepGraphProperties", "drv_c10"]
PROPERTIES = ["PharmpyProofs/C10/Properties.lean", "PharmpyProofs/C10/UnusedProperties.lean",
              "PharmpyProofs/C10/DepGraphProperties.lean"]
LEAN_SOURCES = ["PharmpyModel/Core/*.lean", "PharmpyModel/C10/*.lean", "PharmpyProofs/C10/*.lean", "Drivers/C10.lean"]
TIME_LIMIT = {"quick": 900, "thorough": 3000}
CASE_CPU_LIMIT = 30
RULE = ("straight-line programs over targets A,B,C,D,G,Y and leaves P,R,U,W (length 1-12; reassignment, reads of earlier "
        "values, read-before-definition, piecewise, optional compartmental system); every query "
        "(dependencies, full_expression, find_assignment_index, direct_dependencies for every symbol/statement; "
        "seeded remove_symbol_definitions, reassign and subs calls); thorough adds ALL programs of length <= 3 over 3 symbols "
        "and a 7-entry right-hand-side menu (9 723 programs). 15% of the cases are `unused` cases (c10_unused.py), 20% are "
        "`mdeps` cases (c10_mdeps.py): generic models (thetas, an iiv and an iov eta, two data columns) whose statements are "
        "chains s0=f(inputs); s1=f(s0); ..; sk=f(s(k-1)) followed by reassignments of the links (2-4 links, nearest link "
        "first / shuffled / self-referencing), single-assignment programs or random reassigning programs; depends_on for every "
        "assigned symbol x input and has_random_effect for every assigned symbol x level. non-trivial = at least 2 statements and at least one "
        "statement reading another; distinct = distinct case JSON")
TRUSTED = [
    "Lean 4.33 kernel; axioms propext, Quot.sound, Classical.choice only (audited per theorem each run)",
    "hand-written model PharmpyModel/C10/Model.lean tied to statements.py by the correspondence run of this invocation",
    "sympy: automatic canonicalisation and subs/xreplace preserve the value of an expression",
    "the ODE statement is abstracted to (amounts, rhs_symbols) as reported by the real CompartmentalSystem",
    "harness/corr/c10.py (generator, canonicalisation to sorted name lists, exact rational evaluation)",
]
ASSUMPTIONS = [
    "expressions are compared by exact evaluation at seeded rational points, not by printed form",
    "an ODE system's semantics is an uninterpreted function of the values of the symbols it reads",
]

TARGETS = ["A", "B", "C", "D", "G", "Y"]
LEAVES = ["P", "R", "U", "W"]


def budget(tier):
    return int(__import__("os").environ.get("VERIF_BUDGET", 0)) or {"quick": 1500, "thorough": 30000}[tier]


# ---------------------------------------------------------------- generation

def gen_expr(rng: random.Random, avail, depth=0) -> str:
    r = rng.random()
    if depth >= 2 or r < 0.35:
        if rng.random() < 0.8 and avail:
            return rng.choice(avail)
        return str(rng.randint(1, 9))
    if r < 0.55:
        return f"({gen_expr(rng, avail, depth+1)} + {gen_expr(rng, avail, depth+1)})"
    if r < 0.75:
        return f"({gen_expr(rng, avail, depth+1)} * {gen_expr(rng, avail, depth+1)})"
    if r < 0.80:
        return f"({gen_expr(rng, avail, depth+1)})**2"
    if r < 0.85:
        return f"exp(-({gen_expr(rng, avail, depth+1)})**2)"
    if r < 0.90:
        return f"({gen_expr(rng, avail, depth+1)} / ({gen_expr(rng, avail, depth+1)} + 11))"
    c = rng.choice(avail) if avail else "P"
    return (f"Piecewise(({gen_expr(rng, avail, depth+1)}, {c} < {rng.randint(1, 9)}), "
            f"({gen_expr(rng, avail, depth+1)}, True))")


def gen_prog(rng: random.Random, ssa: bool, with_ode: bool):
    n = rng.randint(1, 12)
    stmts = []
    defined = []
    ode_at = rng.randrange(n + 1) if with_ode else None
    ode_done = False
    targets = TARGETS[:]
    if ssa:
        rng.shuffle(targets)
    for i in range(n):
        if with_ode and i == ode_at:
            rates = [rng.choice(defined + LEAVES) for _ in range(3)]
            stmts.append(["ode", {"rates": rates, "two": rng.random() < 0.5}])
            ode_done = True
            continue
        if ssa:
            if not targets:
                break
            x = targets.pop()
            avail = defined + LEAVES
        else:
            x = rng.choice(TARGETS)
            avail = (defined + LEAVES) if rng.random() < 0.7 else (TARGETS + LEAVES)
        if ode_done and rng.random() < 0.5:
            avail = avail + ["A_CENTRAL(t)"]
        stmts.append(["=", x, gen_expr(rng, avail)])
        if x not in defined:
            defined.append(x)
    return stmts


def gen_cases(rng: random.Random, n: int, tier: str):
    from harness.corr.c10_unused import gen_unused
    from harness.corr.c10_mdeps import gen_mdeps
    out = []
    for _ in range(n):
        if rng.random() < 0.15:
            out.append(gen_unused(rng))
            continue
        if rng.random() < 0.2:
            out.append(gen_mdeps(rng))
            continue
        r = rng.random()
        ssa = r < 0.3
        with_ode = 0.3 <= r < 0.45
        stmts = gen_prog(rng, ssa, with_ode)
        nst = len(stmts)
        rm = []
        for _ in range(3):
            k = rng.randrange(nst)
            syms = rng.sample(TARGETS, rng.randint(1, 3))
            rm.append([syms, k])
        rs = [rng.choice(TARGETS), gen_expr(rng, TARGETS + LEAVES)]
        sub_x = rng.choice(LEAVES + TARGETS[:2])
        # an assigned symbol can only be renamed (substituting an expression for a left-hand side is not a
        # program edit); a leaf may be replaced by any expression over fresh symbols
        sub_t = "Q1" if sub_x in TARGETS else rng.choice(["Q1", "(Q1 + 2*Q2)", "Q1*Q1", "7"])
        out.append({"kind": "prog", "ssa": ssa, "stmts": stmts, "rm": rm, "reassign": rs, "subs": [sub_x, sub_t],
                    "seed": rng.randrange(1 << 30)})
    if tier == "thorough":
        out += exhaustive_small(3)
    return out


def exhaustive_small(max_len=3):
    """ALL programs of length <= max_len over symbols A,B,C with right-hand sides from a fixed menu
    (thorough tier): every shadowing / read-before-definition pattern of that size."""
    syms = ["A", "B", "C"]
    rhs = ["1", "A", "B", "C", "A + B", "A + C", "B + C"]
    stmts = [["=", x, e] for x in syms for e in rhs]
    out = []
    seed = 0
    for n in range(1, max_len + 1):
        for prog in itertools.product(stmts, repeat=n):
            seed += 1
            out.append({"kind": "prog", "ssa": len({s[1] for s in prog}) == n, "stmts": [list(s) for s in prog],
                        "rm": [[["A"], n - 1], [["B", "C"], n - 1]], "reassign": ["A", "B + 1"], "subs": ["C", "Q1"],
                        "seed": seed})
    return out


def corpus_cases():
    A = lambda x, e: ["=", x, e]
    return [
        # F2: BFS order under-approximates under shadowing
        {"kind": "prog", "ssa": False, "stmts": [A("Y", "U"), A("U", "7"), A("H", "U"), A("Z", "Y + H")],
         "rm": [], "reassign": ["Y", "U + 1"], "seed": 1},
        # F16: over-approximation in a single-assignment program
        {"kind": "prog", "ssa": True, "stmts": [A("A", "exp(-C**2)"), A("D", "A*2"), A("B", "D + 1"), A("Z", "A + B")],
         "rm": [], "reassign": ["A", "C"], "seed": 2},
        # F17: remove_symbol_definitions removes a definition still read by an earlier kept statement
        {"kind": "prog", "ssa": True, "stmts": [A("A", "1"), A("B", "A"), A("C", "5"), A("Y", "C")],
         "rm": [[["A"], 3]], "reassign": ["C", "6"], "seed": 3},
        {"kind": "prog", "ssa": False, "stmts": [A("A", "P"), A("B", "A + P"), ["ode", {"rates": ["A", "B", "R"], "two": True}],
                                                  A("Y", "A_CENTRAL(t) / B")],
         "rm": [[["A"], 3], [["B"], 3]], "reassign": ["B", "A"], "seed": 4},
    ] + __import__("harness.corr.c10_unused", fromlist=["corpus_unused"]).corpus_unused() \
        + __import__("harness.corr.c10_mdeps", fromlist=["corpus_mdeps"]).corpus_mdeps()


def shrink(case):
    if case.get("kind") == "unused":
        from harness.corr.c10_unused import shrink_unused
        yield from shrink_unused(case)
        return
    if case.get("kind") == "mdeps":
        from harness.corr.c10_mdeps import shrink_mdeps
        yield from shrink_mdeps(case)
        return
    st = case["stmts"]
    for i in range(len(st)):
        if len(st) <= 1:
            break
        c = dict(case)
        c["stmts"] = st[:i] + st[i + 1:]
        c["rm"] = [[s, k if k < i else k - 1] for s, k in case["rm"] if k != i and len(c["stmts"]) > 0]
        c["rm"] = [[s, k] for s, k in c["rm"] if 0 <= k < len(c["stmts"])]
        yield c
    if len(case["rm"]) > 1:
        for i in range(len(case["rm"])):
            c = dict(case)
            c["rm"] = [case["rm"][i]]
            yield c


# ---------------------------------------------------------------- real-code side

def worker_init():
    global sympy, Assignment, Statements, Expr, Compartment, CompartmentalSystemBuilder, CompartmentalSystem
    global Bolus, output, exprconv
    import sympy  # noqa
    from pharmpy.basic import Expr  # noqa
    from pharmpy.model import (Assignment, Bolus, Compartment, CompartmentalSystem,  # noqa
                               CompartmentalSystemBuilder, Statements, output)
    from harness.common import exprconv  # noqa


def build(case):
    sts = []
    for s in case["stmts"]:
        if s[0] == "=":
            sts.append(Assignment.create(s[1], s[2]))
        else:
            spec = s[1]
            cb = CompartmentalSystemBuilder()
            central = Compartment.create("CENTRAL", doses=(Bolus.create("AMT"),))
            cb.add_compartment(central)
            cb.add_flow(central, output, f"{spec['rates'][0]}/V")
            if spec["two"]:
                peri = Compartment.create("PERIPHERAL")
                cb.add_compartment(peri)
                cb.add_flow(central, peri, spec["rates"][1])
                cb.add_flow(peri, central, spec["rates"][2])
            sts.append(CompartmentalSystem(cb))
    return Statements(sts)


def wire(ss):
    out = []
    for s in ss:
        if isinstance(s, Assignment):
            out.append(["=", str(s.symbol), wire_expr(s.expression, stmt_rhs_names(s))])
        else:
            out.append(["ode", sorted(str(a) for a in s.amounts), sorted(str(a) for a in s.rhs_symbols)])
    return out


def wire_expr(expr, rhs_names):
    """pharmpy holds a symengine expression; its sympy image may have been simplified further (e.g. a
    Piecewise with identical branches).  The model must see the symbols pharmpy sees."""
    e = exprconv.to_sexp(expr)
    for extra in sorted(set(rhs_names) - exprconv.sexp_syms(e)):
        e = ["also", e, extra]
    return e


def names(xs):
    return sorted(str(x) for x in xs)


def stmt_rhs_names(s):
    return set(str(x) for x in s.rhs_symbols)


def stmt_def_names(s):
    if isinstance(s, Assignment):
        return {str(s.symbol)}
    return set(str(a) for a in s.amounts)


def ref_liveness(ss, i):
    """Syntactic reference: backward liveness (exact for straight-line code)."""
    live = set(stmt_rhs_names(ss[i]))
    for j in range(i - 1, -1, -1):
        d = stmt_def_names(ss[j])
        if live & d:
            live = (live - d) | stmt_rhs_names(ss[j])
    return live


def run_py(ss, env, upto=None):
    """Reference execution with exact values. Returns list of per-statement values and final env."""
    env = dict(env)
    vals = []
    for k, s in enumerate(ss):
        if upto is not None and k >= upto:
            break
        e = exprconv.to_sympy(s.expression)
        v = e.xreplace(env)
        v = sympy.piecewise_fold(v) if v.has(sympy.Piecewise) else v
        env[exprconv.to_sympy(s.symbol)] = v
        vals.append(v)
    return vals, env


def same_value(a, b):
    if a == b:
        return True
    try:
        d = sympy.simplify(a - b)
        if d == 0:
            return True
        return abs(complex(sympy.N(d, 30))) < 1e-20
    except Exception:
        return False


def rand_env(rng, syms):
    return {s: sympy.Rational(rng.randint(1, 60), rng.randint(1, 7)) for s in syms}


def run_case(case, drv):
    if case.get("kind") == "unused":
        from harness.corr.c10_unused import run_unused
        return run_unused(case, drv)
    if case.get("kind") == "mdeps":
        from harness.corr.c10_mdeps import run_mdeps
        return run_mdeps(case, drv)
    rng = random.Random(case["seed"])
    k, mon, tags = [], [], []
    ss = build(case)
    w = wire(ss)
    has_ode = any(not isinstance(s, Assignment) for s in ss)
    defined = []
    for s in ss:
        for d in sorted(stmt_def_names(s)):
            if d not in defined:
                defined.append(d)
    all_syms = set()
    for s in ss:
        all_syms |= stmt_rhs_names(s) | stmt_def_names(s)
    sym_objs = set()
    for s in ss:
        if isinstance(s, Assignment):
            sym_objs |= exprconv.to_sympy(s.expression).free_symbols | {exprconv.to_sympy(s.symbol)}
    sym_objs = sorted(sym_objs, key=str)
    assigned_twice = len([s for s in ss if isinstance(s, Assignment)]) != len({str(s.symbol) for s in ss if isinstance(s, Assignment)})
    read_before_def = False
    seen_defs = set()
    for s in ss:
        later_defs = set(defined) - seen_defs
        if stmt_rhs_names(s) & later_defs:
            read_before_def = True
        seen_defs |= stmt_def_names(s)
    tags.append("ode" if has_ode else "no-ode")
    tags.append("single-assignment" if not assigned_twice else "reassigning")
    tags.append(f"len={len(ss)}")
    nontrivial = len(ss) >= 2 and any(stmt_rhs_names(s) & set(defined) for s in ss)

    # ---- dependencies, for every defined symbol and one undefined one
    for x in defined + ["ZZ_UNDEFINED"]:
        try:
            code = names(ss.dependencies(x))
        except KeyError:
            code = ["err", "KeyError"]
        except Exception as e:  # internal error
            code = ["err", type(e).__name__]
            mon.append({"cls": "internal-error", "what": f"dependencies({x!r}) raised {type(e).__name__}: {e}"})
        if drv is not None:
            m = drv.ask(["deps", w, x])
            if m != code:
                k.append(f"dependencies({x}): model {m} code {code}")
        if code and code[0] == "err":
            if x != "ZZ_UNDEFINED" and code[1] == "KeyError":
                mon.append({"cls": "internal-error", "what": f"dependencies({x!r}) raised KeyError for a defined symbol"})
            continue
        tags.append("q:deps")
        # index of the last definition
        i = max(j for j, s in enumerate(ss) if x in stmt_def_names(s))
        # (a) soundness by perturbation (assignment-only programs)
        if not has_ode:
            pre = ss[0:i + 1]
            for trial in range(2):
                env = rand_env(rng, sym_objs)
                vals, _ = run_py(pre, env)
                for s in sym_objs:
                    if str(s) in code:
                        continue
                    env2 = dict(env)
                    env2[s] = env[s] + sympy.Rational(rng.randint(1, 5), 3)
                    vals2, _ = run_py(pre, env2)
                    if not same_value(vals[i], vals2[i]):
                        cls = "deps-unsound-shadowing" if assigned_twice else "deps-unsound"
                        mon.append({"cls": cls, "what": f"dependencies({x!r})={code} omits {s}: changing the initial "
                                    f"value of {s} changes {x} ({vals[i]} vs {vals2[i]})"})
                        break
                else:
                    continue
                break
        # (b) exactness when no symbol is assigned twice (and nothing is read before its definition)
        if not assigned_twice and not read_before_def:
            ref = sorted(ref_liveness(ss, i))
            if code != ref:
                extra = sorted(set(code) - set(ref))
                missing = sorted(set(ref) - set(code))
                cls = "deps-inexact-single-assignment" if not missing else "deps-unsound"
                mon.append({"cls": cls, "what": f"single-assignment program: dependencies({x!r})={code}, exact set {ref} "
                            f"(extra {extra}, missing {missing})"})

    # ---- full_expression for every defined symbol
    for x in defined[:6]:
        try:
            code_e = exprconv.to_sympy(ss.full_expression(x))
            code = "ok"
        except ValueError:
            code = ["err", "ValueError"]
        except Exception as e:
            code = ["err", type(e).__name__]
            mon.append({"cls": "internal-error", "what": f"full_expression({x!r}) raised {type(e).__name__}: {e}"})
        tags.append("q:full")
        if drv is not None:
            m = drv.ask(["full", w, x])
            if code == "ok":
                if isinstance(m, list) and m and m[0] == "err":
                    k.append(f"full_expression({x}): model {m} code ok")
                else:
                    me = exprconv.from_sexp(m)
                    if not exprconv.equal_at_points(me, code_e, rng):
                        k.append(f"full_expression({x}): model {me} code {code_e}")
            elif m != code:
                k.append(f"full_expression({x}): model {m} code {code}")
        if code == "ok":
            if has_ode:
                mon.append({"cls": "full-expression-ode", "what": "full_expression returned although an ODE system is present"})
            else:
                for trial in range(2):
                    env = rand_env(rng, sym_objs)
                    _, fin = run_py(ss, env)
                    want = fin[sympy.Symbol(x)]
                    got = code_e.xreplace(env)
                    got = sympy.piecewise_fold(got) if got.has(sympy.Piecewise) else got
                    if not same_value(want, got):
                        mon.append({"cls": "full-expression-unsound", "what": f"full_expression({x!r})={code_e} evaluates to {got}, "
                                    f"executing the statements gives {want}"})
                        break

    # ---- find_assignment_index / direct_dependencies
    for x in defined[:6] + ["ZZ_UNDEFINED"]:
        try:
            ci = ss.find_assignment_index(x)
        except Exception as e:
            ci = None
            mon.append({"cls": "internal-error", "what": f"find_assignment_index({x!r}) raised {type(e).__name__}"})
        code = "none" if ci is None else str(ci)
        ref = [j for j, s in enumerate(ss) if isinstance(s, Assignment) and str(s.symbol) == x]
        if (ref[-1] if ref else None) != ci:
            mon.append({"cls": "find-assignment-index", "what": f"find_assignment_index({x!r})={ci}, last assignment is {ref[-1:] }"})
        if drv is not None:
            m = drv.ask(["findidx", w, x])
            if m != code:
                k.append(f"find_assignment_index({x}): model {m} code {code}")
    # direct_dependencies needs distinct statements (index lookup by equality)
    for i, s in enumerate(ss):
        if list(ss).index(s) != i:
            continue
        try:
            dd = ss.direct_dependencies(s)
            code = [str(list(ss).index(t)) for t in dd]
        except Exception as e:
            # direct_dependencies raises NetworkXError for a statement without dependencies; it is not one of
            # the queries the property lists, so this is recorded in the distribution only (DESIGN section 5)
            tags.append(f"direct-dependencies-raises-{type(e).__name__}")
            continue
        # reference: every earlier statement defining something statement i reads
        ref = [str(j) for j in range(i) if stmt_def_names(ss[j]) & stmt_rhs_names(s)]
        # identical earlier statements collapse under .index(); compare as first-index lists
        ref = [str(list(ss).index(ss[int(j)])) for j in ref]
        if sorted(set(code)) != sorted(set(ref)):
            mon.append({"cls": "direct-dependencies", "what": f"direct_dependencies(#{i})={code}, reference {ref}"})
        if drv is not None:
            m = drv.ask(["direct", w, i])
            m = [str(list(ss).index(ss[int(j)])) for j in m]
            if m != code:
                k.append(f"direct_dependencies({i}): model {m} code {code}")

    # ---- remove_symbol_definitions
    for syms, idx in case["rm"]:
        if idx >= len(ss) or list(ss).index(ss[idx]) != idx:
            continue
        tags.append("q:rmdefs")
        try:
            res = ss.remove_symbol_definitions([Expr.symbol(s) for s in syms], ss[idx])
        except Exception as e:
            mon.append({"cls": "internal-error", "what": f"remove_symbol_definitions({syms},#{idx}) raised {type(e).__name__}: {e}"})
            continue
        # recover the kept index list (result must be a subsequence)
        kept = []
        pos = 0
        orig = list(ss)
        for t in res:
            while pos < len(orig) and orig[pos] is not t and orig[pos] != t:
                pos += 1
            if pos >= len(orig):
                kept = None
                break
            kept.append(pos)
            pos += 1
        if kept is None:
            mon.append({"cls": "rmdefs-not-sublist", "what": f"remove_symbol_definitions({syms},#{idx}) result is not a sub-list"})
            continue
        # duplicates: prefer to compare on multiset of statements by canonical greedy match done above
        if drv is not None:
            m = drv.ask(["rmdefs", w, syms, idx])
            mk = [int(j) for j in m[0]]
            if mk != kept and [orig[j] for j in mk] != [orig[j] for j in kept]:
                k.append(f"remove_symbol_definitions({syms},{idx}): model keeps {mk} code keeps {kept}")
            if m[1] != "true":
                k.append(f"remove_symbol_definitions({syms},{idx}): model mask fails the Lean certificate maskSafe")
        removed = [j for j in range(len(orig)) if j not in kept]
        if removed:
            tags.append("rmdefs-removes")
        # monitor: a kept statement must not read a symbol defined by an earlier removed statement
        for j in kept:
            for r in removed:
                if r < j and stmt_def_names(orig[r]) & stmt_rhs_names(orig[j]):
                    cls = "rmdefs-dangling-earlier-user" if j < idx else "rmdefs-dangling"
                    mon.append({"cls": cls, "what": f"remove_symbol_definitions({syms}, statement #{idx}) removed #{r} "
                                f"({orig[r]!r}) although kept statement #{j} ({orig[j]!r}) reads it"})
                    break
            else:
                continue
            break
        # semantic: value of every kept assignment unchanged (assignment-only programs)
        if not has_ode and removed and not any(m["cls"].startswith("rmdefs-dangling") for m in mon):
            env = rand_env(rng, sym_objs)
            v1, _ = run_py(orig, env)
            v2, _ = run_py([orig[j] for j in kept], env)
            for pos2, j in enumerate(kept):
                if not same_value(v1[j], v2[pos2]):
                    mon.append({"cls": "rmdefs-changes-value", "what": f"value of kept statement #{j} changed"})
                    break

    # ---- reassign
    x, e = case["reassign"]
    try:
        res = list(ss.reassign(x, e))
        new_e = exprconv.to_sympy(Expr(e))
        hits = [j for j, s in enumerate(ss) if isinstance(s, Assignment) and str(s.symbol) == x]
        ref = [j for j in range(len(ss)) if j not in hits[:-1]]
        good = len(res) == len(ref)
        if good:
            for t, j in zip(res, ref):
                if hits and j == hits[-1]:
                    good = good and isinstance(t, Assignment) and str(t.symbol) == x and \
                        exprconv.equal_at_points(exprconv.to_sympy(t.expression), new_e, rng)
                else:
                    good = good and t == ss[j]
        if not good:
            mon.append({"cls": "reassign", "what": f"reassign({x!r},{e!r}) is not the sequential edit "
                        f"(replace the last assignment, delete the earlier ones, keep everything else)"})
        tags.append("q:reassign")
        if drv is not None:
            pe = Expr(e)
            m = drv.ask(["reassign", w, x, wire_expr(pe, stmt_rhs_names(Assignment(Expr.symbol(x), pe)))])
            code_w = _norm(wire(res))
            if m != code_w:
                k.append(f"reassign({x}): model {m} code {code_w}")
    except Exception as ex:
        mon.append({"cls": "internal-error", "what": f"reassign({x!r}) raised {type(ex).__name__}: {ex}"})

    # ---- subs (single symbol), assignment-only programs
    if case.get("subs") and not has_ode:
        x, t = case["subs"]
        try:
            res = list(ss.subs({x: t}))
        except Exception as ex:
            mon.append({"cls": "internal-error", "what": f"subs({{{x!r}: {t!r}}}) raised {type(ex).__name__}: {ex}"})
            res = None
        if res is not None:
            tags.append("q:subs")
            te = sympy.sympify(t)
            assigned = {str(s.symbol) for s in ss}
            leaf_case = x not in assigned and not ({str(z) for z in te.free_symbols} & assigned)
            if len(res) != len(ss):
                mon.append({"cls": "subs", "what": f"subs({{{x!r}: {t!r}}}) changed the number of statements"})
            elif leaf_case:
                tags.append("subs-leaf")
                # sequential-edit semantics: run(subs(ss))(env) == run(ss)(env[x := t(env)]) on every symbol but x
                allsyms = sorted(set(sym_objs) | te.free_symbols | {sympy.Symbol(x)}, key=str)
                env = rand_env(rng, allsyms)
                env2 = dict(env)
                env2[sympy.Symbol(x)] = te.xreplace(env)
                try:
                    v1, _ = run_py(res, env)
                    v2, _ = run_py(list(ss), env2)
                    for a, b in zip(v1, v2):
                        if not same_value(a, b):
                            mon.append({"cls": "subs", "what": f"subs({{{x!r}: {t!r}}}) is not the sequential edit: a statement "
                                        f"evaluates to {a} instead of {b}"})
                            break
                except Exception:
                    tags.append("subs-eval-skipped")
            if drv is not None:
                m = drv.ask(["subs", w, x, exprconv.to_sexp(te)])
                ok = len(m) == len(res)
                if ok:
                    for ms, rs_ in zip(m, res):
                        if ms[0] != "=" or ms[1] != str(rs_.symbol) or not exprconv.equal_at_points(
                                exprconv.from_sexp(ms[2]), exprconv.to_sympy(rs_.expression), rng):
                            ok = False
                            break
                if not ok:
                    k.append(f"subs({x},{t}): model {m} code {_norm(wire(res))}")

    # ---- subs keyed by an amount function of the ODE system (a renaming): every statement must follow
    if has_ode:
        odes = [s for s in ss if not isinstance(s, Assignment)]
        for ai, a in enumerate(sorted(odes[0].amounts, key=str)):
            old_name = str(a)
            newf = Expr.function(f"AQ{ai}", "t")
            new_name = str(newf)
            try:
                res = list(ss.subs({a: newf}))
            except Exception as ex:
                mon.append({"cls": "internal-error", "what": f"subs({{{old_name}: {new_name}}}) raised {type(ex).__name__}: {ex}"})
                continue
            tags.append("q:subs-amount")
            stale = [str(getattr(r, "symbol", "ode")) for r in res if old_name in stmt_rhs_names(r) or old_name in stmt_def_names(r)]
            if stale:
                mon.append({"cls": "subs-amount-stale", "what": f"after subs({{{old_name}: {new_name}}}) the statements {stale} still "
                            f"read or define {old_name}; amounts of the system: {names(x for r in res if not isinstance(r, Assignment) for x in r.amounts)}"})
            before_reads = [i for i, r in enumerate(ss) if old_name in stmt_rhs_names(r)]
            after_reads = [i for i, r in enumerate(res) if new_name in stmt_rhs_names(r)]
            if len(res) == len(ss) and before_reads != after_reads:
                mon.append({"cls": "subs-amount-readers", "what": f"statements reading {old_name} before: {before_reads}; reading {new_name} after: {after_reads}"})
            if drv is not None:
                m = drv.ask(["rename", w, old_name, new_name])
                wr = wire(res)

                def shape(st):
                    st = _norm(st)
                    if st[0] == "=":
                        return ["=", st[1], sorted(exprconv.sexp_syms(st[2]))]
                    return ["ode", sorted(st[1]), sorted(st[2])]
                try:
                    a1, a2 = [shape(x) for x in m], [shape(x) for x in wr]
                except Exception as ex:
                    a1, a2 = "?", f"{type(ex).__name__}"
                if a1 != a2:
                    k.append(f"rename({old_name},{new_name}): model {a1} code {a2}")

    return {"k": k, "mon": mon, "tags": tags, "nontrivial": nontrivial}


def _norm(x):
    """ints -> strings so that wire forms compare equal to parsed driver answers."""
    if isinstance(x, list):
        return [_norm(y) for y in x]
    return str(x)
