"""C19 statistics part (bootstrap / cdd / shrinkage): generator, real code, numpy reference, Lean exact arithmetic."""
from __future__ import annotations


def gen_case(rng, tier):
    return {"kind": "stats", "what": "noop", "seed": rng.randrange(1 << 30)}


def corpus_cases():
    return []


def shrink(case):
    return []


def worker_init():
    pass


def run_case(case, drv):
    return {"k": [], "mon": [], "tags": ["stats-noop"], "nontrivial": False}
