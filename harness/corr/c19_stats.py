"""C19 statistics part (bootstrap / cdd / shrinkage): generator, real code, numpy reference, Lean exact arithmetic.

Inputs are short decimals given as text: the real code sees float(text), the Lean model the exact decimal.
Results are compared to 1e-9 relative to the scale of the data (>= 10 significant digits away from cancellation);
quantities that involve a square root are compared squared.
"""
from __future__ import annotations

import math
import random
import warnings as _warnings
from fractions import Fraction

QS = [0.0005, 0.005, 0.025, 0.05, 0.5, 0.95, 0.975, 0.995, 0.9995]
DIST_COLS = ["min", "0.05%", "0.5%", "2.5%", "5%", "median", "95%", "97.5%", "99.5%", "99.95%", "max"]


def _dec(rng, lo, hi, nd=3):
    v = rng.randint(int(lo * 10 ** nd), int(hi * 10 ** nd))
    s = f"{v / 10 ** nd:.{nd}f}"
    return s


def gen_case(rng, tier):
    what = rng.choice(["bootstrap", "bootstrap", "cdd", "cdd", "shrink"])
    nmax = 50
    if what == "bootstrap":
        n, p = rng.choice([2, 3, 4, 5, 7, 10, 20, 21, 40, nmax]), rng.randint(1, 4)
        centers = [rng.choice([0.5, 2.0, -3.0, 40.0]) for _ in range(p)]
        cols = [[_dec(rng, c - 2, c + 2) if rng.random() < 0.9 else f"{c:.3f}" for _ in range(n)] for c in centers]
        if rng.random() < 0.1:      # repeated replicate values (ties in the order statistics)
            cols = [[rng.choice(col[:3]) for _ in col] for col in cols]
        return {"kind": "stats", "what": what, "cols": cols, "orig": [_dec(rng, c - 1, c + 1) for c in centers],
                "ofvs": [_dec(rng, -50, 50, 2) for _ in range(n)], "seed": rng.randrange(1 << 30)}
    if what == "cdd":
        p = rng.randint(1, 3)
        n = rng.choice([p + 2, 5, 8, 13, 30, nmax])
        centers = [rng.choice([0.5, 2.0, -3.0, 40.0]) for _ in range(p)]
        cols = [[_dec(rng, c - 2, c + 2) for _ in range(n)] for c in centers]
        return {"kind": "stats", "what": what, "cols": cols, "base": [_dec(rng, c - 1, c + 1) for c in centers],
                "use_jack": rng.random() < 0.5, "drop": [rng.randrange(n) for _ in range(3)], "seed": rng.randrange(1 << 30)}
    n = rng.choice([2, 3, 5, 9, 30, nmax])
    return {"kind": "stats", "what": "shrink", "etas": [[_dec(rng, -1, 1) for _ in range(n)] for _ in range(2)],
            "omegas": [_dec(rng, 0.01, 0.5), _dec(rng, 0.01, 0.5)],
            "icov": [[_dec(rng, 0.001, 0.2), _dec(rng, 0.001, 0.2), _dec(rng, -0.02, 0.02)] for _ in range(min(n, 6))],
            "seed": rng.randrange(1 << 30)}


def corpus_cases():
    return [
        {"kind": "stats", "what": "bootstrap", "cols": [["1.0", "1.25", "1.5", "1.75", "2.0", "2.25", "2.5"],
                                                          ["2.0", "2.5", "3.0", "0.5", "1.0", "1.5", "-1.0"]],
         "orig": ["1.5", "2.5"], "ofvs": ["0", "1", "2", "3", "4", "5", "6"], "seed": 101},
        {"kind": "stats", "what": "cdd", "cols": [["1.0", "1.25", "1.5", "1.75", "2.0", "2.25", "2.5"],
                                                    ["2.0", "2.5", "3.0", "0.5", "1.0", "1.5", "-1.0"]],
         "base": ["1.5", "2.5"], "use_jack": False, "drop": [0, 3, 6], "seed": 102},
        {"kind": "stats", "what": "shrink", "etas": [["0.1", "-0.2", "0.05"], ["0.3", "0.1", "-0.1"]], "omegas": ["0.04", "0.09"],
         "icov": [["0.01", "0.02", "0.001"]], "seed": 103},
    ]


def shrink(case):
    if case["what"] in ("bootstrap", "cdd"):
        n = len(case["cols"][0])
        if n > 3:
            for i in range(n):
                c = dict(case)
                c["cols"] = [col[:i] + col[i + 1:] for col in case["cols"]]
                if "ofvs" in case:
                    c["ofvs"] = case["ofvs"][:i] + case["ofvs"][i + 1:]
                if "drop" in case:
                    c["drop"] = [d % (n - 1) for d in case["drop"]]
                yield c
        if len(case["cols"]) > 1:
            for j in range(len(case["cols"])):
                c = dict(case)
                c["cols"] = case["cols"][:j] + case["cols"][j + 1:]
                for key in ("orig", "base"):
                    if key in case:
                        c[key] = case[key][:j] + case[key][j + 1:]
                yield c


def worker_init():
    global np, pd, ModelfitResults, boot, cdd, mres, PHENO
    _warnings.filterwarnings("ignore")
    import numpy as np  # noqa
    import pandas as pd  # noqa
    import pharmpy.modeling.results as mres  # noqa
    import pharmpy.tools.bootstrap.results as boot  # noqa
    import pharmpy.tools.cdd.results as cdd  # noqa
    from pharmpy.modeling import load_example_model
    from pharmpy.workflows import ModelfitResults  # noqa
    PHENO = load_example_model("pheno")


def dq(text):
    f = Fraction(text)
    return str(f.numerator) if f.denominator == 1 else f"{f.numerator}/{f.denominator}"


def same(a, b, scale):
    """code float vs model Fraction/str."""
    b = float(Fraction(b))
    a = float(a)
    if math.isnan(a) or math.isinf(a):
        return False
    return abs(a - b) <= 1e-9 * max(scale, abs(a), abs(b), 1e-300)


def run_case(case, drv):
    what = case["what"]
    if what == "bootstrap":
        return run_bootstrap(case, drv)
    if what == "cdd":
        return run_cdd(case, drv)
    if what == "shrink":
        return run_shrink(case, drv)
    return {"k": [], "mon": [], "tags": ["stats-noop"], "nontrivial": False}


def run_bootstrap(case, drv):
    k, mon = [], []
    cols = [[float(x) for x in col] for col in case["cols"]]
    p, n = len(cols), len(cols[0])
    tags = [f"bootstrap-n={n}", f"bootstrap-p={p}"]
    names = [f"P{j}" for j in range(p)]
    results = [ModelfitResults(ofv=float(case["ofvs"][i]), parameter_estimates=pd.Series([cols[j][i] for j in range(p)], index=names))
               for i in range(n)]
    orig = ModelfitResults(ofv=1.0, parameter_estimates=pd.Series([float(x) for x in case["orig"]], index=names))
    res = boot.calculate_results(None, results, original_results=orig)
    st, dist, cov = res.parameter_statistics, res.parameter_distribution, res.covariance_matrix
    arr = np.array(cols)
    for j, nm in enumerate(names):
        scale = max(abs(x) for x in cols[j]) or 1.0
        x = arr[j]
        ref = {"mean": np.mean(x), "median": np.median(x), "bias": np.mean(x) - float(case["orig"][j]),
               "stderr": np.std(x, ddof=1)}
        for key, want in ref.items():
            if not abs(st.loc[nm, key] - want) <= 1e-9 * scale:
                mon.append({"cls": "bootstrap-" + key, "what": f"{key} of {nm}: {st.loc[nm, key]}, numpy reference {want}"})
        if abs(ref["mean"]) > 1e-6 * scale and not abs(st.loc[nm, "RSE"] - ref["stderr"] / ref["mean"]) <= 1e-9 * abs(ref["stderr"] / ref["mean"]) + 1e-12:
            mon.append({"cls": "bootstrap-rse", "what": f"RSE of {nm}: {st.loc[nm, 'RSE']}, reference {ref['stderr'] / ref['mean']}"})
        refd = [np.min(x)] + [np.quantile(x, q) for q in QS] + [np.max(x)]
        refd[5] = np.median(x)
        for cname, want in zip(DIST_COLS, refd):
            if not abs(dist.loc[nm, cname] - want) <= 1e-9 * scale:
                mon.append({"cls": "bootstrap-percentile", "what": f"{cname} of {nm}: {dist.loc[nm, cname]}, numpy reference {want}"})
    refc = np.cov(arr, ddof=1).reshape(p, p)
    if not np.allclose(cov.values, refc, rtol=1e-9, atol=1e-9 * float(np.max(np.abs(arr))) ** 2):
        mon.append({"cls": "bootstrap-covariance", "what": f"covariance matrix {cov.values.tolist()}, numpy reference {refc.tolist()}"})
    if drv is not None:
        ans = drv.ask(["bootstrap", [[dq(x) for x in col] for col in case["cols"]], [dq(x) for x in case["orig"]]])
        for j, nm in enumerate(names):
            scale = max(abs(x) for x in cols[j]) or 1.0
            m = ans[0][j]
            pairs = [("mean", st.loc[nm, "mean"], m[0], scale), ("median", st.loc[nm, "median"], m[1], scale),
                     ("bias", st.loc[nm, "bias"], m[2], scale), ("stderr^2", st.loc[nm, "stderr"] ** 2, m[3], scale * scale)]
            if abs(st.loc[nm, "mean"]) > 1e-6 * scale:
                pairs.append(("RSE^2", st.loc[nm, "RSE"] ** 2, m[4], 0.0))
            pairs += [(cname, dist.loc[nm, cname], mv, scale) for cname, mv in zip(DIST_COLS, m[5])]
            for label, cv, mv, sc in pairs:
                if not same(cv, mv, sc):
                    k.append(f"bootstrap {label} of {nm}: model {float(Fraction(mv))} code {cv}")
        for a in range(p):
            for b in range(p):
                sc = (max(abs(x) for x in cols[a]) or 1.0) * (max(abs(x) for x in cols[b]) or 1.0)
                if not same(cov.values[a][b], ans[1][a][b], sc):
                    k.append(f"bootstrap covariance[{a}][{b}]: model {float(Fraction(ans[1][a][b]))} code {cov.values[a][b]}")
    return {"k": k, "mon": mon, "tags": tags, "nontrivial": n >= 3}


def run_cdd(case, drv):
    k, mon = [], []
    cols = [[float(x) for x in col] for col in case["cols"]]
    p, n = len(cols), len(cols[0])
    tags = [f"cdd-n={n}", f"cdd-p={p}", "cdd-cov=" + ("jackknife" if case["use_jack"] else "sample")]
    names = [f"P{j}" for j in range(p)]
    df = pd.DataFrame({nm: cols[j] for j, nm in enumerate(names)})
    arr = np.array(cols)
    amax = float(np.max(np.abs(arr)))
    jk = cdd.compute_jackknife_covariance_matrix(df)
    d = arr - arr.mean(axis=1, keepdims=True)
    refj = d @ d.T * (n - 1) / n
    if not np.allclose(jk.values, refj, rtol=1e-9, atol=1e-9 * amax ** 2):
        mon.append({"cls": "cdd-jackknife", "what": f"jackknife covariance {jk.values.tolist()}, definition (N-1)/N sum dd^T gives {refj.tolist()}"})
    covm = jk if case["use_jack"] else df.cov()
    base = pd.Series([float(x) for x in case["base"]], index=names)
    cooks = cdd.compute_cook_scores(base, df, covm)
    try:
        inv = np.linalg.inv(covm.values)
        posdef = bool(np.all(np.linalg.eigvalsh(covm.values) > 1e-9 * amax ** 2))
    except np.linalg.LinAlgError:
        inv, posdef = None, False
    if posdef:
        delta = (arr.T - base.values)
        refc = [math.sqrt(max(0.0, float(r @ inv @ r))) for r in delta]
        if cooks is None or not np.allclose(cooks, refc, rtol=1e-8, atol=1e-9):
            mon.append({"cls": "cdd-cook-score", "what": f"cook scores {cooks}, sqrt(d cov^-1 d^T) gives {refc}"})
    else:
        tags.append("cdd-cov-not-posdef")
    # covariance ratios: covariance of the data with one replicate left out, against the full one
    subres, subcovs = [], []
    for i in case["drop"]:
        i = i % n
        sub = df.drop(index=i).cov()
        subcovs.append(sub)
        subres.append(ModelfitResults(covariance_matrix=sub))
    subres.append(None)
    full = df.cov()
    ratios = cdd.compute_covariance_ratios(subres, full)
    det_full = float(np.linalg.det(full.values))
    if posdef and abs(det_full) > 1e-12 * amax ** (2 * p):
        refr = [math.sqrt(float(np.linalg.det(s.values)) / det_full) for s in subcovs]
        if ratios is None or not np.allclose(ratios[:-1], refr, rtol=1e-8) or not math.isnan(ratios[-1]):
            mon.append({"cls": "cdd-covariance-ratio", "what": f"covariance ratios {ratios}, sqrt(det/det) gives {refr}"})
    if drv is not None:
        wcols = [[dq(x) for x in col] for col in case["cols"]]
        ans = drv.ask(["jackknife", wcols])
        for a in range(p):
            for b in range(p):
                if not same(jk.values[a][b], ans[a][b], amax ** 2):
                    k.append(f"jackknife[{a}][{b}]: model {float(Fraction(ans[a][b]))} code {jk.values[a][b]}")
        if posdef and cooks is not None:
            # the model gets the covariance matrix the code used, as exact rationals of its floats
            wm = [[_fr(v) for v in row] for row in covm.values.tolist()]
            ansc = drv.ask(["cook2", [dq(x) for x in case["base"]], wcols, wm])
            for i, (cv, mv) in enumerate(zip(cooks, ansc)):
                if mv == "singular" or not same(float(cv) ** 2, mv, 1e-3):
                    k.append(f"cook score^2 of replicate {i}: model {mv} code {float(cv) ** 2}")
            for s, cv in zip(subcovs, ratios[:-1]):
                mv = drv.ask(["covratio2", [[_fr(v) for v in row] for row in s.values.tolist()],
                              [[_fr(v) for v in row] for row in full.values.tolist()]])
                if mv == "singular" or not same(float(cv) ** 2, mv, 1e-6):
                    k.append(f"covariance ratio^2: model {mv} code {float(cv) ** 2}")
    return {"k": k, "mon": mon, "tags": tags, "nontrivial": True}


def _fr(x):
    f = Fraction(float(x))
    return str(f.numerator) if f.denominator == 1 else f"{f.numerator}/{f.denominator}"


def run_shrink(case, drv):
    k, mon = [], []
    etas = [[float(x) for x in col] for col in case["etas"]]
    n = len(etas[0])
    tags = [f"shrink-n={n}"]
    om = [float(x) for x in case["omegas"]]
    pe = pd.Series({"IIV_CL": om[0], "IIV_VC": om[1]})
    ie = pd.DataFrame({"ETA_CL": etas[0], "ETA_VC": etas[1]}, index=list(range(1, n + 1)))
    sh = mres.calculate_eta_shrinkage(PHENO, pe, ie)
    shsd = mres.calculate_eta_shrinkage(PHENO, pe, ie, sd=True)
    for j, nm in enumerate(["ETA_CL", "ETA_VC"]):
        v = float(np.var(etas[j], ddof=1))
        if not abs(sh[nm] - (1 - v / om[j])) <= 1e-9 * max(1.0, abs(v / om[j])):
            mon.append({"cls": "eta-shrinkage", "what": f"{nm}: {sh[nm]}, definition 1 - var/omega = {1 - v / om[j]}"})
        if not abs(shsd[nm] - (1 - math.sqrt(v) / math.sqrt(om[j]))) <= 1e-9 * max(1.0, math.sqrt(v / om[j])):
            mon.append({"cls": "eta-shrinkage-sd", "what": f"{nm}: {shsd[nm]}, definition 1 - sd/sqrt(omega) = {1 - math.sqrt(v / om[j])}"})
    idx = list(range(1, len(case["icov"]) + 1))
    mats = []
    for a, b, c in case["icov"]:
        mats.append(pd.DataFrame([[float(a), float(c)], [float(c), float(b)]], index=["ETA_CL", "ETA_VC"], columns=["ETA_CL", "ETA_VC"]))
    ish = mres.calculate_individual_shrinkage(PHENO, pe, pd.Series(mats, index=idx))
    for i, (a, b, c) in zip(idx, case["icov"]):
        for nm, dv, o in (("ETA_CL", float(a), om[0]), ("ETA_VC", float(b), om[1])):
            if not abs(ish.loc[i, nm] - dv / o) <= 1e-9 * abs(dv / o):
                mon.append({"cls": "individual-shrinkage", "what": f"individual {i} {nm}: {ish.loc[i, nm]}, definition var/omega = {dv / o}"})
    if drv is not None:
        ans = drv.ask(["shrinkage", [[dq(x) for x in col] for col in case["etas"]], [dq(x) for x in case["omegas"]]])
        for j, nm in enumerate(["ETA_CL", "ETA_VC"]):
            if not same(sh[nm], ans[j], 1.0):
                k.append(f"eta shrinkage {nm}: model {float(Fraction(ans[j]))} code {sh[nm]}")
            if not same((1 - shsd[nm]) ** 2, str(1 - Fraction(ans[j])), 1.0):
                k.append(f"eta shrinkage (sd) {nm}: model (1-s)^2 {float(1 - Fraction(ans[j]))} code {(1 - shsd[nm]) ** 2}")
        ansi = drv.ask(["ishrinkage", [[dq(a), dq(b)] for a, b, _ in case["icov"]], [dq(x) for x in case["omegas"]]])
        for r, (i, row) in enumerate(zip(idx, ansi)):
            for nm, mv in zip(["ETA_CL", "ETA_VC"], row):
                if not same(ish.loc[i, nm], mv, 0.0):
                    k.append(f"individual shrinkage {i} {nm}: model {float(Fraction(mv))} code {ish.loc[i, nm]}")
    return {"k": k, "mon": mon, "tags": tags, "nontrivial": n >= 3}
