"""C19 statistics part (bootstrap / cdd / shrinkage): generator, real code, numpy reference, Lean exact arithmetic.

Inputs are short decimals given as text: the real code sees float(text), the Lean model the exact decimal.
Results are compared to 1e-9 relative to the scale of the data (>= 10 significant digits away from cancellation);
quantities that involve a square root are compared squared.
"""
from __future__ import annotations

import math
import random
import warnings as _warnings
from fractions import Fraction

QS = [0.0005, 0.005, 0.025, 0.05, 0.5, 0.95, 0.975, 0.995, 0.9995]
DIST_COLS = ["min", "0.05%", "0.5%", "2.5%", "5%", "median", "95%", "97.5%", "99.5%", "99.95%", "max"]


def _dec(rng, lo, hi, nd=3):
    v = rng.randint(int(lo * 10 ** nd), int(hi * 10 ** nd))
    s = f"{v / 10 ** nd:.{nd}f}"
    return s


POOLS = [
    ["POP_CL", "POP_VC", "COVAPGR", "IIV_CL", "IIV_VC", "SIGMA"],                                   # pheno example model order
    ["THETA(1)", "THETA(2)", "THETA(3)", "OMEGA(1,1)", "OMEGA(2,1)", "OMEGA(2,2)", "SIGMA(1,1)"],   # NONMEM order
    ["k10", "b", "Zeta", "alpha", "V2", "CL", "x_9", "x_10"],
]


def pick_names(rng, p):
    """p labels: a model-order prefix/subsequence of a pool, or an arbitrary permutation of a sample."""
    pool = rng.choice(POOLS)
    p = min(p, len(pool))
    r = rng.random()
    if r < 0.4:
        idx = sorted(rng.sample(range(len(pool)), p))       # model order (not lexical in general)
        return [pool[i] for i in idx]
    names = rng.sample(pool, p)
    if r < 0.5:
        names.sort()
    return names


def maybe_perm(rng, p, prob):
    if p < 2 or rng.random() >= prob:
        return None
    perm = list(range(p))
    while perm == list(range(p)):
        rng.shuffle(perm)
    return perm


def gen_expr(rng, syms, depth=0):
    """positive-valued expression over positive symbols (so sqrt/log/division are defined)."""
    r = rng.random()
    if depth >= 3 or r < 0.3:
        return ["s", rng.choice(syms)] if rng.random() < 0.8 else ["c", rng.choice(["2", "0.5", "2.5", "0.693", "10"])]
    if r < 0.45:
        return ["+", gen_expr(rng, syms, depth + 1), gen_expr(rng, syms, depth + 1)]
    if r < 0.65:
        return ["*", gen_expr(rng, syms, depth + 1), gen_expr(rng, syms, depth + 1)]
    if r < 0.8:
        return ["/", gen_expr(rng, syms, depth + 1), gen_expr(rng, syms, depth + 1)]
    if r < 0.87:
        return ["^", gen_expr(rng, syms, depth + 1), rng.choice([2, 3, -1])]
    if r < 0.93:
        return ["sqrt", gen_expr(rng, syms, depth + 1)]
    if r < 0.97:
        return ["log1p", gen_expr(rng, syms, depth + 1)]
    return ["expm", gen_expr(rng, syms, depth + 1)]


def gen_delta_case(rng):
    p = rng.randint(2, 6)
    names = pick_names(rng, p)
    p = len(names)
    nsym = rng.randint(1, min(4, p))
    syms = rng.sample(names, nsym)
    e = gen_expr(rng, syms)
    r = rng.random()
    if r < 0.2:
        e = ["-", e, gen_expr(rng, syms)]
    elif r < 0.3:
        e = ["*", ["c", "-1.5"], e]
    # covariance = L L^T + diag(d), built exactly from short decimals; very different scales per parameter
    scales = [rng.choice(["0.01", "0.1", "1", "3"]) for _ in range(p)]
    L = [[_dec(rng, -1, 1, 2) if j <= i else "0" for j in range(p)] for i in range(p)]
    d = [_dec(rng, 0.05, 1, 2) for _ in range(p)]
    return {"kind": "stats", "what": "delta", "names": names, "index_perm": maybe_perm(rng, p, 0.15), "expr": e,
            "values": [_dec(rng, 0.01, 3) for _ in range(p)], "L": L, "d": d, "scales": scales,
            "as_series": rng.random() < 0.5, "sym_shuffle": rng.randrange(1 << 20), "seed": rng.randrange(1 << 30)}


def gen_case(rng, tier):
    what = rng.choice(["bootstrap", "bootstrap", "cdd", "cdd", "shrink", "delta", "delta", "delta"])
    nmax = 50
    if what == "delta":
        return gen_delta_case(rng)
    if what == "bootstrap":
        n, p = rng.choice([2, 3, 4, 5, 7, 10, 20, 21, 40, nmax]), rng.randint(1, 4)
        centers = [rng.choice([0.5, 2.0, -3.0, 40.0]) for _ in range(p)]
        cols = [[_dec(rng, c - 2, c + 2) if rng.random() < 0.9 else f"{c:.3f}" for _ in range(n)] for c in centers]
        if rng.random() < 0.1:      # repeated replicate values (ties in the order statistics)
            cols = [[rng.choice(col[:3]) for _ in col] for col in cols]
        case = {"kind": "stats", "what": what, "cols": cols, "orig": [_dec(rng, c - 1, c + 1) for c in centers],
                "names": pick_names(rng, p), "rep_perm": [maybe_perm(rng, p, 0.3) for _ in range(n)],
                "orig_perm": maybe_perm(rng, p, 0.5),
                "ofvs": [_dec(rng, -50, 50, 2) for _ in range(n)], "seed": rng.randrange(1 << 30)}
        add_missing(rng, case)
        return case
    if what == "cdd":
        p = rng.randint(1, 3)
        n = rng.choice([p + 2, 5, 8, 13, 30, nmax])
        centers = [rng.choice([0.5, 2.0, -3.0, 40.0]) for _ in range(p)]
        cols = [[_dec(rng, c - 2, c + 2) for _ in range(n)] for c in centers]
        return {"kind": "stats", "what": what, "cols": cols, "base": [_dec(rng, c - 1, c + 1) for c in centers],
                "names": pick_names(rng, p), "base_perm": maybe_perm(rng, p, 0.12), "cov_perm": maybe_perm(rng, p, 0.12),
                "use_jack": rng.random() < 0.5, "drop": [rng.randrange(n) for _ in range(3)], "seed": rng.randrange(1 << 30)}
    n = rng.choice([2, 3, 5, 9, 30, nmax])
    return {"kind": "stats", "what": "shrink", "etas": [[_dec(rng, -1, 1) for _ in range(n)] for _ in range(2)],
            "omegas": [_dec(rng, 0.01, 0.5), _dec(rng, 0.01, 0.5)],
            "icov": [[_dec(rng, 0.001, 0.2), _dec(rng, 0.001, 0.2), _dec(rng, -0.02, 0.02)] for _ in range(min(n, 6))],
            "ie_swap": rng.random() < 0.12, "pe_swap": rng.random() < 0.5,
            "icov_swap": [rng.random() < 0.1 for _ in range(min(n, 6))],
            "seed": rng.randrange(1 << 30)}


def add_missing(rng, case):
    """Faults in single replicates (by construction, ~45 % of the bootstrap cases): replicates whose estimation failed
    (all estimates and the OFV are NaN), single estimates missing, OFVs missing, and a dOFV step (bootstrap model on the
    original data) whose results are partially missing (None or NaN OFV).  A missing value is the text "nan"."""
    cols, n, p = case["cols"], len(case["cols"][0]), len(case["cols"])
    r = rng.random()
    if r < 0.25:        # failed replicates
        k = rng.randint(1, max(1, n // 4))
        for i in rng.sample(range(n), min(k, n - 1) if rng.random() < 0.9 else k):
            for col in cols:
                col[i] = "nan"
            case["ofvs"][i] = "nan"
        case["missing"] = "failed-replicates"
    elif r < 0.35:      # single estimates missing (a parameter not reported by one replicate)
        hit = False
        for col in cols:
            for i in range(n):
                if rng.random() < 0.12:
                    col[i] = "nan"
                    hit = True
        if not hit:
            cols[rng.randrange(p)][rng.randrange(n)] = "nan"
        case["missing"] = "single-estimates"
    elif r < 0.42:      # OFV of some replicates missing, estimates present
        for i in rng.sample(range(n), rng.randint(1, max(1, n // 3))):
            case["ofvs"][i] = "nan"
        case["missing"] = "ofv-only"
    if rng.random() < 0.4:
        case["orig_ofv"] = _dec(rng, -50, 50, 2)
        dofv = []
        for i in range(n):
            t = rng.random()
            dofv.append(None if t < 0.1 else "nan" if t < 0.2 else _dec(rng, -50, 50, 2))
        if rng.random() < 0.3:
            dofv = [_dec(rng, -50, 50, 2) for _ in range(n)]
        case["dofv"] = dofv


def corpus_cases():
    return [
        # seed C19f: one failed replicate (NaN estimates, NaN OFV) and a partially missing dOFV step
        {"kind": "stats", "what": "bootstrap", "cols": [["1.0", "1.25", "nan", "1.75", "2.0", "2.25", "2.5"],
                                                          ["2.0", "2.5", "nan", "0.5", "1.0", "1.5", "-1.0"]],
         "orig": ["1.5", "2.5"], "ofvs": ["0", "1", "nan", "3", "4", "5", "6"], "names": ["POP_CL", "POP_VC"],
         "orig_ofv": "2.5", "dofv": ["1", None, "2", "nan", "3.5", "0.25", "7"], "missing": "failed-replicates", "seed": 108},
        # a single estimate missing; two valid replicates only in one column
        {"kind": "stats", "what": "bootstrap", "cols": [["1.0", "nan", "1.5"], ["nan", "2.5", "nan"]],
         "orig": ["1.5", "2.5"], "ofvs": ["0", "1", "2"], "names": ["THETA(1)", "OMEGA(1,1)"], "missing": "single-estimates", "seed": 109},
        # D4 (fixed f1a9548): base estimate / covariance labelled in another order than the estimate columns
        {"kind": "stats", "what": "cdd", "cols": [["-1.366", "-0.307", "0.158", "0.897", "1.004"], ["-3.614", "-3.904", "-1.316", "-4.886", "-1.262"],
                                                    ["39.432", "39.114", "39.442", "39.408", "38.506"]],
         "base": ["1.375", "-2.237", "39.601"], "names": ["V2", "x_9", "alpha"], "base_perm": [0, 2, 1], "cov_perm": [2, 0, 1],
         "use_jack": False, "drop": [0, 0, 1], "seed": 106},
        # D5 (fixed 05239f5) / D6 (fixed 1c13772): eta columns / individual matrices not in the model's eta order
        {"kind": "stats", "what": "shrink", "etas": [["-0.819", "-0.675", "0.430"], ["0.716", "0.824", "-0.350"]], "omegas": ["0.345", "0.025"],
         "icov": [["0.026", "0.181", "-0.015"], ["0.061", "0.179", "0.012"]], "ie_swap": True, "pe_swap": False,
         "icov_swap": [False, True], "seed": 107},
        # delta method, labels in model order (not lexical), unequal gradient / variances
        {"kind": "stats", "what": "delta", "names": ["POP_CL", "POP_VC", "COVAPGR"], "index_perm": None,
         "expr": ["*", ["s", "POP_VC"], ["+", ["c", "1"], ["*", ["c", "2.5"], ["s", "COVAPGR"]]]],
         "values": ["0.005", "0.984", "0.159"], "L": [["0.1", "0", "0"], ["0.3", "0.5", "0"], ["-0.2", "0.4", "0.9"]],
         "d": ["0.1", "0.2", "0.3"], "scales": ["0.01", "1", "0.1"], "as_series": False, "sym_shuffle": 1, "seed": 104},
        {"kind": "stats", "what": "delta", "names": ["THETA(1)", "THETA(2)", "OMEGA(1,1)", "SIGMA(1,1)"], "index_perm": [2, 0, 3, 1],
         "expr": ["*", ["s", "THETA(1)"], ["sqrt", ["s", "OMEGA(1,1)"]]],
         "values": ["0.005", "1.01", "0.031", "0.013"], "L": [["0.5", "0", "0", "0"], ["0.3", "0.5", "0", "0"], ["-0.2", "0.4", "0.9", "0"], ["0.1", "0.1", "0.1", "0.1"]],
         "d": ["0.1", "0.2", "0.3", "0.1"], "scales": ["0.01", "1", "0.1", "1"], "as_series": True, "sym_shuffle": 2, "seed": 105},
        {"kind": "stats", "what": "bootstrap", "cols": [["1.0", "1.25", "1.5", "1.75", "2.0", "2.25", "2.5"],
                                                          ["2.0", "2.5", "3.0", "0.5", "1.0", "1.5", "-1.0"]],
         "orig": ["1.5", "2.5"], "ofvs": ["0", "1", "2", "3", "4", "5", "6"], "seed": 101},
        {"kind": "stats", "what": "cdd", "cols": [["1.0", "1.25", "1.5", "1.75", "2.0", "2.25", "2.5"],
                                                    ["2.0", "2.5", "3.0", "0.5", "1.0", "1.5", "-1.0"]],
         "base": ["1.5", "2.5"], "use_jack": False, "drop": [0, 3, 6], "seed": 102},
        {"kind": "stats", "what": "shrink", "etas": [["0.1", "-0.2", "0.05"], ["0.3", "0.1", "-0.1"]], "omegas": ["0.04", "0.09"],
         "icov": [["0.01", "0.02", "0.001"]], "seed": 103},
    ]


def shrink(case):
    if case["what"] in ("bootstrap", "cdd"):
        n = len(case["cols"][0])
        if n > 3:
            for i in range(n):
                c = dict(case)
                c["cols"] = [col[:i] + col[i + 1:] for col in case["cols"]]
                for key in ("ofvs", "dofv", "rep_perm"):
                    if case.get(key):
                        c[key] = case[key][:i] + case[key][i + 1:]
                if "drop" in case:
                    c["drop"] = [d % (n - 1) for d in case["drop"]]
                yield c
        if len(case["cols"]) > 1:
            for j in range(len(case["cols"])):
                c = dict(case)
                c["cols"] = case["cols"][:j] + case["cols"][j + 1:]
                for key in ("orig", "base"):
                    if key in case:
                        c[key] = case[key][:j] + case[key][j + 1:]
                for key in ("names",):
                    if key in case:
                        c[key] = case[key][:j] + case[key][j + 1:]
                for key in ("rep_perm", "orig_perm", "base_perm", "cov_perm"):
                    if key in case:
                        c[key] = [None] * len(case[key]) if key == "rep_perm" else None
                yield c
    if case["what"] == "bootstrap":
        if case.get("dofv"):
            yield {k: v for k, v in case.items() if k != "dofv"}
        for j, col in enumerate(case["cols"]):
            for i, x in enumerate(col):
                if x == "nan" and any(y != "nan" for y in col):
                    c = dict(case)
                    c["cols"] = [list(cc) for cc in case["cols"]]
                    c["cols"][j][i] = next(y for y in col if y != "nan")
                    yield c
                    break
    if case["what"] == "delta":
        e = case["expr"]
        if e[0] not in ("s", "c"):
            for sub in e[1:]:
                if isinstance(sub, list):
                    yield dict(case, expr=sub)
        if case.get("index_perm"):
            yield dict(case, index_perm=None)


def worker_init():
    global np, pd, ModelfitResults, boot, cdd, mres, PHENO, sympy, pmath
    _warnings.filterwarnings("ignore")
    import numpy as np  # noqa
    import pandas as pd  # noqa
    import sympy  # noqa
    import pharmpy.internals.math as pmath  # noqa
    import pharmpy.modeling.results as mres  # noqa
    import pharmpy.tools.bootstrap.results as boot  # noqa
    import pharmpy.tools.cdd.results as cdd  # noqa
    from pharmpy.modeling import load_example_model
    from pharmpy.workflows import ModelfitResults  # noqa
    PHENO = load_example_model("pheno")


def dq(text):
    if text is None or text == "nan":
        return "nan"
    f = Fraction(text)
    return str(f.numerator) if f.denominator == 1 else f"{f.numerator}/{f.denominator}"


def same(a, b, scale):
    """code float vs model Fraction/str ("nan" = missing on both sides)."""
    a = float(a)
    if b == "nan":
        return math.isnan(a)
    b = float(Fraction(b))
    if math.isnan(a) or math.isinf(a):
        return False
    return abs(a - b) <= 1e-9 * max(scale, abs(a), abs(b), 1e-300)


def run_case(case, drv):
    what = case["what"]
    if what == "bootstrap":
        return run_bootstrap(case, drv)
    if what == "cdd":
        return run_cdd(case, drv)
    if what == "shrink":
        return run_shrink(case, drv)
    if what == "delta":
        return run_delta(case, drv)
    return {"k": [], "mon": [], "tags": ["stats-noop"], "nontrivial": False}


def names_of(case, p):
    return list(case.get("names") or [f"P{j}" for j in range(p)])


def lexical(names):
    return "labels-lexical" if list(names) == sorted(names) else "labels-not-lexical"


# ------------------------------------------------------------------ delta method

def to_sympy(e):
    k = e[0]
    if k == "s":
        return sympy.Symbol(e[1])
    if k == "c":
        return sympy.Rational(e[1])
    if k == "^":
        return to_sympy(e[1]) ** e[2]
    a = to_sympy(e[1])
    if k == "sqrt":
        return sympy.sqrt(a)
    if k == "log1p":
        return sympy.log(1 + a)
    if k == "expm":
        return sympy.exp(-a / 10)
    b = to_sympy(e[2])
    return {"+": a + b, "-": a - b, "*": a * b, "/": a / b}[k]


def frac_of(x):
    """exact sympy number -> Fraction (irrational values to 40 digits)."""
    if x.is_Rational:
        return Fraction(int(x.p), int(x.q))
    return Fraction(str(sympy.N(x, 40)))


def fstr(f):
    return str(f.numerator) if f.denominator == 1 else f"{f.numerator}/{f.denominator}"


def run_delta(case, drv):
    k, mon = [], []
    names = list(case["names"])
    p = len(names)
    expr = to_sympy(case["expr"])
    syms = sorted((s.name for s in expr.free_symbols))
    random.Random(case["sym_shuffle"]).shuffle(syms)
    tags = [f"delta-nsym={len(syms)}", f"delta-p={p}", "delta-" + lexical(names),
            "delta-index-order-" + ("differs" if case["index_perm"] else "same")]
    if not syms:
        return {"k": k, "mon": mon, "tags": tags + ["delta-constant"], "nontrivial": False}
    # exact covariance  S (L L^T + D) S  from short decimals; the code gets its float image, model and reference that float exactly
    sc = [Fraction(x) for x in case["scales"]]
    L = [[Fraction(x) for x in row] for row in case["L"]]
    cexact = [[sc[i] * (sum(L[i][t] * L[j][t] for t in range(p)) + (Fraction(case["d"][i]) if i == j else 0)) * sc[j]
               for j in range(p)] for i in range(p)]
    cfloat = [[float(v) for v in row] for row in cexact]
    idx = list(range(p)) if not case["index_perm"] else list(case["index_perm"])
    cov = pd.DataFrame([[cfloat[i][j] for j in range(p)] for i in idx], index=[names[i] for i in idx], columns=names)
    vals = {nm: float(v) for nm, v in zip(names, case["values"])}
    values = pd.Series(vals) if case["as_series"] else vals
    try:
        se = float(pmath.se_delta_method(expr, values, cov))
    except Exception as e:
        mon.append({"cls": "delta-method-raises", "what": f"se_delta_method({expr}) raised {type(e).__name__}: {e}"})
        return {"k": k, "mon": mon, "tags": tags, "nontrivial": True}
    # independent exact evaluation of the definition, by label
    subs = {sympy.Symbol(nm): sympy.Rational(v) for nm, v in zip(names, case["values"])}
    grad = {nm: frac_of(sympy.diff(expr, sympy.Symbol(nm)).subs(subs)) for nm in syms}
    C = {(names[i], names[j]): Fraction(cfloat[i][j]) for i in range(p) for j in range(p)}
    var = sum(grad[a] * C[(a, b)] * grad[b] for a in syms for b in syms)
    gsorted = sorted(abs(float(g)) for g in grad.values())
    if len(syms) >= 2 and gsorted[0] != gsorted[-1]:
        tags.append("delta-asymmetric")
    terms = max(abs(float(grad[a] * C[(a, b)] * grad[b])) for a in syms for b in syms)
    tol = 1e-8 * max(float(var), terms)
    if not abs(se * se - float(var)) <= tol:
        mon.append({"cls": "delta-method-se", "what": f"se_delta_method({expr}) = {se}; sqrt(grad' Cov grad) evaluated by label = "
                    f"{math.sqrt(max(0.0, float(var)))} (gradient {{{', '.join(f'{a}: {float(g):.6g}' for a, g in grad.items())}}}, "
                    f"covariance columns {names}, index {[names[i] for i in idx]})"})
    if drv is not None:
        rows = [[names[i], [[names[j], _fr(cfloat[i][j])] for j in range(p)]] for i in idx]
        ans = drv.ask(["delta", syms, [[a, fstr(g)] for a, g in grad.items()], names, rows])
        if not isinstance(ans, str) or abs(se * se - float(Fraction(ans))) > tol:
            k.append(f"se_delta_method^2: model {ans if not isinstance(ans, str) else float(Fraction(ans))} code {se * se}")
    return {"k": k, "mon": mon, "tags": tags, "nontrivial": len(syms) >= 2}


def _close(got, want, tol):
    """reported value vs reference; missing (NaN) must be missing on both sides."""
    got, want = float(got), float(want)
    if math.isnan(want) or math.isnan(got):
        return math.isnan(want) and math.isnan(got)
    return abs(got - want) <= tol


def _ref_column(x):
    """defining formulas on the valid (non-NaN) estimates of one column: statistics dict, distribution list."""
    v = np.array([t for t in x if not math.isnan(t)], dtype=float)
    nan = float("nan")
    if len(v) == 0:
        return {"mean": nan, "median": nan, "stderr": nan}, [nan] * len(DIST_COLS), v
    refd = [np.min(v)] + [np.quantile(v, q) for q in QS] + [np.max(v)]
    refd[5] = np.median(v)
    return ({"mean": np.mean(v), "median": np.median(v), "stderr": np.std(v, ddof=1) if len(v) >= 2 else nan},
            refd, v)


def run_bootstrap(case, drv):
    k, mon = [], []
    cols = [[float(x) for x in col] for col in case["cols"]]
    p, n = len(cols), len(cols[0])
    tags = [f"bootstrap-n={n}", f"bootstrap-p={p}"]
    names = names_of(case, p)
    tags.append("bootstrap-" + lexical(names))
    rp = case.get("rep_perm") or [None] * n
    op = case.get("orig_perm") or list(range(p))
    ofv_in = [float(x) for x in case["ofvs"]]
    missing = any(math.isnan(x) for col in cols for x in col)
    tags.append("bootstrap-missing=" + case.get("missing", "none"))
    nvalid = [sum(1 for x in col if not math.isnan(x)) for col in cols]
    if missing:
        tags.append("bootstrap-min-valid=" + ("0" if min(nvalid) == 0 else "1" if min(nvalid) == 1 else ">=2"))

    def ser(vals, perm):
        perm = perm or list(range(p))
        return pd.Series([vals[j] for j in perm], index=[names[j] for j in perm])
    if any(rp) or case.get("orig_perm"):
        tags.append("bootstrap-label-order-varies")
    results = [ModelfitResults(ofv=ofv_in[i], parameter_estimates=ser([cols[j][i] for j in range(p)], rp[i]))
               for i in range(n)]
    orig_ofv = float(case.get("orig_ofv", "1"))
    orig = ModelfitResults(ofv=orig_ofv, parameter_estimates=ser([float(x) for x in case["orig"]], op))
    dofv = case.get("dofv")
    dofv_results = None
    if dofv is not None:
        dofv_results = [None if x is None else ModelfitResults(ofv=float(x)) for x in dofv]
        tags.append("bootstrap-dofv=" + ("partial" if any(x is None or x == "nan" for x in dofv) else "complete"))
    res = boot.calculate_results(None, results, original_results=orig, dofv_results=dofv_results)
    st, dist, cov = res.parameter_statistics, res.parameter_distribution, res.covariance_matrix
    if sorted(st.index) != sorted(names) or sorted(cov.index) != sorted(names) or list(cov.index) != list(cov.columns) \
            or sorted(dist.index) != sorted(names):
        mon.append({"cls": "bootstrap-labels", "what": f"statistics labelled {list(st.index)}, distribution {list(dist.index)}, "
                    f"covariance {list(cov.index)} x {list(cov.columns)}; parameters {names}"})
        return {"k": k, "mon": mon, "tags": tags, "nontrivial": True}
    if list(dist.columns) != DIST_COLS:
        mon.append({"cls": "bootstrap-distribution-columns", "what": f"parameter_distribution columns {list(dist.columns)}, documented {DIST_COLS}"})
        return {"k": k, "mon": mon, "tags": tags, "nontrivial": True}
    cov = cov.loc[names, names]
    arr = np.array(cols)
    for j, nm in enumerate(names):
        ref, refd, v = _ref_column(cols[j])
        scale = (float(np.max(np.abs(v))) if len(v) else 0.0) or 1.0
        sfx = "-missing-replicates" if nvalid[j] < n else ""
        where = f" (evaluated on the {nvalid[j]} valid of {n} replicates)" if sfx else ""
        ref["bias"] = ref["mean"] - float(case["orig"][j])
        for key in ("mean", "median", "bias", "stderr"):
            if not _close(st.loc[nm, key], ref[key], 1e-9 * scale):
                mon.append({"cls": "bootstrap-" + key + sfx, "what": f"{key} of {nm}: {st.loc[nm, key]}, numpy reference {ref[key]}{where}"})
        if len(v) >= 2 and abs(ref["mean"]) > 1e-6 * scale and \
                not _close(st.loc[nm, "RSE"], ref["stderr"] / ref["mean"], 1e-9 * abs(ref["stderr"] / ref["mean"]) + 1e-12):
            mon.append({"cls": "bootstrap-rse" + sfx, "what": f"RSE of {nm}: {st.loc[nm, 'RSE']}, reference {ref['stderr'] / ref['mean']}{where}"})
        for cname, want in zip(DIST_COLS, refd):
            if not _close(dist.loc[nm, cname], want, 1e-9 * scale):
                mon.append({"cls": "bootstrap-percentile" + sfx, "what": f"{cname} of {nm}: {dist.loc[nm, cname]}, numpy reference {want}{where}"})
    if not missing:
        refc = np.cov(arr, ddof=1).reshape(p, p)
        if not np.allclose(cov.values, refc, rtol=1e-9, atol=1e-9 * float(np.max(np.abs(arr))) ** 2):
            mon.append({"cls": "bootstrap-covariance", "what": f"covariance matrix {cov.values.tolist()}, numpy reference {refc.tolist()}"})
    # the OFV table: same routine (create_distribution) on columns that are partially or entirely missing
    nan = float("nan")
    dv = [nan] * n if dofv is None else [nan if x is None else float(x) for x in dofv]
    ofv_cols = {"bootstrap_bootdata_ofv": ofv_in, "original_bootdata_ofv": [nan] * n, "bootstrap_origdata_ofv": dv,
                "original_origdata_ofv": [orig_ofv] * n, "delta_bootdata": [nan] * n,
                "delta_origdata": [x - orig_ofv for x in dv]}
    od, os_ = res.ofv_distribution, res.ofv_statistics
    if sorted(od.index) != sorted(ofv_cols) or sorted(os_.index) != sorted(ofv_cols) or list(od.columns) != DIST_COLS:
        mon.append({"cls": "bootstrap-ofv-labels", "what": f"ofv_distribution {list(od.index)} x {list(od.columns)}, ofv_statistics {list(os_.index)}"})
    else:
        for cname_, x in ofv_cols.items():
            ref, refd, v = _ref_column(x)
            scale = (float(np.max(np.abs(v))) if len(v) else 0.0) or 1.0
            where = f" (evaluated on the {len(v)} valid of {n} values)"
            for key in ("mean", "median", "stderr"):
                if not _close(os_.loc[cname_, key], ref[key], 1e-9 * scale):
                    mon.append({"cls": "bootstrap-ofv-" + key, "what": f"{key} of {cname_}: {os_.loc[cname_, key]}, numpy reference {ref[key]}{where}"})
            for q, want in zip(DIST_COLS, refd):
                if not _close(od.loc[cname_, q], want, 1e-9 * scale):
                    mon.append({"cls": "bootstrap-ofv-percentile", "what": f"{q} of {cname_}: {od.loc[cname_, q]}, numpy reference {want}{where}"})
    if drv is not None:
        if missing:
            ans = drv.ask(["bootstrapm", [[dq(x) for x in col] for col in case["cols"]], [dq(x) for x in case["orig"]]])
        else:
            ans = drv.ask(["bootstrap", [[dq(x) for x in col] for col in case["cols"]], [dq(x) for x in case["orig"]]])
        for j, nm in enumerate(names):
            scale = max([abs(x) for x in cols[j] if not math.isnan(x)] or [0.0]) or 1.0
            m = ans[0][j]
            pairs = [("mean", st.loc[nm, "mean"], m[0], scale), ("median", st.loc[nm, "median"], m[1], scale),
                     ("bias", st.loc[nm, "bias"], m[2], scale), ("stderr^2", st.loc[nm, "stderr"] ** 2, m[3], scale * scale)]
            if abs(st.loc[nm, "mean"]) > 1e-6 * scale and nvalid[j] >= 2:
                pairs.append(("RSE^2", st.loc[nm, "RSE"] ** 2, m[4], (scale / st.loc[nm, "mean"]) ** 2))
            pairs += [(cname, dist.loc[nm, cname], mv, scale) for cname, mv in zip(DIST_COLS, m[5])]
            for label, cv, mv, sc in pairs:
                if not same(cv, mv, sc):
                    k.append(f"bootstrap {label} of {nm}: model {mv if mv == 'nan' else float(Fraction(mv))} code {cv}")
        for a in range(p):
            for b in range(p):
                sc = (max([abs(x) for x in cols[a] if not math.isnan(x)] or [0.0]) or 1.0) * \
                     (max([abs(x) for x in cols[b] if not math.isnan(x)] or [0.0]) or 1.0)
                if not same(cov.values[a][b], ans[1][a][b], sc):
                    mv = ans[1][a][b]
                    k.append(f"bootstrap covariance[{a}][{b}]: model {mv if mv == 'nan' else float(Fraction(mv))} code {cov.values[a][b]}")
        if "bootstrap-ofv-labels" not in [m_["cls"] for m_ in mon]:
            onames = list(ofv_cols)
            wire = [[_fr(x) if not math.isnan(x) else "nan" for x in ofv_cols[c]] for c in onames]
            anso = drv.ask(["bootstrapm", wire, ["0"] * len(onames)])
            for c, m in zip(onames, anso[0]):
                v = [abs(x) for x in ofv_cols[c] if not math.isnan(x)]
                scale = max(v or [0.0]) or 1.0
                pairs = [("mean", os_.loc[c, "mean"], m[0], scale), ("median", os_.loc[c, "median"], m[1], scale),
                         ("stderr^2", os_.loc[c, "stderr"] ** 2, m[3], scale * scale)]
                pairs += [(q, od.loc[c, q], mv, scale) for q, mv in zip(DIST_COLS, m[5])]
                for label, cv, mv, sc in pairs:
                    if not same(cv, mv, sc):
                        k.append(f"bootstrap ofv table {label} of {c}: model {mv if mv == 'nan' else float(Fraction(mv))} code {cv}")
    return {"k": k, "mon": mon, "tags": tags, "nontrivial": n >= 3}


def run_cdd(case, drv):
    k, mon = [], []
    cols = [[float(x) for x in col] for col in case["cols"]]
    p, n = len(cols), len(cols[0])
    tags = [f"cdd-n={n}", f"cdd-p={p}", "cdd-cov=" + ("jackknife" if case["use_jack"] else "sample")]
    names = names_of(case, p)
    tags.append("cdd-" + lexical(names))
    bperm = case.get("base_perm") or list(range(p))
    cperm = case.get("cov_perm") or list(range(p))
    inconsistent = bperm != list(range(p)) or cperm != list(range(p))
    if inconsistent:
        tags.append("cdd-label-orders-differ")
    df = pd.DataFrame({nm: cols[j] for j, nm in enumerate(names)})
    arr = np.array(cols)
    amax = float(np.max(np.abs(arr)))
    jk = cdd.compute_jackknife_covariance_matrix(df)
    d = arr - arr.mean(axis=1, keepdims=True)
    refj = d @ d.T * (n - 1) / n
    if not np.allclose(jk.values, refj, rtol=1e-9, atol=1e-9 * amax ** 2):
        mon.append({"cls": "cdd-jackknife", "what": f"jackknife covariance {jk.values.tolist()}, definition (N-1)/N sum dd^T gives {refj.tolist()}"})
    covm = jk if case["use_jack"] else df.cov()
    if list(jk.index) != names or list(jk.columns) != names:
        mon.append({"cls": "cdd-jackknife-labels", "what": f"jackknife matrix labelled {list(jk.index)} x {list(jk.columns)}, parameters {names}"})
    base = pd.Series([float(case["base"][j]) for j in bperm], index=[names[j] for j in bperm])
    cov_given = covm.loc[[names[j] for j in cperm], [names[j] for j in cperm]]
    cooks = cdd.compute_cook_scores(base, df, cov_given)
    try:
        inv = np.linalg.inv(covm.values)
        posdef = bool(np.all(np.linalg.eigvalsh(covm.values) > 1e-9 * amax ** 2))
    except np.linalg.LinAlgError:
        inv, posdef = None, False
    if posdef:
        delta = (arr.T - base[names].values)          # by label
        refc = [math.sqrt(max(0.0, float(r @ inv @ r))) for r in delta]
        if cooks is None or not np.allclose(cooks, refc, rtol=1e-8, atol=1e-9):
            # decidable witness class: the three labelled inputs do not list the parameters in the same order
            cls = "cook-scores-label-order" if inconsistent else "cdd-cook-score"
            mon.append({"cls": cls, "what": f"cook scores {cooks}, sqrt(d cov^-1 d^T) evaluated by label gives {refc} "
                        f"(estimate columns {names}, base estimate labels {list(base.index)}, covariance labels {list(cov_given.index)})"})
    else:
        tags.append("cdd-cov-not-posdef")
    # covariance ratios: covariance of the data with one replicate left out, against the full one
    subres, subcovs = [], []
    for i in case["drop"]:
        i = i % n
        sub = df.drop(index=i).cov()
        subcovs.append(sub)
        subres.append(ModelfitResults(covariance_matrix=sub))
    subres.append(None)
    full = df.cov()
    ratios = cdd.compute_covariance_ratios(subres, full)
    det_full = float(np.linalg.det(full.values))
    if posdef and abs(det_full) > 1e-12 * amax ** (2 * p):
        refr = [math.sqrt(float(np.linalg.det(s.values)) / det_full) for s in subcovs]
        if ratios is None or not np.allclose(ratios[:-1], refr, rtol=1e-8) or not math.isnan(ratios[-1]):
            mon.append({"cls": "cdd-covariance-ratio", "what": f"covariance ratios {ratios}, sqrt(det/det) gives {refr}"})
    if drv is not None:
        wcols = [[dq(x) for x in col] for col in case["cols"]]
        ans = drv.ask(["jackknife", wcols])
        for a in range(p):
            for b in range(p):
                if not same(jk.values[a][b], ans[a][b], amax ** 2):
                    k.append(f"jackknife[{a}][{b}]: model {float(Fraction(ans[a][b]))} code {jk.values[a][b]}")
        if posdef and cooks is not None:
            # the model gets the covariance matrix the code used, as exact rationals of its floats
            wm = [[_fr(v) for v in row] for row in cov_given.values.tolist()]
            cl = list(cov_given.index)
            crows = [[cl[i], [[cl[j], wm[i][j]] for j in range(p)]] for i in range(p)]
            ansc = drv.ask(["cook2l", names, wcols, [[names[j], dq(case["base"][j])] for j in bperm], cl, crows])
            for i, (cv, mv) in enumerate(zip(cooks, ansc)):
                if mv == "singular" or not same(float(cv) ** 2, mv, 1e-3):
                    k.append(f"cook score^2 of replicate {i}: model {mv} code {float(cv) ** 2}")
            for s, cv in zip(subcovs, ratios[:-1]):
                mv = drv.ask(["covratio2", [[_fr(v) for v in row] for row in s.values.tolist()],
                              [[_fr(v) for v in row] for row in full.values.tolist()]])
                if mv == "singular" or not same(float(cv) ** 2, mv, 1e-6):
                    k.append(f"covariance ratio^2: model {mv} code {float(cv) ** 2}")
    return {"k": k, "mon": mon, "tags": tags, "nontrivial": True}


def _fr(x):
    f = Fraction(float(x))
    return str(f.numerator) if f.denominator == 1 else f"{f.numerator}/{f.denominator}"


def run_shrink(case, drv):
    k, mon = [], []
    etas = [[float(x) for x in col] for col in case["etas"]]
    n = len(etas[0])
    tags = [f"shrink-n={n}"]
    om = [float(x) for x in case["omegas"]]
    pe = pd.Series({"IIV_VC": om[1], "IIV_CL": om[0]}) if case.get("pe_swap") else pd.Series({"IIV_CL": om[0], "IIV_VC": om[1]})
    ie = pd.DataFrame({"ETA_CL": etas[0], "ETA_VC": etas[1]}, index=list(range(1, n + 1)))
    ie_swap = bool(case.get("ie_swap"))
    if ie_swap:
        ie = ie[["ETA_VC", "ETA_CL"]]
        tags.append("shrink-ie-columns-swapped")
    ie_cols = list(ie.columns)
    sh = mres.calculate_eta_shrinkage(PHENO, pe, ie)
    shsd = mres.calculate_eta_shrinkage(PHENO, pe, ie, sd=True)
    for j, nm in enumerate(["ETA_CL", "ETA_VC"]):
        v = float(np.var(etas[j], ddof=1))
        # decidable witness class: the columns of individual_estimates are not in the model's eta order
        sfx = "-column-order" if ie_swap else ""
        if not abs(sh[nm] - (1 - v / om[j])) <= 1e-9 * max(1.0, abs(v / om[j])):
            mon.append({"cls": "eta-shrinkage" + sfx, "what": f"{nm}: {sh[nm]}, definition 1 - var({nm})/omega = {1 - v / om[j]} "
                        f"(individual_estimates columns {ie_cols})"})
            break
        if not abs(shsd[nm] - (1 - math.sqrt(v) / math.sqrt(om[j]))) <= 1e-9 * max(1.0, math.sqrt(v / om[j])):
            mon.append({"cls": "eta-shrinkage-sd" + sfx, "what": f"{nm}: {shsd[nm]}, definition 1 - sd/sqrt(omega) = {1 - math.sqrt(v / om[j])}"})
            break
    idx = list(range(1, len(case["icov"]) + 1))
    mats = []
    swaps = list(case.get("icov_swap") or [False] * len(case["icov"]))
    for (a, b, c), sw in zip(case["icov"], swaps):
        m = pd.DataFrame([[float(a), float(c)], [float(c), float(b)]], index=["ETA_CL", "ETA_VC"], columns=["ETA_CL", "ETA_VC"])
        if sw:
            m = m.loc[["ETA_VC", "ETA_CL"], ["ETA_VC", "ETA_CL"]]
        mats.append(m)
    if any(swaps):
        tags.append("shrink-icov-labels-swapped")
    ish = mres.calculate_individual_shrinkage(PHENO, pe, pd.Series(mats, index=idx))
    for i, (a, b, c), sw in zip(idx, case["icov"], swaps):
        for nm, dv, o in (("ETA_CL", float(a), om[0]), ("ETA_VC", float(b), om[1])):
            got = ish.loc[i, nm] if nm in ish.columns else float("nan")
            if not abs(got - dv / o) <= 1e-9 * abs(dv / o):
                # decidable witness class: some individual's matrix is labelled in another order than the model's etas
                cls = "individual-shrinkage-label-order" if any(swaps) else "individual-shrinkage"
                mon.append({"cls": cls, "what": f"individual {i} {nm}: {got}, definition var_i({nm})/omega = {dv / o} "
                            f"(matrix labels {list(mats[i - 1].index)})"})
                break
        else:
            continue
        break
    if drv is not None:
        order = [1, 0] if ie_swap else [0, 1]
        ansl = drv.ask(["shrinkagel", ["ETA_CL", "ETA_VC"], [dq(x) for x in case["omegas"]],
                        [[ie_cols[t], [dq(x) for x in case["etas"][j]]] for t, j in enumerate(order)]])
        if [r[0] for r in ansl] != list(sh.index):
            k.append(f"eta shrinkage labels: model {[r[0] for r in ansl]} code {list(sh.index)}")
        ans = [r[1] for r in ansl]
        for j, nm in enumerate(ie_cols):
            if not same(sh[nm], ans[j], 1.0):
                k.append(f"eta shrinkage {nm}: model {float(Fraction(ans[j]))} code {sh[nm]}")
            if not same((1 - shsd[nm]) ** 2, str(1 - Fraction(ans[j])), 1.0):
                k.append(f"eta shrinkage (sd) {nm}: model (1-s)^2 {float(1 - Fraction(ans[j]))} code {(1 - shsd[nm]) ** 2}")
        ansi = drv.ask(["ishrinkagel", ["ETA_CL", "ETA_VC"], [dq(x) for x in case["omegas"]],
                        [[["ETA_VC", dq(b)], ["ETA_CL", dq(a)]] if sw else [["ETA_CL", dq(a)], ["ETA_VC", dq(b)]]
                         for (a, b, _), sw in zip(case["icov"], swaps)]])
        for r, (i, row) in enumerate(zip(idx, ansi)):
            for nm, (mnm, mv) in zip(list(mats[r].index), row):
                if mnm != nm:
                    k.append(f"individual shrinkage {i}: model label {mnm} code label {nm}")
                    continue
                if not same(ish.loc[i, nm], mv, 0.0):
                    k.append(f"individual shrinkage {i} {nm}: model {float(Fraction(mv))} code {ish.loc[i, nm]}")
    return {"k": k, "mon": mon, "tags": tags, "nontrivial": n >= 3}
