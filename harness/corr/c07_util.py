"""Helpers of the C07 harness: exact sequential evaluation of pharmpy statements,
wire conversion for the Lean driver, and the Python-side (decidable) witness
classifiers that name a monitor failure's class independently of the Lean build."""
from __future__ import annotations

import random

import sympy
from sympy.core.function import AppliedUndef

from harness.common import exprconv


# ---------------------------------------------------------------- values

def value_of(seed, name: str, kind: str = "pos"):
    """Deterministic rational value for a named input (same name -> same value in every model of a case)."""
    r = random.Random(f"{seed}:{name}")
    if name in ("FA1", "FA2"):       # occasion / flag columns of the example data: 0 or 1
        return sympy.Integer(r.randint(0, 1))
    if kind == "small":
        return sympy.Rational(r.choice([-1, 1]) * r.randint(1, 9), r.choice([7, 11, 13, 17]))
    return sympy.Rational(r.randint(1, 40), r.randint(3, 9))


def _fold(v):
    if isinstance(v, sympy.Basic) and v.has(sympy.Piecewise):
        v = sympy.piecewise_fold(v)
    return v


def sym_key(obj) -> str:
    return str(obj)


def ode_exprs(cs):
    """Canonical list (key, pharmpy Expr) of everything an ODE system evaluates."""
    out = []
    for name in sorted(cs.compartment_names):
        c = cs.find_compartment(name)
        for i, d in enumerate(c.doses):
            out.append((f"{name}.dose{i}.amount", d.amount))
            if getattr(d, "rate", None) is not None:
                out.append((f"{name}.dose{i}.rate", d.rate))
            if getattr(d, "duration", None) is not None:
                out.append((f"{name}.dose{i}.duration", d.duration))
        out.append((f"{name}.lag", c.lag_time))
        out.append((f"{name}.bio", c.bioavailability))
    # flows (rates) in canonical order; `cs.eqs` is avoided: symengine folds Eq(dA/dt, 0) to False
    for name in sorted(cs.compartment_names):
        flows = sorted(((getattr(dest, "name", "OUTPUT"), rate) for dest, rate in cs.get_compartment_outflows(name)),
                       key=lambda p: p[0])
        for dest, rate in flows:
            out.append((f"{name}->{dest}", rate))
        c = cs.find_compartment(name)
        if getattr(c, "input", 0) != 0:
            out.append((f"{name}.input", c.input))
    return out


def is_assignment(s) -> bool:
    return hasattr(s, "symbol") and hasattr(s, "expression")


def inputs_of(statements):
    """All sympy symbols / applied functions occurring anywhere in the statements."""
    objs = set()
    for s in statements:
        if is_assignment(s):
            for e in (s.symbol, s.expression):
                se = exprconv.to_sympy(e)
                objs |= se.free_symbols | se.atoms(AppliedUndef)
        else:
            for _, e in ode_exprs(s):
                se = exprconv.to_sympy(e)
                objs |= se.free_symbols | se.atoms(AppliedUndef)
            for a in s.amounts:
                objs.add(exprconv.to_sympy(a))
    return objs


def evaluate(statements, seed, name_map=None, small=(), override=None):
    """Execute the statements in order at the seeded exact point.

    Returns (assigned: name -> final value, obs: key -> value of every ODE expression at the
    point the system occurs, order: assigned names in first-assignment order).
    `name_map` maps names of this model to the names whose seeded values they take
    (for renamed models).  ODE amounts get seeded values by name after the system."""
    name_map = name_map or {}
    override = override or {}
    env = {}

    def val(obj):
        nm = name_map.get(sym_key(obj), sym_key(obj))
        if nm in override:
            return override[nm]
        return value_of(seed, nm, "small" if nm in small else "pos")

    for o in inputs_of(statements):
        env[o] = val(o)
    assigned, obs, order = {}, {}, []
    for s in statements:
        if is_assignment(s):
            v = _fold(exprconv.to_sympy(s.expression).xreplace(env))
            k = exprconv.to_sympy(s.symbol)
            env[k] = v
            nm = sym_key(k)
            if nm not in assigned:
                order.append(nm)
            assigned[nm] = v
        else:
            for key, e in ode_exprs(s):
                obs[key] = _fold(exprconv.to_sympy(e).xreplace(env))
            for a in s.amounts:
                k = exprconv.to_sympy(a)
                env[k] = value_of(seed, "amount:" + name_map.get(sym_key(k), sym_key(k)))
    return assigned, obs, order


def same_value(a, b) -> bool:
    """Exact equality, or agreement to 1e-25 relative at 40 digits (exp/log stay symbolic in exact values).
    Values that contain a machine float (pharmpy writes fixed parameters as floats) are compared to 1e-12."""
    if a == b:
        return True
    try:
        d = a - b
        if not getattr(d, "is_number", False):
            d = sympy.simplify(d)
            return d == 0
        if d == 0:
            return True
        tol = 1e-12 if (a.has(sympy.Float) or b.has(sympy.Float)) else 1e-25
        dn = abs(complex(sympy.N(d, 40)))
        an = abs(complex(sympy.N(a, 40)))
        return dn <= tol * (1 + an)
    except Exception as e:
        if type(e).__name__ == "CaseTimeout":
            raise
        return False


def compare_eval(ev1, ev2, symbols=None, rename=None):
    """First difference between two `evaluate` results on `symbols` (default: all assigned in the first)
    and on all ODE observables, or None.  `rename` maps names of ev1 to names of ev2."""
    rename = rename or {}
    a1, o1, _ = ev1
    a2, o2, _ = ev2
    def undefined(v):
        return isinstance(v, sympy.Basic) and v.has(sympy.nan, sympy.zoo, sympy.oo, -sympy.oo)

    for nm in (symbols if symbols is not None else sorted(a1)):
        nm2 = rename.get(nm, nm)
        if nm not in a1:
            continue
        if undefined(a1[nm]):
            continue        # the original model is undefined at this point (0/0, log 0): nothing to preserve
        if nm2 not in a2:
            return f"{nm2} is no longer defined"
        if not same_value(a1[nm], a2[nm2]):
            return f"{nm}: {sympy.N(a1[nm], 12)} before, {sympy.N(a2[nm2], 12)} after"
    if sorted(o1) != sorted(o2):
        return f"ODE expressions differ in shape: {sorted(o1)} vs {sorted(o2)}"
    for key in sorted(o1):
        if undefined(o1[key]):
            continue
        if not same_value(o1[key], o2[key]):
            return f"ODE {key}: {sympy.N(o1[key], 12)} before, {sympy.N(o2[key], 12)} after"
    return None


# ---------------------------------------------------------------- wire

def wire_stmt(s):
    if is_assignment(s):
        return ["=", str(s.symbol), exprconv.to_sexp(s.expression)]
    return ["ode", sorted(str(a) for a in s.amounts), [exprconv.to_sexp(e) for _, e in ode_exprs(s)]]


def wire(statements):
    return [wire_stmt(s) for s in statements]


def compare_wire(model_out, code_statements, rng, what):
    """Lean model's statement list (parsed driver answer) vs the real statements: same shape (kind and
    assigned symbol at every position), expressions equal by exact evaluation."""
    code = list(code_statements)
    if len(model_out) != len(code):
        return [f"{what}: model has {len(model_out)} statements {[m[1] for m in model_out]}, code {len(code)} "
                f"{[str(s.symbol) if is_assignment(s) else 'ODE' for s in code]}"]
    out = []
    for i, (m, s) in enumerate(zip(model_out, code)):
        if is_assignment(s):
            if m[0] != "=" or m[1] != str(s.symbol):
                out.append(f"{what} #{i}: model {m[:2]} code assigns {s.symbol}")
                continue
            me = exprconv.from_sexp(m[2])
            ce = exprconv.to_sympy(s.expression)
            if not exprconv.equal_at_points(me, ce, rng):
                out.append(f"{what} #{i} {s.symbol}: model {me} code {ce}")
        else:
            if m[0] != "ode":
                out.append(f"{what} #{i}: model {m[:2]} code ODE")
                continue
            ces = [exprconv.to_sympy(e) for _, e in ode_exprs(s)]
            mes = [exprconv.from_sexp(x) for x in m[2]]
            if sorted(m[1]) != sorted(str(a) for a in s.amounts) or len(ces) != len(mes):
                out.append(f"{what} #{i}: ODE shape differs")
                continue
            for me, ce in zip(mes, ces):
                if not exprconv.equal_at_points(me, ce, rng):
                    out.append(f"{what} #{i} ODE: model {me} code {ce}")
                    break
    return out


# ---------------------------------------------------------------- classifiers (decidable witness classes)

def _syms(sexp):
    return exprconv.sexp_syms(sexp)


def _stmt_reads(w):
    if w[0] == "=":
        return _syms(w[2])
    out = set()
    for e in w[2]:
        out |= _syms(e)
    return out


def md_classify(ws):
    """Mirror of `mdSafe` (PharmpyModel/C07/Model.lean, the code after repair e5b2100) on wire statements.
    Returns the set of violated clauses: 'emit' (b) = an emitted statement defines a symbol that a still pending
    value reads.  (Clause (a) 'first' of the pre-repair code no longer exists: first assignments are substituted.)"""
    bad = set()
    seen = set()
    cur = {}  # pending symbol -> set of symbols its (substituted) value reads

    def subst_syms(reads):
        out = set()
        for y in reads:
            out |= cur[y] if y in cur else {y}
        return out

    def range_syms(exclude=None):
        out = set()
        for k, v in cur.items():
            if k != exclude:
                out |= v
        return out

    for i, w in enumerate(ws):
        if w[0] != "=":
            for a in w[1]:
                if a in cur or a in range_syms():
                    bad.add("emit")
            continue
        x, reads = w[1], _syms(w[2])
        later = any(v[0] == "=" and v[1] == x for v in ws[i + 1:])
        earlier = x in seen
        if not earlier and not later:
            if x in range_syms():
                bad.add("emit")
            seen.add(x)
        elif later:
            seen.add(x)
            cur[x] = subst_syms(reads)
        else:
            if x in range_syms(exclude=x):
                bad.add("emit")
            cur.pop(x, None)
    return bad


def inline_classify(ws):
    """Mirror of `inlineSafe`: 'chain' = alias of a pending alias; 'redefine' = a kept statement defines an
    alias or an alias target."""
    bad = set()
    cur = {}
    for w in ws:
        if w[0] == "=" and isinstance(w[2], str) and not _is_int(w[2]):
            if w[2] in cur:
                bad.add("chain")
            cur[w[1]] = w[2]
            continue
        defs = [w[1]] if w[0] == "=" else list(w[1])
        for d in defs:
            if d in cur or d in cur.values():
                bad.add("redefine")
    return bad


def _is_int(s):
    try:
        int(s)
        return True
    except (TypeError, ValueError):
        return False
