"""C04 helpers: wire format of $THETA parse trees, layout generators (from the two lark grammars),
number spellings.  Everything random comes from the rng passed in."""
from __future__ import annotations

import math
from fractions import Fraction

INF = float("inf")

# ------------------------------------------------------------------ wire: theta trees -> S-expressions

_TOK_K = {"LPAR": "lpar", "RPAR": "rpar", "COMMA": "comma", "WS": "ws", "FIX": "fix", "SD": "sd", "VAR": "var"}


def val_wire(f: float):
    if f == INF:
        return "pinf"
    if f == -INF:
        return "ninf"
    fr = Fraction(f)
    return [fr.numerator, fr.denominator]


def tok_val(tok):
    """value the token denotes when read: NEG_INF/POS_INF are -inf/+inf, NUMERIC is float(text)."""
    if tok.rule == "NEG_INF":
        return -INF
    if tok.rule == "POS_INF":
        return INF
    return float(tok.value)


def tnode_wire(node):
    from pharmpy.internals.parse import AttrToken, AttrTree
    if isinstance(node, AttrToken):
        return [_TOK_K.get(str(node.rule), "other"), str(node.rule), str(node.value), [0, 1], 1]
    assert isinstance(node, AttrTree)
    rule = str(node.rule)
    if rule in ("low", "init", "up"):
        toks = list(node.children)
        if len(toks) != 1 or not isinstance(toks[0], AttrToken):
            raise RuntimeError(f"unexpected shape of {rule} subtree: {node!r}")
        return [rule, str(toks[0].rule), str(node), val_wire(tok_val(toks[0])), 1]
    if rule == "n":
        toks = [t for t in node.children]
        ints = [t for t in toks if str(t.rule) == "INT"]
        if len(ints) != 1:
            raise RuntimeError(f"unexpected shape of n subtree: {node!r}")
        return ["rep", " ".join(str(t.rule) for t in toks), str(node), [0, 1], int(ints[0].value)]
    return ["other", rule, str(node), [0, 1], 1]


def rec_wire(root):
    from pharmpy.internals.parse import AttrTree
    out = []
    for ch in root.children:
        if isinstance(ch, AttrTree) and str(ch.rule) == "theta":
            out.append(["item", [tnode_wire(c) for c in ch.children]])
        else:
            w = tnode_wire(ch)
            w[0] = "other"
            out.append(["tok", w])
    return out


def drec_wire(root):
    """children of the root of a diagonal $OMEGA/$SIGMA record"""
    from pharmpy.internals.parse import AttrTree
    out = []
    for ch in root.children:
        if isinstance(ch, AttrTree) and str(ch.rule) == "diag_item":
            out.append(["item", [tnode_wire(c) for c in ch.children]])
        elif isinstance(ch, AttrTree) and str(ch.rule) == "diagonal":
            w = tnode_wire(ch)
            w[0] = "other"
            out.append(["diagonal", w])
        else:
            w = tnode_wire(ch)
            w[0] = "other"
            out.append(["tok", w])
    return out


def brec_wire(root):
    """children of the root of a BLOCK(n) $OMEGA/$SIGMA record: `omega` subtrees are items, the `block` subtree and the
    FIX / WS tokens on the header keep their kind, everything else is `other`"""
    from pharmpy.internals.parse import AttrToken, AttrTree
    out = []
    for ch in root.children:
        if isinstance(ch, AttrTree) and str(ch.rule) == "omega":
            out.append(["item", [tnode_wire(c) for c in ch.children]])
        else:
            w = tnode_wire(ch)
            if isinstance(ch, AttrTree) and str(ch.rule) == "block":
                w[0] = "block"
            elif isinstance(ch, AttrToken) and str(ch.rule) in ("FIX", "WS"):
                pass
            else:
                w[0] = "other"
            out.append(["tok", w])
    return out


def block_raw_values(inits, size, sd, corr):
    """the values OmegaRecord.update spells for a non-CHOLESKY BLOCK(n): the same float operations in the same order"""
    import numpy as np
    from pharmpy.internals.math import flattened_to_symmetric
    A = flattened_to_symmetric(list(inits))
    if corr:
        for i in range(size):
            for j in range(size):
                if i != j:
                    A[i, j] = A[i, j] / (math.sqrt(A[i, i]) * math.sqrt(A[j, j]))
    if sd:
        np.fill_diagonal(A, A.diagonal() ** 0.5)
    return list(A[np.tril_indices_from(A)])


def block_update_args(rec, newcov, size, sd, corr, newfix):
    """what the Lean `updBlock` takes: Python's spellings of the written values, the new and the old record-scale
    values (same float operations as OmegaRecord.update: to_record_scale of the new parameters and of self.parse())"""
    written = []
    for node in rec.root.subtrees("omega"):
        n = int(str(node.subtree("n").leaf("INT"))) if node.find("n") else 1
        written += [float(str(node.subtree("init")))] * n
    ws = [oparam_wire(v, False)[1] for v in written]
    news = [oparam_wire(v, newfix) for v in block_raw_values(newcov, size, sd, corr)]
    old_inits = rec.parse()[0][1]
    olds = [val_wire(float(v)) for v in block_raw_values(old_inits, size, sd, corr)] if len(old_inits) == len(newcov) else []
    return ws, news, olds


def oparam_wire(raw, fix):
    raw = float(raw)
    s = str(int(raw)) if raw.is_integer() else str(raw)
    return [val_wire(raw), s, bool(fix)]


def norm(x):
    """ints -> strings so that wire forms compare equal to parsed driver answers."""
    if isinstance(x, (list, tuple)):
        return [norm(y) for y in x]
    if isinstance(x, bool):
        return "true" if x else "false"
    return str(x)


def format_number(x):
    """theta_record.format_number (copied: it is what the Param spelling handed to the model must be)"""
    if not math.isinf(x) and int(x) == x:
        return str(int(x))
    return str(x)


def param_wire(init, lower, upper, fix):
    return [val_wire(init), str(init), val_wire(lower), format_number(lower), val_wire(upper), format_number(upper),
            bool(fix)]


# ------------------------------------------------------------------ spellings

def spell(rng, v: float) -> str:
    """a NONMEM spelling of the float v (exactly v when read by float())"""
    if v == int(v) and abs(v) < 1e6:
        i = int(v)
        forms = [str(i), f"{i}.", f"{i}.0", f"{i}.00"]
        if i != 0 and i % 10 == 0:
            m, e = i, 0
            while m % 10 == 0:
                m //= 10
                e += 1
            forms.append(f"{m}E{e}")
            forms.append(f"{m}e+{e}")
        if i > 0:
            forms.append(f"+{i}")
        s = rng.choice(forms)
    else:
        r = repr(v)
        forms = [r]
        if "e" not in r and "." in r:
            forms.append(r + "0")
            if r.startswith("0."):
                forms.append(r[1:])
            if r.startswith("-0."):
                forms.append("-" + r[2:])
            mant = r.replace(".", "").lstrip("-").lstrip("0")
            if mant and len(mant) <= 6:
                dec = len(r.split(".")[1])
                forms.append(("-" if v < 0 else "") + f"{mant}E-{dec}")
        s = rng.choice(forms)
    assert float(s) == v, (s, v)
    return s


NICE = [0.1, 0.2, 0.25, 0.5, 0.75, 1.0, 1.5, 2.0, 3.0, 4.0, 5.0, 7.5, 10.0, 20.0, 100.0, 0.01, 0.05, 0.3, 1e-3, 12.5]


def nice(rng) -> float:
    v = rng.choice(NICE)
    if rng.random() < 0.25:
        v = -v
    return v


def ws(rng, must=False) -> str:
    r = rng.random()
    if r < 0.55:
        return " " if must else ""
    if r < 0.85:
        return " "
    if r < 0.95:
        return "  "
    return "\t"


FIXW = ["FIX", "FIX", "FIXED", "FIXE"]


# ------------------------------------------------------------------ theta layouts

def gen_theta_item(rng, style: str, allow_bad=False):
    """One `theta` of theta_record.lark. Returns (text, meta) with meta = dict(n, init, lower, upper, fix, feats)."""
    feats = []
    form = rng.random()
    fix = rng.random() < 0.3
    if form < 0.3:
        # form 1: init [FIX]
        init = nice(rng)
        txt = spell(rng, init)
        if fix:
            txt += ws(rng, True) + rng.choice(FIXW)
        feats.append("form1")
        return txt, dict(n=1, init=init, lower=-INF, upper=INF, fix=fix, feats=feats)
    # parenthesised
    have_low = rng.random() < 0.7
    have_up = have_low and rng.random() < 0.5
    fix_inside = fix and rng.random() < 0.35
    init = nice(rng)
    if fix_inside and have_low:
        # FIX inside the parentheses requires all written bounds to equal the init
        lower = upper = init
        low_s = spell(rng, init)
        up_s = spell(rng, init)
        if not have_up:
            upper = INF
    else:
        lower, upper = -INF, INF
        low_s = up_s = None
        if have_low:
            r = rng.random()
            if r < 0.12:
                low_s = rng.choice(["-INF", "-inf", "-1000000", "-Inf"])
            else:
                lower = init - rng.choice([0.5, 1.0, 2.0, 10.0, 0.05, abs(init)])
                low_s = spell(rng, lower)
        if have_up:
            r = rng.random()
            if r < 0.12:
                up_s = rng.choice(["INF", "inf", "1000000"])
            else:
                upper = init + rng.choice([0.5, 1.0, 2.0, 10.0, 100.0, 0.05])
                up_s = spell(rng, upper)
    if init == 0 and not fix:
        init = 1.0
    init_s = spell(rng, init)
    if allow_bad and rng.random() < 0.5:
        bad = rng.choice(["low>init", "zero", "init=1e6", "fix-inside-bounds", "form4"])
        feats.append("bad:" + bad)
        if bad == "low>init" and have_low:
            low_s = spell(rng, init + 1)
        elif bad == "zero":
            init_s = "0"
            fix = False
            fix_inside = False
        elif bad == "init=1e6":
            init_s = "1000000"
        elif bad == "fix-inside-bounds" and have_low:
            low_s = spell(rng, init - 1)
            fix = fix_inside = True
        elif bad == "form4" and have_low:
            return f"({low_s},,{up_s or '5'})", dict(n=1, init=init, lower=lower, upper=upper, fix=False, feats=feats)
    fx = lambda: (rng.choice(FIXW) + " ") * rng.choice([1, 1, 1, 2])
    parts = ["(", ws(rng)]
    where = rng.choice(["first", "after_low", "after_init", "last"]) if fix_inside else None
    if where == "first":
        parts.append(fx())
        feats.append("fix-first")
    if have_low:
        parts.append(low_s)
        if where == "after_low":
            parts.append(" " + fx().rstrip())
            feats.append("fix-after-low")
        sep = "," if rng.random() < 0.9 else " "
        if sep == " ":
            feats.append("no-comma")
        parts += [ws(rng), sep, ws(rng)]
        if rng.random() < 0.06:
            parts.append("; inner\n ")
            feats.append("inner-comment")
    elif where == "after_low":
        where = "after_init"
    parts.append(init_s)
    if where == "after_init":
        parts.append(" " + fx().rstrip())
        feats.append("fix-after-init")
    if have_up:
        parts += [ws(rng), ",", ws(rng), up_s]
    elif have_low and rng.random() < 0.05:
        parts += [ws(rng), ","]
        feats.append("trailing-comma")
    if where == "last":
        parts.append(" " + fx().rstrip())
        feats.append("fix-last")
    parts += [ws(rng), ")"]
    n = 1
    if fix and not fix_inside:
        parts += [ws(rng), rng.choice(FIXW)]
        feats.append("fix-outside")
    elif rng.random() < 0.22 and not (have_low and not have_up):
        # (low,init)xn is rejected by the grammar although documented (finding F15 of C01): not generated
        n = rng.choice([2, 2, 3])
        parts.append(f"x{n}")
        feats.append("xn")
    if fix_inside:
        feats.append("fix-inside")
    feats.append("form2" + ("L" if have_low else "") + ("U" if have_up else ""))
    if low_s is not None and low_s.lstrip("-").upper() in ("INF", "1000000"):
        feats.append("neg-inf-token")
    if up_s is not None and up_s.upper() in ("INF", "1000000"):
        feats.append("pos-inf-token")
    return "".join(parts), dict(n=n, init=init, lower=lower, upper=upper, fix=fix, feats=feats)


def gen_theta_record(rng, nitems=None, named=False, allow_bad=False, allow_xn=True):
    """A whole `$THETA` record text (with the `$THETA` keyword) and the list of item metas."""
    k = nitems or rng.choice([1, 1, 2, 2, 3, 3, 4, 5])
    txt = "$THETA" + rng.choice([" ", "  ", "\n", " "])
    metas = []
    for i in range(k):
        for _ in range(20):
            it, meta = gen_theta_item(rng, "any", allow_bad=allow_bad and rng.random() < 0.2)
            if allow_xn or meta["n"] == 1:
                break
        metas.append(meta)
        txt += it
        r = rng.random()
        if named or r < 0.35:
            nm = f"TV{len(metas)}{rng.choice(['', 'A', '_X'])}"
            meta["comment"] = nm
            txt += rng.choice([" ; ", ";", "  ; "]) + nm + rng.choice(["", " [unit]", " more text"]) + "\n"
        elif r < 0.5:
            txt += " ;\n" if rng.random() < 0.5 else " ; 1st value\n"
            meta["comment"] = None
        elif r < 0.65:
            txt += "\n"
        else:
            txt += rng.choice([" ", "  ", " "])
    if not txt.endswith("\n"):
        txt = txt.rstrip(" ") + "\n"
    return txt, metas


# ------------------------------------------------------------------ omega / sigma layouts

VARW = ["VARIANCE", "VAR", "V", "VARIA"]
SDW = ["STANDARD", "SD", "S", "STAN"]
CORRW = ["CORRELATION", "CORR", "COR", "CORREL"]
COVW = ["COVARIANCE", "COV", "COVAR"]
BLOCKW = ["BLOCK", "BLOCK", "BLO", "BLOC"]
DIAGW = ["DIAGONAL", "DIAG", "DIA"]
SDS = [0.1, 0.2, 0.3, 0.5, 1.0, 1.5, 2.0, 0.25, 0.05]


def gen_diag_record(rng, key="$OMEGA", nitems=None, allow_xn=True, allow_zero_fix=True):
    """`$OMEGA [DIAGONAL(n)] v11 v22 ...` with FIX / SD / VAR options per item and (v)xn."""
    k = nitems or rng.choice([1, 1, 2, 2, 3, 4])
    lines_mode = rng.random() < 0.3
    body = []
    metas = []
    total = 0
    for i in range(k):
        sd = rng.random() < 0.2
        fix = rng.random() < 0.25
        s = rng.choice(SDS)
        raw = s if sd else round(s * s, 10)
        var = round(s * s, 10)
        if fix and allow_zero_fix and rng.random() < 0.15:
            raw = var = 0.0
        opts = []
        if fix:
            opts.append(rng.choice(FIXW))
        if sd:
            opts.append(rng.choice(SDW))
        elif rng.random() < 0.08:
            opts.append(rng.choice(VARW))
        rng.shuffle(opts)
        n = 1
        paren = bool(opts) and rng.random() < 0.4
        if allow_xn and rng.random() < 0.15:
            paren = True
            n = rng.choice([2, 2, 3])
        if paren:
            pre = [o for o in opts if rng.random() < 0.4]
            post = [o for o in opts if o not in pre]
            t = "(" + "".join(o + " " for o in pre) + spell(rng, raw) + "".join(" " + o for o in post) + ")"
            if n > 1:
                t += f"x{n}"
        else:
            t = spell(rng, raw) + "".join(" " + o for o in opts)
        feats = ["diag"] + (["sd"] if sd else []) + (["fix"] if fix else []) + (["xn"] if n > 1 else []) + (["paren"] if paren else [])
        meta = dict(n=n, var=var, fix=fix, sd=sd, feats=feats, comment=None)
        r = rng.random()
        mk_name = lambda: f"{'IIV' if key == '$OMEGA' else 'RUV'}_{rng.choice('ABCDEFGH')}{rng.randint(1, 99)}"
        if lines_mode and r < 0.8:
            # stand-alone comment lines between the items: the name comment on the line below the value, a note line
            # (identifier-like or not) after a named or an unnamed item, several of them; optional indentation
            ind = lambda: rng.choice(["", " ", "  ", "\t"])
            note = lambda: rng.choice(["; previous_value 0.4", ";old 0.3", "; 2nd value", ";", "; ---", "; was_fixed", ";; tried 0.5"])
            style = rng.choice(["below", "below", "named+note", "note", "note", "below+note", "plain"])
            if style == "below":
                nm = mk_name()
                meta["comment"] = nm
                t += rng.choice(["", " "]) + "\n" + ind() + rng.choice(["; ", ";", ";  "]) + nm + "\n"
            elif style == "named+note":
                nm = mk_name()
                meta["comment"] = nm
                t += f" ; {nm}\n" + ind() + note() + "\n"
            elif style == "note":
                t += "\n" + ind() + note() + "\n"
            elif style == "below+note":
                nm = mk_name()
                meta["comment"] = nm
                t += "\n" + ind() + f"; {nm}\n" + ind() + note() + "\n"
            else:
                t += "\n"
            feats.append("comment-lines:" + style)
            t += ind()
        elif r < 0.3:
            nm = mk_name()
            meta["comment"] = nm
            t += f" ; {nm}\n"
        elif r < 0.5:
            t += "\n"
        else:
            t += " "
        body.append(t)
        metas.append(meta)
        total += n
    head = key
    if rng.random() < 0.2:
        head += " " + rng.choice(DIAGW) + f"({total})"
    txt = head + rng.choice([" ", "  ", "\n"]) + "".join(body)
    if not txt.endswith("\n"):
        txt = txt.rstrip(" \t")
        if not txt.endswith("\n"):
            txt += "\n"
    return txt, metas


def gen_block_record(rng, key="$OMEGA", size=None, exact=True):
    """`$OMEGA BLOCK(n) [FIX] [SD|VAR] [CORR|COV] values...`; values such that the covariance matrix is
    positive definite and (when `exact`) square roots are exact decimals."""
    n = size or rng.choice([2, 2, 3])
    sds = [rng.choice(SDS) for _ in range(n)]
    corr = [[0.0] * n for _ in range(n)]
    for i in range(n):
        for j in range(i):
            corr[i][j] = rng.choice([0.0, 0.1, 0.2, -0.1, 0.25, 0.3, -0.2]) if n == 2 else rng.choice([0.0, 0.1, -0.1, 0.2])
    form_sd = rng.random() < 0.35
    form_corr = rng.random() < 0.35
    fix = rng.random() < 0.2
    vals = []
    for i in range(n):
        for j in range(i + 1):
            if i == j:
                vals.append(sds[i] if form_sd else round(sds[i] ** 2, 12))
            else:
                vals.append(corr[i][j] if form_corr else round(corr[i][j] * sds[i] * sds[j], 12))
    # FIX may be written on the record header (before or after BLOCK(n)) or be tied to one init:
    # `v FIX`, `(v FIX)`, `(FIX v)`; the scale options likewise
    fix_where = rng.choice(["header", "header", "before-block", "init", "paren-after", "paren-before"]) if fix else None
    sd_on_init = form_sd and rng.random() < 0.2
    pre, opts = [], []
    if fix_where == "header":
        opts.append(rng.choice(FIXW))
    elif fix_where == "before-block":
        pre.append(rng.choice(FIXW))
    if form_sd and not sd_on_init:
        (pre if rng.random() < 0.15 else opts).append(rng.choice(SDW))
    elif not form_sd and rng.random() < 0.1:
        opts.append(rng.choice(VARW))
    if form_corr:
        (pre if rng.random() < 0.15 else opts).append(rng.choice(CORRW))
    elif rng.random() < 0.1:
        opts.append(rng.choice(COVW))
    rng.shuffle(opts)
    head = f"{key}" + "".join(" " + o for o in pre) + f" {rng.choice(BLOCKW)}({n})" + "".join(" " + o for o in opts)
    nvals = len(vals)
    fix_at = rng.randrange(nvals) if fix_where in ("init", "paren-after", "paren-before") else None
    sd_at = rng.randrange(nvals) if sd_on_init else None
    if sd_at is not None and sd_at == fix_at:
        sd_at = (sd_at + 1) % nvals
    lines = []
    pos = 0
    names = []
    xn_used = False
    for i in range(n):
        row = []
        j = 0
        while j <= i:
            v = spell(rng, vals[pos])
            extra = []
            if pos == fix_at:
                extra.append(rng.choice(FIXW))
            if pos == sd_at:
                extra.append(rng.choice(SDW))
            rep = 1
            if not extra and j + 1 <= i and vals[pos + 1] == vals[pos] and (pos + 1) not in (fix_at, sd_at) and rng.random() < 0.5:
                rep = 2
            if rep > 1:
                row.append(f"({v})x{rep}")
                xn_used = True
            elif extra and fix_where == "paren-before" and pos == fix_at:
                row.append("(" + " ".join(extra) + " " + v + ")")
            elif extra and (fix_where == "paren-after" or rng.random() < 0.3):
                row.append("(" + v + " " + " ".join(extra) + ")")
            elif extra:
                row.append(v + " " + " ".join(extra))
            else:
                row.append(v if rng.random() < 0.92 else f"({v})")
            pos += rep
            j += rep
        line = " ".join(row)
        if rng.random() < 0.3:
            nm = f"{'IIV' if key == '$OMEGA' else 'RUV'}_{rng.choice('KLMNPQ')}{rng.randint(1, 99)}"
            names.append(nm)
            line += f" ; {nm}"
        lines.append(line)
    compact = rng.random() < 0.3 and not names
    txt = head + (" " + " ".join(lines) if compact else "\n" + "\n".join(lines)) + "\n"
    meta = dict(n=n, sds=sds, corr=corr, sd=form_sd, corrform=form_corr, fix=fix, vals=vals,
                feats=["block", f"size={n}"] + (["sd"] if form_sd else []) + (["corr"] if form_corr else []) + (["fix:" + fix_where] if fix else []) + (["xn"] if xn_used else []))
    return txt, meta
