"""C02 — Generated NONMEM code means what the transformed model means.

K   : Lean models (PharmpyModel/C02) vs the real code:
        lcs.diff / lcs._matrix                      (kind "lcs", and on the real statement lists of every history step)
        new_advan_trans, match_advanN, central_compartment, dosing_compartments, compartment_names,
        create_compartment_remap                    (kind "graph": builder-made graphs; kind "history": reached models)
      and the generated $SUBROUTINES / $MODEL text of every reached model vs the Lean decision.
T2  : harness/translate/c02_pkconv.py regenerates Generated/PkConv.lean (TRANS ladder, rename tables).
Mon : the property on the real code — for every reached model M: read_model_from_string(M.code) and
      write_model/read_model on disk denote the same model as M (parameters, random-variable structure,
      compartmental matrix, dosing, Y/F by exact evaluation at seeded rational points, compartments matched by
      NONMEM number); lcs.diff laws on the real function.
"""
from __future__ import annotations

import os
import random
import shutil

ID = "C02"
DRIVER = "drv_c02"
LEAN_TARGETS = ["PharmpyProofs.C02.Properties", "PharmpyProofs.C02.AdvanProperties", "PharmpyProofs.C02.RecordProperties",
                "PharmpyProofs.C02.DoseProperties", "PharmpyProofs.C02.ModelRecordProperties", "PharmpyProofs.C02.RateNameProperties", "drv_c02"]
PROPERTIES = ["PharmpyProofs/C02/Properties.lean", "PharmpyProofs/C02/AdvanProperties.lean", "PharmpyProofs/C02/RecordProperties.lean",
              "PharmpyProofs/C02/DoseProperties.lean", "PharmpyProofs/C02/ModelRecordProperties.lean",
              "PharmpyProofs/C02/RateNameProperties.lean"]
LEAN_SOURCES = ["PharmpyModel/Core/*.lean", "PharmpyModel/C02/*.lean", "PharmpyModel/C01/Rates.lean", "PharmpyModel/Generated/PkConv.lean",
                "PharmpyProofs/C02/*.lean", "Drivers/C02.lean"]
TIME_LIMIT = {"quick": 900, "thorough": 3000}
CASE_CPU_LIMIT = 120
RULE = ("three case kinds from one PRNG: (lcs) integer lists old/new, new derived from old by random insert/delete/replace "
        "or independent, lengths 0-14; (graph) compartmental systems built with CompartmentalSystemBuilder from the ADVAN "
        "shapes/transit chains mutated by random edge insertions/removals, 1-5 compartments, random dose placement, edge "
        "insertion order, rates, $PK statements and previous TRANS option; (history) start model in {pheno, moxo, "
        "create_basic_pk_model iv/oral, hand-written ADVAN1/3/4 TRANS1/3/4 models} followed by 1-4 public structural "
        "transformations, only the steps that succeed count. non-trivial = lists differ / graph has >= 2 compartments / "
        "at least one transformation succeeded; (branch) 2-3 sibling derivations (1-2 transformations each, mostly ones that change the "
        "number of compartments) from ONE parent object, parents mostly with an active numeric CMT data column; distinct = distinct case JSON; every run also contains the full "
        "product {absorption shape} x {lag time + bioavailability in either order} x {17 final transformations} (204 light histories; the 136 with a depot in the quick tier) and "
        "{9 start models read from files whose data carry CMT and/or RATE columns (zero / mixed)} x {7 column-rewriting transformations + one "
        "two-step walk}, written to disk and read back (72 histories), and 96 light histories enter general-linear/$DES state -> "
        "change compartments -> return to a specific ADVAN -> change compartments")
TRUSTED = [
    "Lean 4.33 kernel; axioms propext, Quot.sound, Classical.choice only (audited per theorem each run)",
    "hand-written models PharmpyModel/C02/{Lcs,Advan,PkConv}.lean tied to lcs.py/update.py/statements.py by the correspondence run",
    "translator harness/translate/c02_pkconv.py (Python ast -> Lean tables; refuses unknown shapes)",
    "pharmpy's own NONMEM parser as the NM-TRAN semantics of the generated text (subject of C01)",
    "sympy: xreplace and automatic canonicalisation preserve values; exact rational evaluation",
    "harness/corr/c02.py (generators, canonicalisation, semantic comparison of two models)",
    "PREDPP parameter names and TRANS availability written by hand in PharmpyModel/C02/PkConv.lean (pkNames, validTrans)",
]
ASSUMPTIONS = [
    "two models are compared by meaning: parameters by name, random variables by position, compartments by NONMEM number, "
    "expressions by exact evaluation at seeded rational points",
    "the 'elimination rate is a quotient of two symbols' test and nonlin/has_zero_order_inputs flags are taken from the real code",
    "graph-shape theorems assume the well-formedness predicate WF (no self loops, endpoints exist, some flow to output, no zero rates)",
]

TRANSFORMS = [
    ["set_first_order_absorption", {}], ["set_zero_order_absorption", {}], ["set_instantaneous_absorption", {}],
    ["set_seq_zo_fo_absorption", {}], ["add_peripheral_compartment", {}], ["remove_peripheral_compartment", {}],
    ["set_peripheral_compartments", {"n": 2}], ["set_peripheral_compartments", {"n": 1}],
    ["set_transit_compartments", {"n": 1}], ["set_transit_compartments", {"n": 2}], ["set_transit_compartments", {"n": 3}],
    ["set_transit_compartments", {"n": 0}], ["add_lag_time", {}], ["remove_lag_time", {}],
    ["set_michaelis_menten_elimination", {}], ["set_first_order_elimination", {}], ["set_zero_order_elimination", {}],
    ["set_mixed_mm_fo_elimination", {}], ["add_bioavailability", {}], ["remove_bioavailability", {}],
    ["set_ode_solver", {"solver": "LSODA"}], ["set_ode_solver", {"solver": "GL"}], ["set_proportional_error_model", {}],
    ["set_combined_error_model", {}], ["add_effect_compartment", {"expr": "linear"}], ["add_metabolite", {}],
]
COVOPS = [
    ["add_covariate_effect", {"parameter": "CL", "covariate": "APGR", "effect": "cat2"}],
    ["add_covariate_effect", {"parameter": "V", "covariate": "APGR", "effect": "cat2", "allow_nested": True}],
    ["add_covariate_effect", {"parameter": "CL", "covariate": "FA1", "effect": "cat"}],
    ["add_covariate_effect", {"parameter": "V", "covariate": "FA1", "effect": "cat2", "allow_nested": True}],
    ["add_covariate_effect", {"parameter": "CL", "covariate": "APGR", "effect": "cat"}],
    ["add_covariate_effect", {"parameter": "CL", "covariate": "WGT", "effect": "piece_lin", "allow_nested": True}],
    ["add_covariate_effect", {"parameter": "V", "covariate": "WGT", "effect": "exp", "allow_nested": True}],
    ["add_covariate_effect", {"parameter": "CL", "covariate": "WGT", "effect": "pow", "allow_nested": True}],
    ["add_covariate_effect", {"parameter": "KA", "covariate": "APGR", "effect": "cat2"}],
    ["add_covariate_effect", {"parameter": "VC", "covariate": "APGR", "effect": "cat2", "allow_nested": True}],
    ["add_covariate_effect", {"parameter": "CL", "covariate": "SEX", "effect": "cat2"}],
    ["add_covariate_effect", {"parameter": "V", "covariate": "VISI", "effect": "cat2"}],
    ["remove_covariate_effect", {"parameter": "CL", "covariate": "APGR"}],
    ["remove_covariate_effect", {"parameter": "V", "covariate": "APGR"}],
    ["remove_covariate_effect", {"parameter": "CL", "covariate": "WGT"}],
    ["remove_covariate_effect", {"parameter": "V", "covariate": "WGT"}],
    ["remove_covariate_effect", {"parameter": "CL", "covariate": "FA1"}],
    ["remove_covariate_effect", {"parameter": "V", "covariate": "FA1"}],
    ["add_iov", {"occ": "FA1"}], ["add_iov", {"occ": "FA1", "list_of_parameters": ["CL"]}],
    ["add_iov", {"occ": "APGR", "list_of_parameters": ["V"]}], ["add_iov", {"occ": "VISI", "list_of_parameters": ["V"]}],
    ["remove_iov", {}], ["remove_iiv", {"to_remove": ["CL"]}], ["remove_iiv", {}],
    ["add_iiv", {"list_of_parameters": "KA", "expression": "exp"}], ["add_iiv", {"list_of_parameters": "MAT", "expression": "exp"}],
    ["set_proportional_error_model", {}], ["set_combined_error_model", {}], ["set_additive_error_model", {}],
    ["add_lag_time", {}], ["remove_lag_time", {}], ["add_peripheral_compartment", {}], ["remove_peripheral_compartment", {}],
    ["set_first_order_absorption", {}], ["set_instantaneous_absorption", {}],
]
STARTS = ["pheno", "moxo", "basic_iv", "basic_oral", "a1t1", "a3t3", "a3t1", "a4t1", "a3t4", "a4t4", "a2t2",
          "cmt_a1t2", "cmt_a2t2", "cmt_a4t4", "rate0_a1t2", "rate0_a2t2", "cmtrate0_a2t2", "cmtrate0_a1t2", "ratemix_a1t2",
          "cmtratemix_a2t2"]
CMT_STARTS = ["cmt_a1t2", "cmt_a2t2", "cmt_a4t4", "rate0_a1t2", "rate0_a2t2", "cmtrate0_a2t2", "cmtrate0_a1t2", "ratemix_a1t2",
              "cmtratemix_a2t2"]       # models read from files whose data carry CMT and/or RATE columns
DATA_FINALS = [["set_zero_order_absorption", {}], ["set_seq_zo_fo_absorption", {}], ["set_first_order_absorption", {}],
               ["set_instantaneous_absorption", {}], ["set_transit_compartments", {"n": 1}], ["add_peripheral_compartment", {}],
               ["set_michaelis_menten_elimination", {}]]
COUNT_CHANGING = [["set_transit_compartments", {"n": 1}], ["set_transit_compartments", {"n": 2}], ["add_peripheral_compartment", {}],
                  ["remove_peripheral_compartment", {}], ["set_first_order_absorption", {}], ["set_instantaneous_absorption", {}],
                  ["set_zero_order_absorption", {}], ["set_seq_zo_fo_absorption", {}], ["set_peripheral_compartments", {"n": 2}]]

RATES = ["K", "KA", "CL/V", "Q/V2", "K12", "K21", "THETA(1)", "CL/V1", "Q/V1", "K23", "K32", "CL/V2", "KTR"]
COMPNAMES = ["CENTRAL", "DEPOT", "PERIPHERAL1", "PERIPHERAL2", "TRANSIT1", "EFFECT", "METABOLITE"]
BEFORE_POOL = [["CL", "THETA(1)"], ["V", "THETA(2)"], ["KA", "THETA(3)"], ["KA", "CL*THETA(3)/V"], ["K", "CL/V"],
               ["TVKA", "CL"], ["KA", "TVKA*2"], ["KTR", "V + 1"], ["V2", "THETA(4)"], ["Q", "THETA(5)"]]
SHAPES = {
    "a1": (["CENTRAL"], [["CENTRAL", "OUTPUT", "CL/V"]], ["CENTRAL"]),
    "a2": (["DEPOT", "CENTRAL"], [["DEPOT", "CENTRAL", "KA"], ["CENTRAL", "OUTPUT", "CL/V"]], ["DEPOT"]),
    "a3": (["CENTRAL", "PERIPHERAL1"], [["CENTRAL", "OUTPUT", "CL/V1"], ["CENTRAL", "PERIPHERAL1", "Q/V1"],
                                        ["PERIPHERAL1", "CENTRAL", "Q/V2"]], ["CENTRAL"]),
    "a4": (["DEPOT", "CENTRAL", "PERIPHERAL1"], [["DEPOT", "CENTRAL", "KA"], ["CENTRAL", "OUTPUT", "K"],
                                                 ["CENTRAL", "PERIPHERAL1", "K23"], ["PERIPHERAL1", "CENTRAL", "K32"]], ["DEPOT"]),
    "a11": (["CENTRAL", "PERIPHERAL1", "PERIPHERAL2"],
            [["CENTRAL", "OUTPUT", "K"], ["CENTRAL", "PERIPHERAL1", "K12"], ["PERIPHERAL1", "CENTRAL", "K21"],
             ["CENTRAL", "PERIPHERAL2", "K23"], ["PERIPHERAL2", "CENTRAL", "K32"]], ["CENTRAL"]),
    "a12": (["DEPOT", "CENTRAL", "PERIPHERAL1", "PERIPHERAL2"],
            [["DEPOT", "CENTRAL", "KA"], ["CENTRAL", "OUTPUT", "K"], ["CENTRAL", "PERIPHERAL1", "K12"],
             ["PERIPHERAL1", "CENTRAL", "K21"], ["CENTRAL", "PERIPHERAL2", "K23"], ["PERIPHERAL2", "CENTRAL", "K32"]], ["DEPOT"]),
    "tr": (["TRANSIT1", "DEPOT", "CENTRAL"], [["TRANSIT1", "DEPOT", "KTR"], ["DEPOT", "CENTRAL", "KA"],
                                             ["CENTRAL", "OUTPUT", "CL/V"]], ["TRANSIT1"]),
    "met": (["CENTRAL", "METABOLITE"], [["CENTRAL", "METABOLITE", "K12"], ["METABOLITE", "OUTPUT", "K"],
                                        ["CENTRAL", "OUTPUT", "CL/V"]], ["CENTRAL"]),
}


def budget(tier):
    return int(os.environ.get("VERIF_BUDGET", 0)) or {"quick": 160, "thorough": 3000}[tier]


# ---------------------------------------------------------------- generation

def gen_lcs(rng):
    n = rng.randint(0, 12)
    alpha = rng.choice([2, 3, 5, 9])
    old = [rng.randrange(alpha) for _ in range(n)]
    if rng.random() < 0.25:
        new = [rng.randrange(alpha) for _ in range(rng.randint(0, 12))]
    else:
        new = list(old)
        for _ in range(rng.randint(0, 4)):
            r = rng.random()
            if r < 0.4 or not new:
                new.insert(rng.randint(0, len(new)), rng.randrange(alpha))
            elif r < 0.75:
                del new[rng.randrange(len(new))]
            else:
                new[rng.randrange(len(new))] = rng.randrange(alpha)
    return {"kind": "lcs", "old": old, "new": new, "seed": rng.randrange(1 << 30)}


def gen_graph(rng):
    if rng.random() < 0.7:
        comps, flows, doses = SHAPES[rng.choice(sorted(SHAPES))]
        comps, flows, doses = list(comps), [list(f) for f in flows], list(doses)
        for _ in range(rng.choice([0, 0, 1, 1, 2, 3])):
            r = rng.random()
            if r < 0.45:
                a = rng.choice(comps)
                b = rng.choice(comps + ["OUTPUT"])
                if a != b and not any(f[0] == a and f[1] == b for f in flows):
                    flows.append([a, b, rng.choice(RATES)])
            elif r < 0.7 and len(flows) > 1:
                del flows[rng.randrange(len(flows))]
            elif r < 0.85:
                extra = [c for c in COMPNAMES if c not in comps]
                if extra and len(comps) < 5:
                    c = rng.choice(extra)
                    comps.append(c)
                    other = rng.choice(comps[:-1])
                    if rng.random() < 0.5:
                        flows.append([other, c, rng.choice(RATES)])
                    if rng.random() < 0.7:
                        flows.append([c, rng.choice([other, "OUTPUT"]), rng.choice(RATES)])
            else:
                doses = [rng.choice(comps)] if rng.random() < 0.7 else rng.sample(comps, min(2, len(comps)))
    else:
        n = rng.randint(1, 4)
        comps = rng.sample(COMPNAMES, n)
        flows = []
        for a in comps:
            for b in comps + ["OUTPUT"]:
                if a != b and rng.random() < 0.3:
                    flows.append([a, b, rng.choice(RATES)])
        doses = rng.sample(comps, rng.choice([1, 1, 1, 2]) if n > 1 else 1)
        if rng.random() < 0.1:
            doses = []
    rng.shuffle(flows)
    if flows and rng.random() < 0.05:
        flows[rng.randrange(len(flows))][2] = "VM/(KM + A_CENTRAL(t))"
    inputs = [rng.choice(comps)] if rng.random() < 0.05 else []
    before = [list(b) for b in BEFORE_POOL if rng.random() < 0.35]
    oldtrans = rng.choice([None, None, "TRANS1", "TRANS2", "TRANS3", "TRANS4", "TRANS5", "TRANS6"])
    return {"kind": "graph", "comps": comps, "flows": flows, "doses": doses, "inputs": inputs, "before": before,
            "oldtrans": oldtrans, "seed": rng.randrange(1 << 30)}


def gen_history(rng):
    start = rng.choice(STARTS)
    ops = [rng.choice(TRANSFORMS) for _ in range(rng.randint(1, 4))]
    return {"kind": "history", "start": start, "ops": ops, "seed": rng.randrange(1 << 30)}


ABS_SHAPES = [[], [["set_first_order_absorption", {}]], [["set_seq_zo_fo_absorption", {}]], [["set_zero_order_absorption", {}]],
              [["set_first_order_absorption", {}], ["set_transit_compartments", {"n": 1}]],
              [["set_first_order_absorption", {}], ["set_transit_compartments", {"n": 2}]]]
DOSE_ATTRS = [[], [["add_lag_time", {}]], [["add_bioavailability", {}]], [["add_lag_time", {}], ["add_bioavailability", {}]],
              [["add_bioavailability", {}], ["add_lag_time", {}]]]
FINALS = [["set_zero_order_absorption", {}], ["set_first_order_absorption", {}], ["set_instantaneous_absorption", {}],
          ["set_seq_zo_fo_absorption", {}], ["set_transit_compartments", {"n": 0}], ["set_transit_compartments", {"n": 1}],
          ["set_transit_compartments", {"n": 2}], ["add_peripheral_compartment", {}], ["remove_peripheral_compartment", {}],
          ["set_michaelis_menten_elimination", {}], ["set_mixed_mm_fo_elimination", {}], ["set_zero_order_elimination", {}],
          ["set_first_order_elimination", {}], ["remove_lag_time", {}], ["remove_bioavailability", {}], ["add_lag_time", {}],
          ["add_bioavailability", {}]]


def gen_dose_history(rng):
    """absorption shape x dosing attributes (lag time, bioavailability, in either order) x 1-2 further transformations."""
    start = rng.choice(["pheno", "a2t2", "a1t1", "a4t4", "a3t4", "moxo", "basic_oral", "basic_iv"] + CMT_STARTS)
    ops = list(rng.choice(ABS_SHAPES)) + list(rng.choice(DOSE_ATTRS)) + [rng.choice(FINALS) for _ in range(rng.randint(1, 2))]
    return {"kind": "history", "start": start, "ops": ops, "seed": rng.randrange(1 << 30)}


def dose_product_cases(tier="thorough"):
    """Deterministic part of every run: every absorption shape with a depot, carrying BOTH a lag time and a
    bioavailability (either order), followed by every final transformation; checked after the last step only."""
    out = []
    n = 0
    for shape in (ABS_SHAPES if tier == "thorough" else [sh for sh in ABS_SHAPES if sh and sh != ABS_SHAPES[3]]):
        for attrs in DOSE_ATTRS[3:]:
            for fin in FINALS:
                n += 1
                out.append({"kind": "history", "start": "pheno" if n % 2 else "a1t1", "ops": list(shape) + list(attrs) + [fin],
                            "light": True, "seed": 100000 + n})
    return out


def data_product_cases():
    """Deterministic part of every run: every start model whose data files carry CMT/RATE columns x every transformation that
    rewrites those columns (one and two steps), written to disk and read back."""
    out = []
    n = 0
    for st in CMT_STARTS:
        for fin in DATA_FINALS:
            n += 1
            out.append({"kind": "history", "start": st, "ops": [fin], "seed": 200000 + n})
        n += 1
        out.append({"kind": "history", "start": st, "ops": [DATA_FINALS[0], DATA_FINALS[2]], "seed": 200000 + n})
    return out


def general_state_product_cases():
    """Deterministic part of every run: enter the general-linear / $DES state, change the compartments there, return to a
    specific ADVAN, change the compartments again (light: state monitor after every step, code checked after the last)."""
    enters = [([["set_michaelis_menten_elimination", {}]], ["set_first_order_elimination", {}]),
              ([["set_mixed_mm_fo_elimination", {}]], ["set_first_order_elimination", {}]),
              ([["set_zero_order_elimination", {}]], ["set_first_order_elimination", {}]),
              ([["set_first_order_absorption", {}], ["set_transit_compartments", {"n": 1}]], ["set_transit_compartments", {"n": 0}]),
              ([["set_first_order_absorption", {}], ["set_transit_compartments", {"n": 2}]], ["set_transit_compartments", {"n": 0}]),
              ([["set_peripheral_compartments", {"n": 3}]], ["set_peripheral_compartments", {"n": 1}])]
    changes = [["set_first_order_absorption", {}], ["set_instantaneous_absorption", {}], ["add_peripheral_compartment", {}],
               ["remove_peripheral_compartment", {}]]
    out = []
    n = 0
    for enter, back in enters:
        for c1 in changes:
            for c2 in changes:
                n += 1
                out.append({"kind": "history", "start": "pheno" if n % 3 else "a2t2", "ops": list(enter) + [c1, back, c2],
                            "light": True, "seed": 300000 + n})
    return out


def gen_cov_history(rng):
    """Statement-level histories: covariate effects (incl. ones printed as several logical IFs), IOV/IIV, error models,
    interleaved with structural steps; code is generated after every step."""
    start = rng.choice(["pheno", "pheno", "a2t2", "a1t1", "a4t4", "moxo", "cmt_a2t2"])
    ops = [rng.choice(COVOPS) for _ in range(rng.randint(2, 5))]
    return {"kind": "history", "start": start, "ops": ops, "seed": rng.randrange(1 << 30)}


SYMS = ["TVCL", "TVV", "CL", "V", "KA", "S1", "CLAPGR", "VWGT", "X1", "X2"]
EXPRS = ["THETA(1)*WGT", "THETA(2)", "TVCL*EXP(ETA(1))", "TVV*EXP(ETA(2))", "CL/V", "V*(1 + THETA(3))", "THETA(4)*(WGT - 1.3)",
         "EXP(THETA(5)*(WGT - 1.3))", "CL*CLAPGR", "1", "X1 + 2*X2", "THETA(6)**2"]


def gen_pw(rng):
    """A Piecewise: several atomic values without else (printed as a RUN of logical IFs), or shapes printed as one node."""
    cov = rng.choice(["APGR", "FA1", "VISI"])
    k = rng.randint(2, 4)
    kind = rng.choice(["multi-if", "multi-if", "multi-if", "block-else", "block-expr", "single", "nested-bool"])
    if kind == "nested-bool":
        a, b, c = f"Eq(FA1, {rng.randint(0, 1)})", f"Eq(APGR, {rng.randint(1, 4)})", f"Eq(VISI, {rng.randint(1, 3)})"
        cond = rng.choice([f"And({a}, Or({b}, {c}))", f"Or({a}, And({b}, {c}))", f"Not(Or({a}, {b}))", f"And({a}, {b}, {c})",
                           f"Or(And({a}, {b}), And(Not({a}), {c}))", f"And(Or({a}, {b}), Or({b}, {c}))", f"And({a}, APGR < 5)"])
        return f"Piecewise(({rng.choice(['1', 'THETA(3)'])}, {cond}), ({rng.choice(['0', 'THETA(4)', 'CL'])}, True))"
    vals = [rng.choice(["1", "THETA(%d)" % rng.randint(1, 9), "CL", "0"]) for _ in range(k)]
    if kind == "block-expr":
        vals = ["THETA(%d)*WGT" % rng.randint(1, 9) for _ in range(k)]
    if kind == "single":
        k = 1
    pairs = [[vals[i], f"Eq({cov}, {i + 1})"] for i in range(k)]
    if kind == "block-else":
        pairs.append([rng.choice(["1", "THETA(9)"]), "True"])
    return "Piecewise(" + ", ".join(f"({v}, {c})" for v, c in pairs) + ")"


def gen_record(rng):
    lines = []
    for _ in range(rng.randint(1, 7)):
        r = rng.random()
        if r < 0.5:
            lines.append(f"{rng.choice(SYMS)} = {rng.choice(EXPRS)}")
        elif r < 0.65:
            lines.append(f"IF (APGR.LT.{rng.randint(2, 9)}) {rng.choice(SYMS)} = {rng.choice(EXPRS)}")
        elif r < 0.75:
            a, b = rng.choice(SYMS), rng.choice(SYMS)
            lines.append(f"IF (FA1.EQ.1) THEN\n    {a} = {rng.choice(EXPRS)}\n    {b} = {rng.choice(EXPRS)}\nELSE\n    {a} = {rng.choice(EXPRS)}\nEND IF")
        elif r < 0.9:
            lines.append(f"; comment {rng.randint(0, 99)}")
        else:
            lines.append("")
    edits = []
    for _ in range(rng.randint(2, 4)):
        step = []
        for _ in range(rng.randint(1, 3)):
            r = rng.random()
            if r < 0.45:
                step.append(["ins", rng.randint(0, 8), rng.choice(SYMS), gen_pw(rng) if rng.random() < 0.7 else rng.choice(EXPRS)])
            elif r < 0.65:
                step.append(["del", rng.randint(0, 8)])
            elif r < 0.85:
                step.append(["renumber", rng.randint(1, 6)])      # THETA(k) -> THETA(k+1) for k >= n, as removing/adding a theta does
            else:
                step.append(["mod", rng.randint(0, 8), rng.choice(EXPRS)])
        edits.append(step)
    return {"kind": "record", "text": "\n".join(lines), "edits": edits, "seed": rng.randrange(1 << 30)}


def gen_branch(rng):
    """Several derivations from ONE parent object (siblings, as a model search makes them)."""
    start = rng.choice(CMT_STARTS) if rng.random() < 0.7 else rng.choice(STARTS)
    prefix = [rng.choice(TRANSFORMS)] if rng.random() < 0.3 else []
    pool = COUNT_CHANGING if rng.random() < 0.8 else TRANSFORMS
    branches = [[rng.choice(pool) for _ in range(rng.choice([1, 1, 2]))] for _ in range(rng.randint(2, 3))]
    return {"kind": "branch", "start": start, "prefix": prefix, "branches": branches, "seed": rng.randrange(1 << 30)}


def gen_cases(rng, n, tier):
    out = []
    for i in range(n):
        r = rng.random()
        if r < 0.35:
            out.append(gen_lcs(rng))
        elif r < 0.60:
            out.append(gen_graph(rng))
        elif r < 0.72:
            out.append(gen_record(rng))
        elif r < 0.78:
            out.append(gen_history(rng))
        elif r < 0.86:
            out.append(gen_cov_history(rng))
        elif r < 0.94:
            out.append(gen_dose_history(rng))
        else:
            out.append(gen_branch(rng))
    return out + dose_product_cases(tier) + data_product_cases() + general_state_product_cases()


def corpus_cases():
    return [
        {"kind": "lcs", "old": [1, 2], "new": [2, 1], "seed": 1},
        {"kind": "lcs", "old": [1], "new": [1, 1], "seed": 2},
        # match_advan4 accepts a graph that is not the ADVAN4 shape (Lean: advan4_unsound_witness)
        {"kind": "graph", "comps": ["CENTRAL", "DEPOT", "EFFECT"],
         "flows": [["DEPOT", "CENTRAL", "KA"], ["CENTRAL", "DEPOT", "K21"], ["EFFECT", "OUTPUT", "K"], ["CENTRAL", "OUTPUT", "CL/V"]],
         "doses": ["DEPOT"], "inputs": [], "before": [], "oldtrans": "TRANS1", "seed": 3},
        {"kind": "graph", "comps": ["DEPOT", "CENTRAL"], "flows": [["DEPOT", "CENTRAL", "KA"], ["CENTRAL", "OUTPUT", "CL/V"]],
         "doses": ["DEPOT"], "inputs": [], "before": [["CL", "THETA(1)"], ["V", "THETA(2)"], ["KA", "CL*THETA(3)/V"]],
         "oldtrans": None, "seed": 4},
        {"kind": "history", "start": "pheno", "ops": [["set_first_order_absorption", {}], ["add_peripheral_compartment", {}],
                                                        ["add_peripheral_compartment", {}], ["set_transit_compartments", {"n": 2}]], "seed": 5},
        {"kind": "history", "start": "a3t3", "ops": [["add_peripheral_compartment", {}], ["set_first_order_absorption", {}]], "seed": 6},
        {"kind": "history", "start": "moxo", "ops": [["add_peripheral_compartment", {}], ["set_michaelis_menten_elimination", {}],
                                                       ["add_lag_time", {}]], "seed": 7},
        {"kind": "history", "start": "basic_oral", "ops": [["set_zero_order_absorption", {}], ["add_bioavailability", {}],
                                                             ["set_transit_compartments", {"n": 1}]], "seed": 8},
        # one walk per rename-table neighbourhood (ADVAN3<->4, 3<->11, 11<->12, 4<->12, 3->1, 2<->4) for TRANS4 and TRANS1/3
        {"kind": "history", "start": "a3t4", "ops": [["set_first_order_absorption", {}], ["add_peripheral_compartment", {}],
                                                       ["remove_peripheral_compartment", {}], ["set_instantaneous_absorption", {}]], "seed": 9},
        {"kind": "history", "start": "a3t4", "ops": [["add_peripheral_compartment", {}], ["set_first_order_absorption", {}],
                                                       ["set_instantaneous_absorption", {}], ["remove_peripheral_compartment", {}]], "seed": 10},
        {"kind": "history", "start": "a3t4", "ops": [["remove_peripheral_compartment", {}], ["set_first_order_absorption", {}],
                                                       ["add_peripheral_compartment", {}]], "seed": 11},
        {"kind": "history", "start": "a4t4", "ops": [["set_instantaneous_absorption", {}], ["set_first_order_absorption", {}],
                                                       ["remove_peripheral_compartment", {}]], "seed": 12},
        {"kind": "history", "start": "a3t1", "ops": [["set_first_order_absorption", {}], ["set_instantaneous_absorption", {}],
                                                       ["remove_peripheral_compartment", {}]], "seed": 13},
        {"kind": "history", "start": "a3t3", "ops": [["set_first_order_absorption", {}], ["set_instantaneous_absorption", {}]], "seed": 14},
        # siblings derived from one parent whose dataset has an active CMT column
        {"kind": "branch", "start": "cmt_a2t2", "prefix": [],
         "branches": [[["set_transit_compartments", {"n": 1}]], [["add_peripheral_compartment", {}]], [["set_instantaneous_absorption", {}]]], "seed": 15},
        {"kind": "branch", "start": "cmt_a4t4", "prefix": [],
         "branches": [[["set_instantaneous_absorption", {}]], [["set_transit_compartments", {"n": 2}]], [["remove_peripheral_compartment", {}]]], "seed": 16},
        {"kind": "branch", "start": "cmt_a1t2", "prefix": [["set_first_order_absorption", {}]],
         "branches": [[["set_transit_compartments", {"n": 1}]], [["add_peripheral_compartment", {}], ["set_zero_order_absorption", {}]]], "seed": 17},
        {"kind": "history", "start": "cmt_a2t2", "ops": [["set_transit_compartments", {"n": 2}], ["add_peripheral_compartment", {}],
                                                           ["set_zero_order_absorption", {}], ["set_first_order_absorption", {}]], "seed": 18},
        # a record whose statements are printed as runs of logical IFs, edited repeatedly
        {"kind": "record", "text": "TVCL = THETA(1)*WGT\n; clearance\nCL = TVCL*EXP(ETA(1))\n\nV = THETA(2)",
         "edits": [[["ins", 1, "CLAPGR", "Piecewise((1, Eq(APGR, 1)), (THETA(3), Eq(APGR, 2)), (THETA(4), Eq(APGR, 3)))"]],
                   [["renumber", 2]], [["del", 1]]], "seed": 19},
        # fixed a4b7c03: an Or of three categories was printed with two operands
        {"kind": "record", "text": "X1 = 0\nCL = THETA(1)",
         "edits": [[["ins", 2, "X1", "Piecewise((THETA(8), Eq(VISI, 1)), (1, Eq(VISI, 2)), (1, Eq(VISI, 3)), (1, Eq(VISI, 4)))"]],
                   [["ins", 3, "X2", "Piecewise((2, Or(Eq(APGR, 1), Eq(APGR, 2), Eq(APGR, 3), Eq(FA1, 1))), (3, True))"]]], "seed": 21},
        # known: And(A, Or(B, C)) printed without parentheses
        {"kind": "record", "text": "X1 = 0\nCL = THETA(1)",
         "edits": [[["ins", 2, "X1", "Piecewise((1, And(Eq(FA1, 1), Or(Eq(APGR, 1), Eq(APGR, 2)))), (2, True))"]],
                   [["ins", 3, "X2", "Piecewise((1, Or(Eq(FA1, 1), And(Eq(APGR, 1), Eq(VISI, 2)))), (2, True))"]]], "seed": 22},
        # fixed 6008bd6: eleven or more compartments, flow from a two-digit compartment to the output (K110 ambiguous -> K11T0)
        {"kind": "history", "start": "pheno", "light": True, "ops": [["set_transit_compartments", {"n": 10}], ["add_peripheral_compartment", {}]], "seed": 23},
        {"kind": "history", "start": "pheno", "light": True, "ops": [["set_transit_compartments", {"n": 9}], ["add_peripheral_compartment", {}]], "seed": 24},
        {"kind": "history", "start": "pheno", "light": True, "ops": [["set_transit_compartments", {"n": 12}]], "seed": 25},
        {"kind": "history", "start": "basic_oral", "light": True, "ops": [["set_transit_compartments", {"n": 11}], ["add_peripheral_compartment", {}],
                                                                       ["add_peripheral_compartment", {}]], "seed": 26},
        {"kind": "history", "start": "pheno", "ops": [["add_iov", {"occ": "FA1"}], ["add_covariate_effect", {"parameter": "CL", "covariate": "WGT", "effect": "exp", "allow_nested": True}],
                                                        ["remove_iov", {}]], "seed": 20},
    ]


def shrink(case):
    if case["kind"] == "history":
        ops = case["ops"]
        for i in range(len(ops)):
            if len(ops) > 1:
                c = dict(case)
                c["ops"] = ops[:i] + ops[i + 1:]
                yield c
    elif case["kind"] == "branch":
        br = case["branches"]
        if case["prefix"]:
            c = dict(case)
            c["prefix"] = []
            yield c
        for i in range(len(br)):
            if len(br) > 1:
                c = dict(case)
                c["branches"] = br[:i] + br[i + 1:]
                yield c
        for i in range(len(br)):
            for j in range(len(br[i])):
                if len(br[i]) > 1:
                    c = dict(case)
                    c["branches"] = br[:i] + [br[i][:j] + br[i][j + 1:]] + br[i + 1:]
                    yield c
    elif case["kind"] == "record":
        ed = case["edits"]
        for i in range(len(ed)):
            if len(ed) > 1:
                c = dict(case)
                c["edits"] = ed[:i] + ed[i + 1:]
                yield c
        for i in range(len(ed)):
            for j in range(len(ed[i])):
                if len(ed[i]) > 1:
                    c = dict(case)
                    c["edits"] = ed[:i] + [ed[i][:j] + ed[i][j + 1:]] + ed[i + 1:]
                    yield c
        lines = case["text"].split("\n")
        if "THEN" not in case["text"]:
            for i in range(len(lines)):
                if len(lines) > 1:
                    c = dict(case)
                    c["text"] = "\n".join(lines[:i] + lines[i + 1:])
                    yield c
    elif case["kind"] == "lcs":
        for key in ("old", "new"):
            for i in range(len(case[key])):
                c = dict(case)
                c[key] = case[key][:i] + case[key][i + 1:]
                yield c
    elif case["kind"] == "graph":
        for i in range(len(case["flows"])):
            c = dict(case)
            c["flows"] = case["flows"][:i] + case["flows"][i + 1:]
            yield c
        for i in range(len(case["before"])):
            c = dict(case)
            c["before"] = case["before"][:i] + case["before"][i + 1:]
            yield c


# ---------------------------------------------------------------- real-code side

_START_CACHE = {}

CODE_TMPL = """$PROBLEM start model {name}
$DATA {data} IGNORE=@
$INPUT ID TIME AMT WGT APGR DV FA1 FA2
$SUBROUTINE {advan} {trans}
$PK
{pk}
$ERROR
Y = F + F*EPS(1)
$THETA {thetas}
$OMEGA 0.03
$OMEGA 0.03
$SIGMA 0.013
$ESTIMATION METHOD=1 INTERACTION
"""
CUSTOM = {
    "a1t1": ("ADVAN1", "TRANS1", "K = THETA(1)*EXP(ETA(1))\nV = THETA(2)*EXP(ETA(2))\nS1 = V", "(0,0.005) (0,1)"),
    "a2t2": ("ADVAN2", "TRANS2", "CL = THETA(1)*EXP(ETA(1))\nV = THETA(2)*EXP(ETA(2))\nKA = THETA(3)\nS2 = V", "(0,0.005) (0,1) (0,0.5)"),
    "a3t3": ("ADVAN3", "TRANS3", "CL = THETA(1)*EXP(ETA(1))\nV = THETA(2)*EXP(ETA(2))\nQ = THETA(3)\nVSS = V + THETA(4)\nS1 = V",
             "(0,0.005) (0,1) (0,0.01) (0,2)"),
    "a3t1": ("ADVAN3", "TRANS1", "K = THETA(1)*EXP(ETA(1))\nV = THETA(2)*EXP(ETA(2))\nK12 = THETA(3)\nK21 = THETA(4)\nS1 = V",
             "(0,0.005) (0,1) (0,0.01) (0,0.02)"),
    "a3t4": ("ADVAN3", "TRANS4", "CL = THETA(1)*EXP(ETA(1))\nV1 = THETA(2)*EXP(ETA(2))\nQ = THETA(3)\nV2 = THETA(4)\nS1 = V1",
             "(0,0.005) (0,1) (0,0.01) (0,2)"),
    "a4t1": ("ADVAN4", "TRANS1", "K = THETA(1)*EXP(ETA(1))\nV = THETA(2)*EXP(ETA(2))\nK23 = THETA(3)\nK32 = THETA(4)\nKA = THETA(5)\nS2 = V",
             "(0,0.005) (0,1) (0,0.01) (0,0.02) (0,0.5)"),
    "cmt_a1t2": ("ADVAN1", "TRANS2", "CL = THETA(1)*EXP(ETA(1))\nV = THETA(2)*EXP(ETA(2))\nS1 = V", "(0,0.005) (0,1)"),
    "cmt_a2t2": ("ADVAN2", "TRANS2", "CL = THETA(1)*EXP(ETA(1))\nV = THETA(2)*EXP(ETA(2))\nKA = THETA(3)\nS2 = V", "(0,0.005) (0,1) (0,0.5)"),
    "cmt_a4t4": ("ADVAN4", "TRANS4", "CL = THETA(1)*EXP(ETA(1))\nV2 = THETA(2)*EXP(ETA(2))\nQ = THETA(3)\nV3 = THETA(4)\nKA = THETA(5)\nS2 = V2",
                 "(0,0.005) (0,1) (0,0.01) (0,2) (0,0.5)"),
    "a4t4": ("ADVAN4", "TRANS4", "CL = THETA(1)*EXP(ETA(1))\nV2 = THETA(2)*EXP(ETA(2))\nQ = THETA(3)\nV3 = THETA(4)\nKA = THETA(5)\nS2 = V2",
             "(0,0.005) (0,1) (0,0.01) (0,2) (0,0.5)"),
}


def worker_init():
    global sympy, pm, U, lcs, exprconv, nm_parser, Statements, Assignment, Compartment, CompartmentalSystem
    global CompartmentalSystemBuilder, Bolus, output, Expr, REPO_SRC, scratch_root, AppliedUndef
    import sympy  # noqa
    from sympy.core.function import AppliedUndef  # noqa
    import pharmpy.modeling as pm  # noqa
    from pharmpy.basic import Expr  # noqa
    from pharmpy.internals.sequence import lcs  # noqa
    from pharmpy.model import (Assignment, Bolus, Compartment, CompartmentalSystem,  # noqa
                               CompartmentalSystemBuilder, Statements, output)
    from pharmpy.model.external.nonmem import nmtran_parser as nm_parser  # noqa
    from pharmpy.model.external.nonmem import update as U  # noqa
    from harness.common import exprconv  # noqa
    global create_record, code_record_mod
    from pharmpy.model.external.nonmem.records.factory import create_record  # noqa
    from pharmpy.model.external.nonmem.records import code_record as code_record_mod  # noqa
    from harness.common.paths import REPO_SRC, scratch_root  # noqa


def start_model(name):
    """A start model with a DataFrame of its own (a case must not see data another case's bug wrote into)."""
    m = _start_model(name)
    if m.dataset is not None:
        # keep the datainfo (and with it datainfo.path: the model stays "read from this file")
        m = m.replace(dataset=m.dataset.copy(), datainfo=m.datainfo)
    return m


def _start_model(name):
    if name in _START_CACHE:
        return _START_CACHE[name]
    if name in ("pheno", "moxo"):
        m = pm.load_example_model(name)
    elif name == "basic_iv":
        m = pm.convert_model(pm.create_basic_pk_model("iv"), "nonmem")
    elif name == "basic_oral":
        m = pm.convert_model(pm.create_basic_pk_model("oral"), "nonmem")
    elif name.split("_")[0] in ("cmt", "rate0", "cmtrate0", "ratemix", "cmtratemix"):
        # model READ FROM FILES whose data already carry dosing columns: an active numeric CMT column (doses into
        # compartment 1, observations of the central compartment), a RATE column (all zero = bolus data carrying a RATE
        # column, or mixed: a real infusion rate on some dose records), or both
        cols, base = name.split("_")
        advan, trans, pk, thetas = CUSTOM["cmt_" + base]
        d = scratch_root() / "c02-starts"
        d.mkdir(parents=True, exist_ok=True)
        obs = 1 if advan == "ADVAN1" else 2
        has_cmt, has_rate, mixed = "cmt" in cols, "rate" in cols, "mix" in cols
        header = ["ID", "TIME", "AMT", "DV"] + (["CMT"] if has_cmt else []) + (["RATE"] if has_rate else []) + ["WGT"]
        lines = [",".join(header)]
        for i in (1, 2, 3):
            for t in (0, 1, 2, 4, 8):
                dose = t == 0
                row = [i, t, 100 if dose else 0, 0 if dose else round(10.0 / t + i, 3)]
                if has_cmt:
                    row.append(1 if dose else obs)
                if has_rate:
                    row.append(50 if (dose and mixed and i != 2) else 0)
                row.append(70 + i)
                lines.append(",".join(str(x) for x in row))
        (d / f"{name}.csv").write_text("\n".join(lines) + "\n")
        code = CODE_TMPL.format(name=name, data=f"{name}.csv", advan=advan, trans=trans, pk=pk, thetas=thetas)
        code = code.replace("$INPUT ID TIME AMT WGT APGR DV FA1 FA2", "$INPUT " + " ".join(header))
        (d / f"{name}.mod").write_text(code)
        m = pm.read_model(d / f"{name}.mod")
    else:
        advan, trans, pk, thetas = CUSTOM[name]
        data = REPO_SRC / "pharmpy" / "internals" / "example_models" / "pheno.dta"
        m = pm.read_model_from_string(CODE_TMPL.format(name=name, data=data, advan=advan, trans=trans, pk=pk, thetas=thetas))
    _START_CACHE[name] = m
    return m


# ---- wire forms

def comp_ids(cs):
    comps = [n for n in cs._g.nodes if n != output]
    names = sorted(c.name for c in comps)
    return {nm: i + 1 for i, nm in enumerate(names)}, comps


def graph_wire(cs):
    g = cs._g
    ids, comps = comp_ids(cs)

    def nid(n):
        return 0 if n == output else ids[n.name]
    succ = [[nid(u), nid(v)] for u in g.nodes for v in g.successors(u)]
    pred = [[nid(p), nid(v)] for v in g.nodes for p in g.predecessors(v)]
    zero = [[nid(u), nid(v)] for u, v in g.edges if g.edges[u, v]["rate"] == 0]
    doses = sorted(ids[c.name] for c in comps if c.doses)
    inputs = sorted(ids[c.name] for c in comps if c.input != 0)
    special = sorted(ids[c.name] for c in comps if c.name in ("METABOLITE", "EFFECT", "COMPLEX", "RESPONSE"))
    central = ids.get("CENTRAL", "none")
    return [len(comps), succ, pred, zero, doses, inputs, special, central], ids


def stmts_wire(before):
    out = []
    for s in before:
        if isinstance(s, Assignment):
            try:
                e = exprconv.to_sexp(s.expression)
            except exprconv.Unsupported:
                e = 0       # only the symbols matter to the dep_assigns loop: they are attached below
            for extra in sorted(set(str(x) for x in s.rhs_symbols) - exprconv.sexp_syms(e)):
                e = ["also", e, extra]
            out.append(["=", str(s.symbol), e])
    return out


def reserved_pairs(drv, cs, before, ids):
    """Ask the Lean model for the dep_assigns test of every compartment-to-compartment flow."""
    w = stmts_wire(before)
    out = []
    g = cs._g
    for u, v in g.edges:
        if u == output:
            continue
        try:
            rate = exprconv.to_sexp(g.edges[u, v]["rate"])
        except exprconv.Unsupported:
            continue
        a = drv.ask(["reserved", w, rate])
        if a == "true":
            out.append([ids[u.name], 0 if v == output else ids[v.name]])
    return out


class _Stub:
    """Duck-typed model for new_advan_trans: a control stream and statements."""

    def __init__(self, control_stream, statements):
        class _I:
            pass
        self.internals = _I()
        self.internals.control_stream = control_stream
        self.statements = statements


def _call(f, *a):
    try:
        return f(*a)
    except ValueError:
        return ["err", "ValueError"]


def _b(x):
    if isinstance(x, list):
        return x
    return "true" if x else "false"


def advan_k(drv, cs, statements, control_stream, k, tags, label):
    """Compare the Lean ADVAN/TRANS decision, numbering and graph queries with the real functions."""
    if len({n.name for n in cs._g.nodes if n != output}) < len(cs._g.nodes) - 1:
        tags.append("duplicate-compartment-names")      # compartments are identified by name on the wire
        return None
    gw, ids = graph_wire(cs)
    before = statements.before_odes
    stub = _Stub(control_stream, statements)
    try:
        r_advan, r_trans, r_nonlin, r_zo = U.new_advan_trans(stub)
        real = r_advan
    except ValueError:
        real, r_trans, r_nonlin, r_zo = ["err", "ValueError"], None, None, None
    except IndexError:
        tags.append("new_advan_trans-raises-IndexError")
        return None
    except Exception as e:  # the ladder cannot be evaluated on this graph at all (e.g. assert in a query)
        tags.append(f"new_advan_trans-raises-{type(e).__name__}")
        return None
    if r_nonlin is None:
        r_nonlin = U.is_nonlinear_odes(stub)
        r_zo = U.has_zero_order_inputs(stub)
    res = reserved_pairs(drv, cs, before, ids)
    ans = drv.ask(["advan", gw, bool(r_nonlin), bool(r_zo), res])
    if ans and ans[0] == "err" and ans[1] == "bad-op":
        raise RuntimeError(f"driver rejected {gw}")
    m_advan, m_order, m_ms, m_cen, m_dos = ans
    subs0 = control_stream.get_records("SUBROUTINES")
    oldtrans0 = subs0[0].get_option_startswith("TRANS") if subs0 else None
    if isinstance(real, list) and not isinstance(m_advan, list) and oldtrans0 is None and not r_nonlin and m_cen == "none":
        # the ADVAN ladder succeeded; the ValueError comes from `odes.central_compartment` in the oldtrans-is-None branch
        tags.append("trans-branch-ValueError-no-central")
        m_advan = real
    if m_advan != real:
        k.append(f"{label}: new_advan_trans advan: model {m_advan} code {real} graph {gw} reserved {res}")
    # individual tests
    st = statements
    reals = [_b(_call(U.match_advan1, cs)), _b(_call(U.match_advan2, st)), _b(_call(U.match_advan3, cs)),
             _b(_call(U.match_advan4, st)), _b(_call(U.match_advan11, cs)), _b(_call(U.match_advan12, st))]
    if m_ms != reals:
        k.append(f"{label}: match_advanN: model {m_ms} code {reals} graph {gw}")
    # numbering and graph queries
    order = [str(ids[n]) for n in cs.compartment_names]
    if m_order != order:
        k.append(f"{label}: compartment_names: model {m_order} code {order} graph {gw}")
    try:
        cen = str(ids[cs.central_compartment.name])
    except ValueError:
        cen = "none"
    if m_cen != cen:
        k.append(f"{label}: central_compartment: model {m_cen} code {cen} graph {gw}")
    try:
        dos = [str(ids[c.name]) for c in cs.dosing_compartments]
    except ValueError:
        dos = "none"
    if m_dos != dos:
        k.append(f"{label}: dosing_compartments: model {m_dos} code {dos} graph {gw}")
    # TRANS ladder
    if not isinstance(real, list):
        subs = control_stream.get_records("SUBROUTINES")
        oldtrans = subs[0].get_option_startswith("TRANS") if subs else None
        quot = False
        if oldtrans is None and not r_nonlin:
            num, den = cs.get_flow(cs.central_compartment, output).as_numer_denom()
            quot = bool(num.is_symbol() and den.is_symbol())
        m_trans = drv.ask(["trans", oldtrans if oldtrans else "none", real, bool(r_nonlin), quot])
        if m_trans != (r_trans if r_trans else "none"):
            k.append(f"{label}: new_advan_trans trans: model {m_trans} code {r_trans} (old {oldtrans}, {real}, quot {quot})")
        tags.append(f"advan={real}")
        tags.append(f"trans:{oldtrans}->{r_trans}")
    else:
        tags.append("advan=ValueError")
    return real, r_trans, r_nonlin, r_zo, ids


# ---- kind lcs

def lcs_len(a, b):
    t = [[0] * (len(b) + 1) for _ in range(len(a) + 1)]
    for i in range(len(a) - 1, -1, -1):
        for j in range(len(b) - 1, -1, -1):
            t[i][j] = t[i + 1][j + 1] + 1 if a[i] == b[j] else max(t[i + 1][j], t[i][j + 1])
    return t[0][0]


def check_diff(drv, old, new, k, mon, label):
    """old/new: lists of ints.  real lcs.diff vs Lean, and the diff laws on the real output."""
    real = [[int(op), int(v)] for op, v in lcs.diff(old, new)]
    if drv is not None:
        m = drv.ask(["diff", old, new])
        if [[int(a), int(b)] for a, b in m] != real:
            k.append(f"{label}: diff({old},{new}): model {m} code {real}")
    if [v for op, v in real if op != 1] != old:
        mon.append({"cls": "lcs-not-old", "what": f"diff({old},{new}) without insertions is not old: {real}"})
    if [v for op, v in real if op != -1] != new:
        mon.append({"cls": "lcs-not-new", "what": f"diff({old},{new}) without deletions is not new: {real}"})
    if any(op not in (-1, 0, 1) for op, _ in real):
        mon.append({"cls": "lcs-bad-op", "what": f"diff({old},{new}) has an op outside -1,0,1"})
    if sum(1 for op, _ in real if op == 0) != lcs_len(old, new):
        mon.append({"cls": "lcs-not-longest", "what": f"diff({old},{new}) keeps {sum(1 for op, _ in real if op == 0)} "
                    f"elements, the longest common subsequence has {lcs_len(old, new)}"})
    p = 0
    while p < len(old) and p < len(new) and old[p] == new[p]:
        p += 1
    if any(op != 0 for op, _ in real[:p]):
        mon.append({"cls": "lcs-prefix-touched", "what": f"diff({old},{new}) has a non-zero op on the common prefix"})


def run_lcs(case, drv):
    k, mon, tags = [], [], []
    old, new = case["old"], case["new"]
    check_diff(drv, old, new, k, mon, "lcs")
    if drv is not None:
        real_m = [[str(x) for x in row] for row in lcs._matrix(old, new)]
        m = drv.ask(["matrix", old, new])
        if m != real_m:
            k.append(f"_matrix({old},{new}): model {m} code {real_m}")
    tags += ["kind=lcs", f"lcs-len-old={len(old)}", "lcs-equal" if old == new else "lcs-differ"]
    return {"k": k, "mon": mon, "tags": tags, "nontrivial": old != new}


# ---- kind graph

def build_cs(case):
    cb = CompartmentalSystemBuilder()
    comps = {}
    for nm in case["comps"]:
        kw = {}
        if nm in case["doses"]:
            kw["doses"] = (Bolus.create("AMT"),)
        if nm in case["inputs"]:
            kw["input"] = Expr.symbol("R1")
        comps[nm] = Compartment.create(nm, **kw)
        cb.add_compartment(comps[nm])
    for a, b, rate in case["flows"]:
        cb.add_flow(comps[a], output if b == "OUTPUT" else comps[b], rate)
    return CompartmentalSystem(cb)


_CS_CACHE = {}


def stub_stream(oldtrans):
    if oldtrans not in _CS_CACHE:
        code = "$PROBLEM x\n$SUBROUTINE ADVAN1" + (f" {oldtrans}" if oldtrans else "") + "\n$PK\nK=1\n"
        _CS_CACHE[oldtrans] = nm_parser.NMTranParser().parse(code)
    return _CS_CACHE[oldtrans]


def shape_of(cs, ids, advan):
    """Independent reference: is the graph the PREDPP shape of `advan` with the numbering compartment_names gives?"""
    names = cs.compartment_names
    g = cs._g
    edges = set()
    for u, v in g.edges:
        edges.add((names.index(u.name) + 1, 0 if v == output else names.index(v.name) + 1))
    want = {
        "ADVAN1": {(1, 0)}, "ADVAN2": {(1, 2), (2, 0)}, "ADVAN3": {(1, 0), (1, 2), (2, 1)},
        "ADVAN4": {(1, 2), (2, 0), (2, 3), (3, 2)}, "ADVAN11": {(1, 0), (1, 2), (2, 1), (1, 3), (3, 1)},
        "ADVAN12": {(1, 2), (2, 0), (2, 3), (3, 2), (2, 4), (4, 2)},
    }.get(advan)
    if want is None:
        return True
    return edges == want


def run_graph(case, drv):
    k, mon, tags = [], [], ["kind=graph", f"ncomp={len(case['comps'])}"]
    cs = build_cs(case)
    before = [Assignment.create(a, b) for a, b in case["before"]]
    st = Statements(before + [cs])
    ids = None
    if drv is not None:
        r = advan_k(drv, cs, st, stub_stream(case["oldtrans"]), k, tags, "graph")
        if r is not None:
            real, _, nonlin, zo, ids = r
            # monitor on the real decision: the chosen ADVAN must be the shape PREDPP implements
            g = cs._g
            wf = (all(u != v for u, v in g.edges) and any(v == output for _, v in g.edges)
                  and all(g.edges[e]["rate"] != 0 for e in g.edges))
            if wf and not isinstance(real, list) and not nonlin and not zo and not shape_of(cs, ids, real):
                try:
                    d = cs.dosing_compartments[0]
                    outs = cs.get_compartment_outflows(d)
                    back = len(outs) == 1 and outs[0][0] != output and cs.get_flow(outs[0][0], d) != 0
                except ValueError:
                    back = False
                cls = "advan-shape-backflow-into-depot" if back else "advan-shape-extra-peripheral-flow"
                mon.append({"cls": cls, "what": f"new_advan_trans chooses {real} for a graph that is not the {real} shape: "
                            f"compartments {cs.compartment_names}, flows {[(u.name, getattr(v, 'name', 'OUTPUT')) for u, v in g.edges]}"})
    # create_compartment_remap on two random name->number maps
    rng = random.Random(case["seed"])
    names = list(case["comps"])
    oldmap = {nm: i + 1 for i, nm in enumerate(rng.sample(names, len(names)))}
    newnames = [n for n in names if rng.random() < 0.8] + ["NEWCOMP"]
    rng.shuffle(newnames)
    newmap = {nm: i + 1 for i, nm in enumerate(newnames)}
    real_remap = sorted([str(a), str(b)] for a, b in U.create_compartment_remap(oldmap, newmap).items())
    if len(set(b for _, b in real_remap)) != len(real_remap):
        mon.append({"cls": "remap-not-injective", "what": f"create_compartment_remap({oldmap},{newmap}) = {real_remap}"})
    if drv is not None:
        m = drv.ask(["remap", [[a, b] for a, b in oldmap.items()], [[a, b] for a, b in newmap.items()]])
        if sorted(m) != real_remap:
            k.append(f"create_compartment_remap({oldmap},{newmap}): model {m} code {real_remap}")
        nm = drv.ask(["newmap", cs.compartment_names])
        real_nm = [[a, str(b)] for a, b in U.new_compartmental_map(cs).items()]
        if nm != real_nm:
            k.append(f"new_compartmental_map: model {nm} code {real_nm}")
    return {"k": k, "mon": mon, "tags": tags, "nontrivial": len(case["comps"]) >= 2}


# ---- kind history: semantic comparison of two models

def _sy(e):
    return exprconv.to_sympy(e)


def _env(before):
    env = {}
    for s in before:
        if not isinstance(s, Assignment):
            continue
        env[_sy(s.symbol)] = _sy(s.expression).xreplace(env)
    return env


def meaning(model):
    """The denotation compared by the monitor (compartments by NONMEM number)."""
    st = model.statements
    cs = st.ode_system
    env = _env(st.before_odes)
    out = {"ode": None}
    amt = {}
    if cs is not None:
        names = cs.compartment_names
        for i, nm in enumerate(names):
            c = cs.find_compartment(nm)
            amt[_sy(c.amount)] = sympy.Symbol(f"AMOUNT{i + 1}")
        cm = cs.compartmental_matrix
        n = len(names)
        mat = [[_sy(cm[i, j]).xreplace(amt).xreplace(env) for j in range(n)] for i in range(n)]
        zo = [_sy(z).xreplace(amt).xreplace(env) for z in cs.zero_order_inputs]
        dosing = []
        for i, nm in enumerate(names):
            c = cs.find_compartment(nm)
            ds = []
            for d in c.doses:
                kind = type(d).__name__
                ent = [kind, _sy(d.amount).xreplace(env), d.admid]
                if kind == "Infusion":
                    ent.append(_sy(d.rate).xreplace(env) if d.rate is not None else None)
                    ent.append(_sy(d.duration).xreplace(env) if d.duration is not None else None)
                ds.append(ent)
            dosing.append({"doses": ds, "lag": _sy(c.lag_time).xreplace(env), "bio": _sy(c.bioavailability).xreplace(env)})
        out["ode"] = {"n": n, "mat": mat, "zo": zo, "dosing": dosing}
    env2 = dict(env)
    after = {}
    for s in (st.after_odes if cs is not None else []):
        if isinstance(s, Assignment):
            v = _sy(s.expression).xreplace(amt).xreplace(env2)
            env2[_sy(s.symbol)] = v
            after[str(s.symbol)] = v
    if cs is None:
        after = {str(kk): v for kk, v in env.items()}
    import re as _re
    out["reserved"] = {str(kk): v for kk, v in env.items() if _re.fullmatch(r"(F|ALAG|D|R)\d+", str(kk))}
    out["after"] = after
    out["dvs"] = sorted(str(d) for d in model.dependent_variables)
    rvpars = set(model.random_variables.parameter_names)
    out["thetas"] = [(p.name, p.init, p.lower, p.upper, p.fix) for p in model.parameters if p.name not in rvpars]
    out["vpars"] = {p.name: (p.init, p.fix) for p in model.parameters if p.name in rvpars}
    rvs = []
    inits = model.parameters.inits
    for dist in model.random_variables:
        var = sympy.Matrix(_sy(dist.variance)) if len(dist.names) > 1 else sympy.Matrix([[_sy(dist.variance)]])
        try:
            vals = [[float(var[i, j].xreplace({sympy.Symbol(kk): v for kk, v in inits.items()})) for j in range(var.shape[1])]
                    for i in range(var.shape[0])]
        except Exception:
            vals = None
        rvs.append({"names": list(dist.names), "level": dist.level, "var": vals,
                    "syms": [[str(var[i, j]) for j in range(var.shape[1])] for i in range(var.shape[0])]})
    out["rvs"] = rvs
    return out


def _close(a, b):
    if a == b:
        return True
    try:
        return abs(a - b) <= 1e-9 * max(abs(a), abs(b))
    except Exception:
        return False


def _candidates(*exprs):
    """Constants each symbol is compared with (categories of covariates, cut points)."""
    cand = {}
    for e in exprs:
        for rel in e.atoms(sympy.core.relational.Relational):
            l, r = rel.lhs, rel.rhs
            if l.is_Symbol and r.is_number:
                cand.setdefault(l, set()).add(r)
            elif r.is_Symbol and l.is_number:
                cand.setdefault(r, set()).add(l)
    return {k: sorted(v, key=float) for k, v in cand.items()}


def _point(rng, syms, cand):
    sub = {}
    for x in syms:
        if x in cand and rng.random() < 0.85:
            c = rng.choice(cand[x])
            sub[x] = sympy.nsimplify(c) + rng.choice([0, 0, 0, 0, 0, 0, 0, 0, 1, -1])
        else:
            sub[x] = sympy.Rational(rng.randint(1, 40), rng.randint(1, 9))
    return sub


def _eq(a, b, rng):
    """Equality of two expressions at seeded rational points; symbols that are compared with constants (covariate
    categories) take those constants and their neighbours (exact where the value is rational, otherwise 30-digit
    evaluation; no symbolic simplification)."""
    if a is None or b is None:
        return a is None and b is None
    if a == b:
        return True
    syms = sorted(a.free_symbols | b.free_symbols, key=str)
    funcs = sorted(a.atoms(AppliedUndef) | b.atoms(AppliedUndef), key=str)
    cand = _candidates(a, b)
    # a Float literal (e.g. a covariate median) carries 15 digits: exact comparison only without them
    tol = 1e-9 if (a.has(sympy.Float) or b.has(sympy.Float)) else 1e-18
    need = 2 + min(10, 2 * sum(len(v) for v in cand.values()))
    good = 0
    for _ in range(need * 3):
        sub = _point(rng, syms, cand)
        sub.update({f: sympy.Rational(rng.randint(1, 40), rng.randint(1, 9)) for f in funcs})
        try:
            va, vb = a.xreplace(sub), b.xreplace(sub)
            if va.has(sympy.nan, sympy.zoo, sympy.oo) or vb.has(sympy.nan, sympy.zoo, sympy.oo):
                continue   # no branch of a piecewise without else applies: the in-memory value is undefined there
            if va == vb:
                good += 1
            else:
                d = complex(sympy.N(va - vb, 30))
                scale = max(1.0, abs(complex(sympy.N(va, 30))))
                if abs(d) <= tol * scale:
                    good += 1
                else:
                    return False
        except Exception:
            continue
        if good >= need:
            return True
    return True if good else a.free_symbols == b.free_symbols


def compare_meaning(A, B, rng, route, with_dataset):
    """A: meaning of the in-memory model, B: meaning of the model read back. Returns monitor failures."""
    bad = []

    def fail(cls, what):
        bad.append({"cls": f"{route}-{cls}", "what": what})
    # structural parameters (thetas) by position in record order; names of unnamed thetas are positional
    ren = {}
    if len(A["thetas"]) != len(B["thetas"]):
        fail("parameter-set", f"{len(A['thetas'])} thetas in memory {[t[0] for t in A['thetas']]}, "
             f"{len(B['thetas'])} in the code {[t[0] for t in B['thetas']]}")
    else:
        for ta, tb in zip(A["thetas"], B["thetas"]):
            ren[sympy.Symbol(tb[0])] = sympy.Symbol(ta[0])
            if route != "twin" and not (_close(ta[1], tb[1]) and _close(ta[2], tb[2]) and _close(ta[3], tb[3]) and ta[4] == tb[4]):
                fail("parameter-value", f"theta {ta[0]}: in memory {ta[1:]}, in code {tb[0]} {tb[1:]}")
                break
    # random variables: structure by position
    # (NONMEM lists all ETAs before all EPSs; the relative order of an eta block and an epsilon block is not meaning)
    ga = [r for r in A["rvs"] if r["level"] != "RUV"] + [r for r in A["rvs"] if r["level"] == "RUV"]
    gb = [r for r in B["rvs"] if r["level"] != "RUV"] + [r for r in B["rvs"] if r["level"] == "RUV"]
    sa = [(len(r["names"]), r["level"] == "RUV") for r in ga]
    sb = [(len(r["names"]), r["level"] == "RUV") for r in gb]
    if route == "twin" and sa != sb:
        return bad      # NONMEM-only dummies (DUMMYETA) are not part of the format-neutral twin: nothing to align
    elif sa != sb:
        fail("rv-structure", f"random variable blocks differ: in memory {sa}, in code {sb}")
    else:
        for ra, rb in zip(ga, gb):
            for x, y in zip(ra["names"], rb["names"]):
                ren[sympy.Symbol(y)] = sympy.Symbol(x)
            if route != "twin" and ra["var"] is not None and rb["var"] is not None:
                if not all(_close(x, y) for rx, ry in zip(ra["var"], rb["var"]) for x, y in zip(rx, ry)):
                    fail("rv-variance", f"variance of {ra['names']}: in memory {ra['var']}, in code {rb['var']}")
                    break
            for rx, ry in zip(ra["syms"], rb["syms"]):
                for x, y in zip(rx, ry):
                    if x in A["vpars"] and y in B["vpars"] and A["vpars"][x][1] != B["vpars"][y][1]:
                        fail("rv-fix", f"variance parameter {x}: fix {A['vpars'][x][1]} in memory, {B['vpars'][y][1]} in code")
    # ODE system
    oa, ob = A["ode"], B["ode"]
    if (oa is None) != (ob is None):
        fail("ode-presence", "one model has an ODE system, the other has none")
    elif oa is not None:
        if oa["n"] != ob["n"]:
            fail("ode-size", f"{oa['n']} compartments in memory, {ob['n']} in the code")
        else:
            n = oa["n"]
            amts = [sympy.Symbol(f"AMOUNT{j + 1}") for j in range(n)]
            for i in range(n):
                va = sum((oa["mat"][i][j] * amts[j] for j in range(n)), oa["zo"][i])
                vb = sum((ob["mat"][i][j] * amts[j] for j in range(n)), ob["zo"][i]).xreplace(ren)
                if not _eq(va, vb, rng):
                    fail("ode-rhs", f"dA({i + 1})/dt: in memory {va}, in code {vb}")
                    break
            # PREDPP reading of the text, independent of pharmpy's reader: Fn / ALAGn assigned in $PK are the bioavailability /
            # lag of compartment n (1 / 0 when not assigned); they must be the attributes of the object's dosing compartments
            for i in range(n):
                da = oa["dosing"][i]
                if not da["doses"] or route == "twin":
                    continue
                tf = B["reserved"].get(f"F{i + 1}", sympy.Integer(1)).xreplace(ren)
                tl = B["reserved"].get(f"ALAG{i + 1}", sympy.Integer(0)).xreplace(ren)
                if not _eq(da["bio"], tf, rng):
                    fail("reserved-bioavailability", f"$PK gives compartment {i + 1} the bioavailability F{i + 1} = {tf}, "
                         f"the object's compartment has {da['bio']}")
                if not _eq(da["lag"], tl, rng):
                    fail("reserved-lag-time", f"$PK gives compartment {i + 1} the lag ALAG{i + 1} = {tl}, the object's compartment has {da['lag']}")
                for d in da["doses"]:
                    if d[0] == "Infusion" and d[4] is not None and f"D{i + 1}" in B["reserved"]:
                        if not _eq(d[4], B["reserved"][f"D{i + 1}"].xreplace(ren), rng):
                            fail("reserved-duration", f"$PK D{i + 1} = {B['reserved'][f'D{i + 1}']}, the object's infusion lasts {d[4]}")
            for i in range(n):
                da, db = oa["dosing"][i], ob["dosing"][i]
                if not da["doses"] and not db["doses"]:
                    continue  # lag time / bioavailability of a compartment that receives no dose mean nothing
                if not with_dataset and not db["doses"]:
                    continue  # without the dataset pharmpy cannot see CMT-routed doses
                if not _eq(da["lag"], db["lag"].xreplace(ren), rng):
                    fail("lag-time", f"lag time of compartment {i + 1}: in memory {da['lag']}, in code {db['lag']}")
                if not _eq(da["bio"], db["bio"].xreplace(ren), rng):
                    fail("bioavailability", f"bioavailability of compartment {i + 1}: in memory {da['bio']}, in code {db['bio']}")
                if with_dataset:
                    ka = [(d[0], d[2]) for d in da["doses"]]
                    kb = [(d[0], d[2]) for d in db["doses"]]
                    if ka != kb:
                        fail("dose-routing", f"doses of compartment {i + 1}: in memory {da['doses']}, in code {db['doses']}")
                    else:
                        for x, y in zip(da["doses"], db["doses"]):
                            if not all(_eq(p, q.xreplace(ren) if q is not None else None, rng)
                                       for p, q in zip([x[1]] + x[3:], [y[1]] + y[3:])):
                                fail("dose-parameters", f"dose of compartment {i + 1}: in memory {x}, in code {y}")
                                break
    # dependent variables and common error-model symbols
    multi = len(A["dvs"]) > 1   # pharmpy's reader does not reconstruct several DVs from the DVID block: not compared
    if A["dvs"] != B["dvs"] and not multi:
        fail("dependent-variables", f"{A['dvs']} vs {B['dvs']}")
    for sym in sorted(set(A["after"]) & set(B["after"])):
        if (sym in A["dvs"] and not multi) or sym in ("F", "IPRED", "W"):
            if not _eq(A["after"][sym], B["after"][sym].xreplace(ren), rng):
                fail("value-" + ("dv" if sym in A["dvs"] else sym), f"{sym}: in memory {A['after'][sym]}, in code {B['after'][sym]}")
    for d in ([] if multi else A["dvs"]):
        if d not in B["after"] and d in A["after"]:
            fail("dependent-variables", f"{d} is not assigned in the code read back")
    return bad


def code_advan(model):
    subs = model.internals.control_stream.get_records("SUBROUTINES")
    if not subs:
        return None, None
    return subs[0].advan, subs[0].get_option_startswith("TRANS")


def code_model_record(model):
    recs = model.internals.control_stream.get_records("MODEL")
    if not recs:
        return None
    return [nm for nm, _ in recs[0].compartments()]


PREDPP_RATES = {"ADVAN1": [], "ADVAN2": [], "ADVAN3": ["K12", "K21"], "ADVAN4": ["K23", "K32"],
                "ADVAN11": ["K12", "K21", "K13", "K31"], "ADVAN12": ["K23", "K32", "K24", "K42"]}


TRANS_VOLUME = {("ADVAN1", "TRANS2"): "V", ("ADVAN2", "TRANS2"): "V", ("ADVAN3", "TRANS4"): "V1", ("ADVAN11", "TRANS4"): "V1",
                ("ADVAN4", "TRANS4"): "V2", ("ADVAN12", "TRANS4"): "V2"}


def doses_left_on_central(model, df):
    """Written dose records point at the central compartment although the model doses elsewhere."""
    cs = model.statements.ode_system
    if cs is None or df is None or "CMT" not in df.columns or "AMT" not in df.columns:
        return False
    try:
        names = cs.compartment_names
        dosing = [names.index(c.name) + 1 for c in cs.dosing_compartments]
        central = names.index(cs.central_compartment.name) + 1
    except ValueError:
        return False
    got = set(int(v) for v in df["CMT"].astype(float)[df["AMT"].astype(float) != 0].unique())
    return len(dosing) == 1 and dosing[0] != central and got == {central}


def stale_reserved(model, kind_):
    """In the object: `Fn` / `ALAGn` is assigned before the ODEs although dosing compartment n does not refer to it."""
    cs = model.statements.ode_system
    if cs is None:
        return False
    assigned = {str(st.symbol) for st in model.statements.before_odes if isinstance(st, Assignment)}
    try:
        comps = cs.dosing_compartments
    except ValueError:
        return False
    names = cs.compartment_names
    for c in comps:
        nm = f"{kind_}{names.index(c.name) + 1}"
        attr = c.bioavailability if kind_ == "F" else c.lag_time
        if nm in assigned and nm not in {str(x) for x in attr.free_symbols}:
            return True
    return False


def map_state_monitor(model, label, mon, tags):
    """State invariant after EVERY update_source: the compartment numbering remembered in the model internals
    (`compartment_map`, from which the next structural change renumbers Sn / A(n) / Kij / CMT) is the numbering of the
    control stream just generated (= compartment_names: $MODEL order, or the fixed numbering of the specific ADVAN)."""
    cs = model.statements.ode_system
    cmap0 = model.internals.compartment_map
    if cs is None or cmap0 is None:
        return
    tags.append("map-state-checked")
    cmap = {kk: v for kk, v in cmap0.items() if kk != "OUTPUT"}
    want = {nm: i + 1 for i, nm in enumerate(cs.compartment_names)}
    if cmap != want:
        des = bool(model.internals.control_stream.get_records("DES"))
        mon.append({"cls": "stale-compartment-map-on-des-path" if des else "stale-compartment-map-on-advan-path",
                    "what": f"{label}: model.internals.compartment_map is {cmap}, the generated control stream numbers the compartments {want}"})


def des_map_stale(model):
    cs = model.statements.ode_system
    if cs is None or not model.internals.control_stream.get_records("DES"):
        return False
    cmap = {kk: v for kk, v in (model.internals.compartment_map or {}).items() if kk != "OUTPUT"}
    return bool(cmap) and cmap != {nm: i + 1 for i, nm in enumerate(cs.compartment_names)}


def track_origin(origin, model, name):
    """Which transformation first left which inconsistency in the object (decides the witness class later)."""
    for kind_ in ("F", "ALAG"):
        if stale_reserved(model, kind_):
            origin[kind_] = origin.get(kind_) or name
        else:
            origin[kind_] = None
    if des_map_stale(model):
        origin["desmap"] = True
    cs = model.statements.ode_system
    if cs is not None and len({n.name for n in cs._g.nodes if n != output}) < len(cs._g.nodes) - 1:
        origin["dup"] = origin.get("dup") or name
    else:
        origin["dup"] = None
    return dict(origin)


def code_compartments(model):
    mr = code_model_record(model)
    return len(mr) if mr is not None else None


def witness_class(model, generic, what="", df=None, origin=None):
    """Decidable witness classes of the known defects; anything else keeps its generic class."""
    cstream = model.internals.control_stream
    cs = model.statements.ode_system
    c_advan, c_trans = code_advan(model)
    if cs is not None and (any(cs._g.edges[e]["rate"] == 0 for e in cs._g.edges)
                           or any(n != output and cs._g.out_degree(n) == 0 for n in cs._g.nodes)):
        return "in-memory-system-has-dead-end-compartment"
    if cs is not None and len({n.name for n in cs._g.nodes if n != output}) < len(cs._g.nodes) - 1:
        return f"duplicate-compartments-left-by-{(origin or {}).get('dup') or 'unknown'}"
    if generic.startswith("twin-") and cs is not None:
        import re as _re2
        for st_ in model.statements.before_odes:
            if isinstance(st_, Assignment) and _re2.fullmatch(r"K\d+T?\d+", str(st_.symbol)) \
                    and _re2.fullmatch(r"K\d+T?\d+", str(st_.expression)):
                return "rate-alias-captured-by-renumbered-rate-name"
    ncode = code_compartments(model)
    if cs is not None and ncode is not None and ncode < len(cs.compartment_names) and \
            (generic.endswith(("ode-size", "ode-rhs", "value-dv", "value-F")) or generic == "model-record-order"):
        return "code-has-fewer-compartments-than-object"
    if generic.startswith(("disk-", "cmt-")) and cs is not None and (des_map_stale(model) or (origin or {}).get("desmap")):
        return "stale-compartment-map-on-des-path"
    if cs is not None and cstream.get_records("DES") and (generic == "rate-column-routing" or generic.endswith(("dose-routing", "dose-parameters"))):
        try:
            bolus = type(cs.dosing_compartments[0].doses[0]).__name__ == "Bolus"
        except (ValueError, IndexError):
            bolus = False
        if bolus and df is not None and "RATE" in df.columns and (df["RATE"].astype(float) != 0).any():
            return "rate-column-kept-on-des-path"
    if generic.startswith(("disk-", "cmt-dose")) and doses_left_on_central(model, df):
        return "cmt-doses-left-on-central"
    if generic.endswith("dose-parameters") and ("D1.0" in what or "R1.0" in what or "D2.0" in what or "R2.0" in what):
        return "reader-float-cmt-in-dose-parameter-name"
    if cs is not None and (c_advan, c_trans) in TRANS_VOLUME and generic.endswith(("ode-rhs", "value-dv", "value-F", "value-IPRED")):
        try:
            rate = str(cs.get_flow(cs.central_compartment, output))
        except ValueError:
            rate = None
        if rate is not None and rate != f"CL/{TRANS_VOLUME[(c_advan, c_trans)]}":
            return "trans-volume-name-mismatch"
    assigned = {str(s.symbol) for s in model.statements.before_odes if isinstance(s, Assignment)}
    if generic.endswith(("ode-rhs", "value-dv", "value-F", "value-IPRED")) and cs is not None:
        if c_advan in PREDPP_RATES and c_trans in (None, "TRANS1"):
            import re as _re
            if "K" not in assigned and any(_re.fullmatch(r"K\d+T?0", a) for a in assigned):
                return "general-linear-rate-name-kept"
            if any(r not in assigned for r in PREDPP_RATES[c_advan]):
                return "trans1-rate-constant-unassigned"
    if origin is not None:
        if generic.endswith("lag-time") and origin.get("ALAG"):
            return f"stale-reserved-ALAG-left-by-{origin['ALAG']}"
        if generic.endswith("bioavailability") and origin.get("F"):
            return f"stale-reserved-F-left-by-{origin['F']}"
    if generic.endswith(("value-dv", "value-F", "value-IPRED", "value-W")) and cs is not None and cstream.get_records("DES"):
        try:
            cen = cs.compartment_names.index(cs.central_compartment.name) + 1
        except ValueError:
            cen = None
        scal = {a for a in assigned if len(a) == 2 and a[0] == "S" and a[1].isdigit()}
        if cen is not None and scal and f"S{cen}" not in scal:
            return "des-scaling-not-renumbered"
    return generic


_TWIN_CACHE = {}


def generic_twin(name):
    if name not in _TWIN_CACHE:
        try:
            _TWIN_CACHE[name] = pm.convert_model(_start_model(name), "generic")
        except Exception:
            _TWIN_CACHE[name] = None
    return _TWIN_CACHE[name]


def _attr(e, neutral):
    e = _sy(e)
    if e == neutral:
        return ["neutral"]
    if e.is_Symbol:
        return ["sym", str(e)]
    return ["other", str(e)]


def _pk_wire(before):
    return [[str(st.symbol), str(st.expression)] for st in before if isinstance(st, Assignment)]


def model_record_k(drv, model, k, tags, label):
    """update_model_record on the reached model (its own ADVAN, and the general ADVAN5): remembered map and $MODEL vs Lean."""
    cs = model.statements.ode_system
    if model.internals.compartment_map is None or len({c.name for c in cs._g.nodes if c != output}) < len(cs._g.nodes) - 1:
        return
    c_advan, _ = code_advan(model)
    solver = bool(model.execution_steps[0].solver) if len(model.execution_steps) > 0 else False
    old_mr = code_model_record(model)
    for advan in [c_advan, "ADVAN5"]:
        if advan is None:
            continue
        try:
            r = U.update_model_record(model, advan)
        except Exception as e:
            tags.append(f"update_model_record-raises-{type(e).__name__}")
            continue
        real_map = [[kk, str(v)] for kk, v in r.internals.compartment_map.items()]
        rm = code_model_record(r)
        ans = drv.ask(["modelrec", advan, solver, cs.compartment_names,
                       [[kk, v] for kk, v in model.internals.compartment_map.items()], old_mr if old_mr is not None else "none"])
        real = [real_map, rm if rm is not None else "none"]
        if ans != real:
            k.append(f"{label}: update_model_record({advan}): model {ans} code {real}")
        tags.append("k:update_model_record")


def rate_name_k(drv, prev, model, k, mon, tags, label):
    """General linear code (ADVAN5/7): the rate-constant names update.py writes vs Lean's rateParam (PharmpyModel/C02/RateName.lean,
    theorem rate_name_roundtrip), and each written name decoded by the Lean model of _find_rates must be the flow it was written for."""
    c_advan, _ = code_advan(model)
    cmap = model.internals.compartment_map
    cs = model.statements.ode_system
    if c_advan not in ("ADVAN5", "ADVAN7") or cmap is None or cs is None:
        return
    if len({c.name for c in cs._g.nodes if c != output}) < len(cs._g.nodes) - 1:
        return      # two compartments with one name (known class duplicate-compartments-left-by-*): numbers are not defined
    n = cmap.get("OUTPUT", len(cmap) + 1)
    if sorted(v for kk, v in cmap.items() if kk != "OUTPUT") != list(range(1, n)) or set(cs.compartment_names) != {kk for kk in cmap if kk != "OUTPUT"}:
        tags.append("k-skip:ratename-stale-map")
        return      # the remembered numbering is not that of this system (state monitor map_state_monitor reports it)
    before = {s_.symbol.name for s_ in prev.statements if isinstance(s_, Assignment)}
    now = {s_.symbol.name for s_ in model.statements.before_odes if isinstance(s_, Assignment)}
    expected_new = set()
    for src in cs.compartment_names:
        sc = cs.find_compartment(src)
        for dst in list(cs.compartment_names) + ["OUTPUT"]:
            if dst == src:
                continue
            dc = output if dst == "OUTPUT" else cs.find_compartment(dst)
            if cs.get_flow(sc, dc) == 0 or src not in cmap or (dst != "OUTPUT" and dst not in cmap):
                continue
            sn, dn = cmap[src], (n if dst == "OUTPUT" else cmap[dst])
            ans = drv.ask(["ratename", n, sn, dn])
            name, syn, dec = ans[0], ans[1], ans[2]
            tags.append("k:ratename" + ("-2digit" if sn >= 10 or dn >= 10 else ""))
            if dec != ["flow", str(sn), str(dn)]:
                k.append(f"{label}: Lean reads its own rate name {name} as {dec}, written for {sn}->{dn} (n={n})")
            present = [x for x in syn if x in now]
            if not present:
                k.append(f"{label}: flow {src}({sn})->{dst}({dn}) of {n}: none of {syn} is assigned in the model ({sorted(x for x in now if x.startswith('K'))})")
            elif name not in now and not any(x in before for x in present):
                k.append(f"{label}: flow {sn}->{dn} of {n}: the code introduced {present}, Lean's rateParam gives {name}")
            expected_new.add(name)


def dose_updater_k(drv, model, k, tags, label, rng):
    """update_bio / update_lag_time on the reached model with the dosing compartment's attribute replaced by
    (1 | Fn | another reserved F | another symbol | an expression): real result vs the Lean updaters."""
    st = model.statements
    cs = st.ode_system
    if len({c.name for c in cs._g.nodes if c != output}) < len(cs._g.nodes) - 1:
        return      # broken object (duplicate compartments): the builder cannot address a compartment
    try:
        comp = cs.dosing_compartments[0]
    except ValueError:
        return
    n = cs.compartment_names.index(comp.name) + 1
    variants = [Expr.integer(1), Expr.symbol(f"F{n}"), Expr.symbol(f"F{n + 1}"), Expr.symbol("F_BIO"), Expr.symbol("BIOX") * 2]
    bio = variants[rng.randrange(len(variants))]
    cb = CompartmentalSystemBuilder(cs)
    cb.set_bioavailability(comp, bio)
    new_cs = CompartmentalSystem(cb)
    m1 = model.replace(statements=st.before_odes + new_cs + st.after_odes)
    try:
        r = U.update_bio(m1, cs, new_cs)
    except Exception as e:
        tags.append(f"update_bio-raises-{type(e).__name__}")
        r = None
    if r is not None:
        rcs = r.statements.ode_system
        rcomp = rcs.find_compartment(comp.name)
        ans = drv.ask(["updatebio", n, _attr(bio, 1), _pk_wire(st.before_odes)])
        real = [_attr(rcomp.bioavailability, 1), _pk_wire(r.statements.before_odes)]
        if [ans[0], ans[1]] != real:
            k.append(f"{label}: update_bio(bio={bio}): model {ans[:2]} code {real}")
        tags.append("k:update_bio")
    lagv = [Expr.integer(0), Expr.symbol("ALAG1"), Expr.symbol("MDT"), Expr.symbol("MDT") * 2]
    lag = lagv[rng.randrange(len(lagv))]
    cb = CompartmentalSystemBuilder(cs)
    cb.set_lag_time(comp, lag)
    new_cs = CompartmentalSystem(cb)
    m1 = model.replace(statements=st.before_odes + new_cs + st.after_odes)
    try:
        r = U.update_lag_time(m1, cs, new_cs)
    except Exception as e:
        tags.append(f"update_lag_time-raises-{type(e).__name__}")
        return
    rcomp = r.statements.ode_system.dosing_compartments[0]
    ans = drv.ask(["updatelag", _attr(comp.lag_time, 0), _attr(lag, 0), _pk_wire(st.before_odes)])
    real = [_attr(rcomp.lag_time, 0), _pk_wire(r.statements.before_odes)]
    if [ans[0], ans[1]] != real:
        k.append(f"{label}: update_lag_time(old={comp.lag_time}, new={lag}): model {ans[:2]} code {real}")
    tags.append("k:update_lag_time")


def reread_class(model, route, origin=None):
    """Witness class of a generated control stream that pharmpy cannot read back."""
    cs0 = model.statements.ode_system
    if cs0 is not None and len({n.name for n in cs0._g.nodes if n != output}) < len(cs0._g.nodes) - 1:
        return f"duplicate-compartments-left-by-{(origin or {}).get('dup') or 'unknown'}"
    solver = model.execution_steps[0].solver if len(model.execution_steps) > 0 else None
    des = model.internals.control_stream.get_records("DES")
    cs = model.statements.ode_system
    if solver and not des and cs is not None:
        return "ode-solver-on-linear-system-without-des"
    return f"{route}-reread-raises"


def run_history(case, drv):
    rng = random.Random(case["seed"])
    k, mon, tags = [], [], ["kind=history", f"start={case['start']}"]
    model = start_model(case["start"])
    twin = generic_twin(case["start"])
    stale_origin = {"F": None, "ALAG": None}
    model_origin = dict(stale_origin)
    done = 0
    root = scratch_root() / f"c02-{case['seed']}"
    try:
        for name, kw in case["ops"]:
            prev = model
            try:
                new = getattr(pm, name)(prev, **kw)
                code = new.code
            except Exception as e:  # a transformation that does not succeed is outside the quantifier
                tags.append(f"op-refused:{name}:{type(e).__name__}")
                continue
            model = new
            done += 1
            tags.append(f"op:{name}")
            model_origin = track_origin(stale_origin, model, name)
            map_state_monitor(model, f"{case['start']}+{name} (step {done})", mon, tags)
            if case.get("light") and [name, kw] != case["ops"][-1]:
                continue
            if twin is not None:
                try:
                    twin = getattr(pm, name)(twin, **kw)
                except Exception:
                    twin = None
                    tags.append("twin-lost")
            label = f"{case['start']}+{name}"
            cs = model.statements.ode_system
            # ---- K: diff on the real statement lists of this step
            old_l = [s for s in prev.statements if isinstance(s, Assignment)]
            new_l = [s for s in model.statements if isinstance(s, Assignment)]
            pool = []

            def code_of(s):
                for i, t in enumerate(pool):
                    if t == s:
                        return i
                pool.append(s)
                return len(pool) - 1
            oi, ni = [code_of(s) for s in old_l], [code_of(s) for s in new_l]
            if len(oi) <= 60 and len(ni) <= 60:
                check_diff(drv, oi, ni, k, mon, label)
                tags.append("step-diff")
            # ---- K: ADVAN/TRANS decision and numbering vs the real functions and the generated records
            if cs is not None and drv is not None:
                r = advan_k(drv, cs, model.statements, model.internals.control_stream, k, tags, label)
                r2 = advan_k(drv, cs, model.statements, prev.internals.control_stream, k, [], label + "(old $SUBROUTINES)")
                if r is not None and not isinstance(r[0], list):
                    real, r_trans, nonlin, zo, ids = r
                    c_advan, c_trans = code_advan(model)
                    solver = model.execution_steps[0].solver if len(model.execution_steps) > 0 else None
                    if solver and c_advan == U.solver_to_advan(solver):
                        tags.append("solver-advan")
                    elif not (nonlin or zo):
                        if solver:
                            tags.append("solver-setting-not-in-code")
                        if c_advan != real:
                            k.append(f"{label}: $SUBROUTINES has {c_advan}, the ladder gives {real}")
                        if r2 is not None and not isinstance(r2[0], list) and c_trans != r2[1] and c_trans is not None \
                                and r2[1] is not None and code_advan(prev)[0] is not None:
                            tags.append(f"trans-in-code-differs-from-ladder:{c_trans}/{r2[1]}")
                    elif c_advan not in ("ADVAN13", "ADVAN6", "ADVAN8", "ADVAN9", "ADVAN14", "ADVAN15", "ADVAN16", "ADVAN17", "ADVAN18"):
                        mon.append({"cls": "advan-not-general-nonlinear", "what": f"{label}: nonlinear/zero-order system but $SUBROUTINES {c_advan}"})
                    mr = code_model_record(model)
                    if mr is not None and mr != cs.compartment_names:
                        mon.append({"cls": witness_class(model, "model-record-order"),
                                    "what": f"{label}: $MODEL lists {mr}, compartment numbering is {cs.compartment_names}"})
            if cs is not None and drv is not None:
                rate_name_k(drv, prev, model, k, mon, tags, label)
            if cs is not None and drv is not None and not case.get("light"):
                dose_updater_k(drv, model, k, tags, label, rng)
                model_record_k(drv, model, k, tags, label)
            # ---- Mon: node index of the code records the next update_source will work from
            for getter in ("get_pred_pk_record", "get_error_record"):
                try:
                    crec = getattr(model.internals.control_stream, getter)()
                except Exception:
                    crec = None
                if crec is not None and hasattr(crec, "_statements") and hasattr(crec, "_index"):
                    record_index_monitors(crec, len(crec._statements), f"{label} ${crec.name}", mon,
                                          ignore_unindexed=len(model.dependent_variables) > 1)
                    tags.append("record-index-checked")
            # ---- Mon: the generated code denotes the same model
            try:
                A = meaning(model)
            except exprconv.Unsupported as e:
                tags.append(f"meaning-unsupported:{e}"[:60])
                continue
            try:
                m2 = pm.read_model_from_string(code)
                B = meaning(m2)
            except Exception as e:
                mon.append({"cls": reread_class(model, "string", model_origin), "what": f"{label}: read_model_from_string(model.code) raised {type(e).__name__}: {e}"[:400]})
                B = None
            if B is not None and twin is not None:
                # the same history on a format-neutral copy of the start model (no NONMEM renaming in update_source):
                # the generated code must denote that model too
                try:
                    G = meaning(twin)
                except Exception:
                    G = None
                if G is not None and sorted(t[0] for t in G["thetas"]) != sorted(t[0] for t in A["thetas"]):
                    # the transformation took a different path on the NONMEM-named model (it inspects symbol names):
                    # the twin is no longer an oracle for this history
                    G, twin = None, None
                    tags.append("twin-diverged")
                if G is not None:
                    tags.append("twin-compared")
                    for f in compare_meaning(G, B, rng, "twin", False):
                        f["what"] = f"{label}: " + f["what"]
                        f["cls"] = witness_class(model, f["cls"], origin=model_origin)
                        mon.append(f)
            if B is not None:
                for f in compare_meaning(A, B, rng, "string", False):
                    f["what"] = f"{label}: " + f["what"]
                    f["cls"] = witness_class(model, f["cls"], origin=model_origin)
                    mon.append(f)
            # ---- Mon: write to disk and read back (with the dataset)
            if model.dataset is not None and not case.get("light"):
                root.mkdir(parents=True, exist_ok=True)
                path = root / f"m{done}.mod"
                try:
                    pm.write_model(model, path=path, force=True)
                    m3 = pm.read_model(path)
                    C = meaning(m3)
                except Exception as e:
                    mon.append({"cls": reread_class(model, "disk", model_origin), "what": f"{label}: write_model/read_model raised {type(e).__name__}: {e}"[:400]})
                    C = None
                if C is not None:
                    tags.append("disk-roundtrip")
                    check_data_file(model, m3.dataset, label, mon, tags)
                    check_routing(model, m3.dataset, label, mon, tags, origin=model_origin)
                    for f in compare_meaning(A, C, rng, "disk", True):
                        f["what"] = f"{label}: " + f["what"]
                        f["cls"] = witness_class(model, f["cls"], f["what"], m3.dataset, origin=model_origin)
                        mon.append(f)
    finally:
        shutil.rmtree(root, ignore_errors=True)
    tags.append(f"steps-done={done}")
    return {"k": k, "mon": mon, "tags": tags, "nontrivial": done >= 1}


def check_data_file(model, df, label, mon, tags):
    """After write_model: the data file the written control stream names in $DATA (as read back through $INPUT) must hold
    model.dataset on the columns that are not dropped."""
    mine = model.dataset
    if mine is None or df is None:
        return
    tags.append("data-file-checked")
    di = model.datainfo
    keep = [c for c in mine.columns if c in di.names and not di[c].drop]
    theirs = [c for c in df.columns]
    bad = None
    if len(mine) != len(df):
        bad = f"{len(df)} records in the file, {len(mine)} in model.dataset"
    else:
        for c in keep:
            if c not in theirs:
                bad = f"column {c} of model.dataset is not in the data the control stream reads ({theirs})"
                break
            try:
                a = mine[c].astype(float).to_numpy()
                b = df[c].astype(float).to_numpy()
            except (TypeError, ValueError):
                continue
            import numpy as _np
            if not _np.allclose(a, b, rtol=1e-9, atol=0, equal_nan=True):
                i = int(_np.argmax(~_np.isclose(a, b, rtol=1e-9, atol=0, equal_nan=True)))
                bad = f"column {c}, record {i}: model.dataset has {a[i]}, the file named by $DATA has {b[i]}"
                break
    if bad:
        data_rec = model.internals.control_stream.get_records("DATA")
        mon.append({"cls": "data-file-differs-from-dataset", "what": f"{label}: {bad}"})


def check_routing(model, df, label, mon0, tags, origin=None):
    """The written data columns CMT / RATE must agree with the dose and observation routing of the in-memory graph."""
    mon = []
    _check_routing(model, df, label, mon, tags)
    for f in mon:
        f["cls"] = witness_class(model, f["cls"], f["what"], df, origin=origin)
        mon0.append(f)


def _check_routing(model, df, label, mon, tags):
    cs = model.statements.ode_system
    if cs is None or df is None or "AMT" not in df.columns:
        return
    names = cs.compartment_names
    try:
        dosing = sorted(names.index(c.name) + 1 for c in cs.dosing_compartments)
        central = names.index(cs.central_compartment.name) + 1
    except ValueError:
        return
    dose_rows = df["AMT"].astype(float) != 0
    di = model.datainfo
    if "CMT" in df.columns and "CMT" in di.names and not di["CMT"].drop and len(model.dependent_variables) == 1:
        tags.append("cmt-routing-checked")
        cmt = df["CMT"].astype(float)
        got_d = sorted(set(int(v) for v in cmt[dose_rows].unique()))
        got_o = sorted(set(int(v) for v in cmt[~dose_rows].unique()))
        if len(dosing) == 1 and any(v not in (0, dosing[0]) for v in got_d):
            mon.append({"cls": "cmt-dose-routing", "what": f"{label}: dose records have CMT {got_d}, the model doses into "
                        f"compartment {dosing} of {names}"})
        if any(v not in (0, central) for v in got_o):
            mon.append({"cls": "cmt-observation-routing", "what": f"{label}: observation records have CMT {got_o}, the model observes "
                        f"compartment {central} ({names[central - 1]}) of {names}"})
    if "RATE" in df.columns and "RATE" in di.names and not di["RATE"].drop and len(dosing) == 1:
        tags.append("rate-routing-checked")
        d0 = cs.dosing_compartments[0].doses[0]
        rate = df["RATE"].astype(float)
        if type(d0).__name__ == "Infusion" and d0.duration is not None and str(d0.duration).startswith("D"):
            ok = (rate[dose_rows] == -2).all() and (rate[~dose_rows] == 0).all()
        elif type(d0).__name__ == "Bolus":
            ok = (rate[dose_rows] == 0).all()
        else:
            ok = True
        if not ok:
            mon.append({"cls": "rate-column-routing", "what": f"{label}: RATE column {sorted(set(rate[dose_rows]))} on dose records "
                        f"does not fit the dose {d0}"})


def _frame_key(df):
    return None if df is None else (tuple(df.columns), df.to_csv(index=False))


def run_branch(case, drv):
    rng = random.Random(case["seed"])
    k, mon, tags = [], [], ["kind=branch", f"start={case['start']}", f"branches={len(case['branches'])}"]
    parent = start_model(case["start"])
    parent_origin = {}
    for name, kw in case["prefix"]:
        try:
            parent = getattr(pm, name)(parent, **kw)
            track_origin(parent_origin, parent, name)
        except Exception as e:
            tags.append(f"op-refused:{name}:{type(e).__name__}")
    root = scratch_root() / f"c02-b{case['seed']}"
    done = 0
    try:
        for bi, ops in enumerate(case["branches"]):
            before = _frame_key(parent.dataset)
            before_code = parent.code
            child = parent
            applied = []
            origin = dict(parent_origin)
            for name, kw in ops:
                try:
                    child = getattr(pm, name)(child, **kw)
                    child.code
                    applied.append(name)
                    track_origin(origin, child, name)
                    map_state_monitor(child, f"{case['start']} | sibling {bi + 1}: {'+'.join(applied)}", mon, tags)
                except Exception as e:
                    tags.append(f"op-refused:{name}:{type(e).__name__}")
            if not applied:
                continue
            done += 1
            label = f"{case['start']}{'+' + '+'.join(n for n, _ in case['prefix']) if case['prefix'] else ''} | sibling {bi + 1}: {'+'.join(applied)}"
            tags += [f"op:{n}" for n in applied]
            # deriving a model must not change the parent (C06's statement; it is the mechanism behind wrong sibling data)
            if _frame_key(parent.dataset) != before or parent.code != before_code:
                gained = [] if parent.dataset is None or before is None else [c for c in parent.dataset.columns if c not in before[0]]
                same_rest = parent.dataset is not None and before is not None and \
                    _frame_key(parent.dataset[[c for c in parent.dataset.columns if c in before[0]]]) == before
                cls_ = "shared-dataset-gains-cmt-column-in-place" if gained == ["CMT"] and same_rest and parent.code == before_code \
                    else "parent-changed-by-derived-model"
                mon.append({"cls": cls_, "what": f"{label}: the parent's dataset/code changed while deriving this model"})
            if child.statements.ode_system is None:
                continue
            try:
                A = meaning(child)
            except exprconv.Unsupported:
                continue
            if child.dataset is None:
                continue
            root.mkdir(parents=True, exist_ok=True)
            path = root / f"b{bi}.mod"
            try:
                pm.write_model(child, path=path, force=True)
                m3 = pm.read_model(path)
                C = meaning(m3)
            except Exception as e:
                mon.append({"cls": reread_class(child, "disk", origin), "what": f"{label}: write_model/read_model raised {type(e).__name__}: {e}"[:400]})
                continue
            tags.append("disk-roundtrip")
            check_data_file(child, m3.dataset, label, mon, tags)
            check_routing(child, m3.dataset, label, mon, tags, origin=origin)
            for f in compare_meaning(A, C, rng, "disk", True):
                f["what"] = f"{label}: " + f["what"]
                f["cls"] = witness_class(child, f["cls"], f["what"], m3.dataset, origin=origin)
                mon.append(f)
    finally:
        shutil.rmtree(root, ignore_errors=True)
    tags.append(f"siblings-done={done}")
    return {"k": k, "mon": mon, "tags": tags, "nontrivial": done >= 2}


def _is_assignment_node(node):
    txt = str(node).split(";")[0]
    return "=" in txt


def record_index_monitors(rec, nstmts, label, mon, ignore_unindexed=False):
    """Invariant of a code record on the real object: the index is a partition of the node list with consecutive
    statement ranges, and every node that carries an assignment lies inside a span."""
    idx = list(rec._index)
    children = rec.root.children
    pos, si, ok = 0, 0, True
    for ni, nj, s0, s1 in idx:
        if not (pos <= ni <= nj <= len(children) and s0 == si and s0 <= s1):
            ok = False
        pos, si = nj, s1
    if not ok or si != nstmts:
        mon.append({"cls": "record-index-not-partition", "what": f"{label}: index {idx} is not a partition of {len(children)} nodes / "
                    f"{nstmts} statements"})
        return
    if ignore_unindexed:
        return
    covered = set()
    for ni, nj, _, _ in idx:
        covered.update(range(ni, nj))
    for i, ch in enumerate(children):
        if i not in covered and getattr(ch, "rule", None) == "statement" and _is_assignment_node(ch):
            mon.append({"cls": "record-statement-node-outside-index", "what": f"{label}: node {i} ({str(ch).strip()!r}) assigns a "
                        f"variable but belongs to no index entry {idx}: the next update will copy it through as if it were a comment"})
            return


def _seq_eval(stmts, sub):
    """Sequential NM-TRAN evaluation: a Piecewise without a true branch leaves the previous value (0 if none)."""
    env = dict(sub)
    for st in stmts:
        if not isinstance(st, Assignment):
            continue
        key = _sy(st.symbol)
        v = _sy(st.expression).xreplace(env)
        if v.has(sympy.nan) or isinstance(v, sympy.Piecewise):
            v = env.get(key, sympy.Integer(0))
        env[key] = v
    return env


def stmts_equivalent(a_stmts, b_stmts, rng):
    """Do two statement lists compute the same final values (at covariate categories and random points)?"""
    exprs = [_sy(st.expression) for st in list(a_stmts) + list(b_stmts) if isinstance(st, Assignment)]
    targets = {_sy(st.symbol) for st in list(a_stmts) + list(b_stmts) if isinstance(st, Assignment)}
    syms = sorted(set().union(*[e.free_symbols for e in exprs]) | targets, key=str) if exprs else []
    cand = _candidates(*exprs) if exprs else {}
    for _ in range(4 + min(12, 2 * sum(len(v) for v in cand.values()))):
        sub = _point(rng, syms, cand)
        for t in targets:
            sub[t] = sympy.Integer(0)     # a variable assigned in the record starts at 0 on both sides (never a free input)
        ea, eb = _seq_eval(a_stmts, sub), _seq_eval(b_stmts, sub)
        for t in sorted(targets, key=str):
            va, vb = ea.get(t), eb.get(t)
            if va is None or vb is None:
                return f"{t} is assigned on one side only"
            if va != vb:
                try:
                    tol = 1e-9 if (va.has(sympy.Float) or vb.has(sympy.Float)) else 1e-18
                    if abs(complex(sympy.N(va - vb, 30))) > tol * max(1.0, abs(complex(sympy.N(va, 30)))):
                        return f"{t} = {va} vs {vb} at {dict((str(k), v) for k, v in sub.items() if k in cand or str(k) in ('WGT',))}"
                except Exception:
                    pass
    return None


def apply_edits(stmts, step):
    new = list(stmts)
    for e in step:
        if e[0] == "ins":
            new.insert(min(e[1], len(new)), Assignment.create(e[2], e[3]))
        elif e[0] == "del" and new:
            del new[e[1] % len(new)]
        elif e[0] == "mod" and new:
            i = e[1] % len(new)
            new[i] = Assignment.create(new[i].symbol, e[2])
        elif e[0] == "renumber":
            d = {Expr.symbol(f"THETA({k})"): Expr.symbol(f"THETA({k + 1})") for k in range(e[1], 12)}
            new = [st.subs(d) for st in new]
    return new


def run_record(case, drv):
    rng = random.Random(case["seed"])
    k, mon, tags = [], [], ["kind=record"]
    rec = create_record("$PK\n" + case["text"] + "\n")
    old = list(rec.statements)
    record_index_monitors(rec, len(old), "parsed record", mon, ignore_unindexed=True)
    nodeid = {}
    alive = []          # keep every node referenced: id() of a freed node may be reused by a generated one
    done = 0
    for n, step in enumerate(case["edits"]):
        try:
            new = apply_edits(old, step)
        except Exception as e:
            tags.append(f"edit-refused:{type(e).__name__}")
            continue
        if new == old:
            continue
        label = f"update {n + 1} ({' '.join(e[0] for e in step)})"
        children = list(rec.root.children)
        for ch in children:
            if id(ch) not in nodeid:
                nodeid[id(ch)] = len(nodeid)
                alive.append(ch)
        index = [list(e) for e in rec._index]
        try:
            newrec = rec.update_statements(Statements(new))
        except Exception as e:
            mon.append({"cls": "record-update-raises", "what": f"{label}: update_statements raised {type(e).__name__}: {e}"[:300]})
            break
        done += 1
        tags.append(f"record-stmts={len(new)}")
        # ---- K
        if drv is not None:
            pool = []

            def code_of(st):
                for i, t in enumerate(pool):
                    if t == st:
                        return i
                pool.append(st)
                return len(pool) - 1
            oi, ni_ = [code_of(st) for st in old], [code_of(st) for st in new]
            lens, defined = [], set()
            for st, c in zip(new, ni_):
                lens.append([c, len(rec._statement_to_nodes(set(defined), st, None, None))])
                defined.add(st.symbol)
            if any(ln[1] > 1 for ln in lens):
                tags.append("multi-node-statement")
            fallback = children.index(next(c for c in children if getattr(c, "rule", None) == "verbatim")) \
                if any(getattr(c, "rule", None) == "verbatim" for c in children) else len(children)
            ans = drv.ask(["update", [nodeid[id(c)] for c in children], index, fallback, oi, ni_, lens])
            real_children = ["G" if id(c) not in nodeid else str(nodeid[id(c)]) for c in newrec.root.children]
            real_index = [[str(x) for x in e] for e in newrec._index]
            if ans and ans[0] == "err":
                k.append(f"{label}: model {ans}, code completed")
            else:
                m_children = ["G" if int(x) >= 1000000 else x for x in ans[0]]
                if m_children != real_children:
                    k.append(f"{label}: new children: model {m_children} code {real_children}")
                if ans[1] != real_index:
                    k.append(f"{label}: new index: model {ans[1]} code {real_index} (nodes per new statement {lens})")
            first = index[0][0] if index else fallback
            real_groups = [[str(op), [str(code_of(st)) for st in sts], str(a), str(b)]
                           for op, sts, a, b in code_record_mod._index_statements_diff(first, rec._index, iter(lcs.diff(old, new)))]
            mg = drv.ask(["groups", first, index, oi, ni_])
            if mg != real_groups:
                k.append(f"{label}: _index_statements_diff: model {mg} code {real_groups}")
        # ---- monitors on the real record
        record_index_monitors(newrec, len(new), label, mon)
        try:
            reparsed = list(create_record(str(newrec)).statements)
        except Exception as e:
            mon.append({"cls": "record-text-unparsable", "what": f"{label}: the text of the updated record does not parse: {e}"[:300]})
            reparsed = None
        if reparsed is not None:
            try:
                diff_ = stmts_equivalent(new, reparsed, rng)
            except exprconv.Unsupported:
                diff_ = None
            if diff_:
                nary = any(len(c.args) > 2 for st in new if isinstance(st, Assignment)
                           for c in _sy(st.expression).atoms(sympy.Or, sympy.And))
                and_of_or = any(isinstance(x, sympy.Or) for st in new if isinstance(st, Assignment)
                                for c in _sy(st.expression).atoms(sympy.And) for x in c.args)
                zero_else = False
                seen = set()
                for st in new:
                    if isinstance(st, Assignment):
                        e_ = _sy(st.expression)
                        if isinstance(e_, sympy.Piecewise) and e_.args[-1][1] == True and e_.args[-1][0] == 0 and st.symbol in seen:  # noqa: E712
                            zero_else = True
                        seen.add(st.symbol)
                cls_ = ("zero-else-dropped-but-symbol-defined-earlier" if zero_else and not and_of_or else
                        "printer-and-of-or-unparenthesised" if and_of_or else
                        "printer-nary-boolean-truncated" if nary else "record-text-differs-from-statements")
                mon.append({"cls": cls_, "what": f"{label}: the record text no longer computes what its "
                            f"statements say: {diff_}; text: {str(newrec)!r}"[:700]})
        alive.extend(newrec.root.children)
        rec, old = newrec, new
    tags.append(f"updates-done={done}")
    return {"k": k, "mon": mon, "tags": tags, "nontrivial": done >= 2}


def run_case(case, drv):
    if case["kind"] == "record":
        return run_record(case, drv)
    if case["kind"] == "branch":
        return run_branch(case, drv)
    if case["kind"] == "lcs":
        return run_lcs(case, drv)
    if case["kind"] == "graph":
        return run_graph(case, drv)
    return run_history(case, drv)


def translators():
    from harness.translate import c02_pkconv
    return [("T2-pkconv-tables", c02_pkconv.run)]
