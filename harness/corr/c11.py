"""C11 — Random-effect algebra keeps names, variances and a valid covariance.

K   : Lean model (PharmpyModel/C11/Model.lean) vs pharmpy.model.RandomVariables /
      JointNormalDistribution on every operation of generated operation sequences
      (names, block structure, class, level, mean and every covariance entry), the
      control flow of nearest_positive_semidefinite / validate_parameters /
      nearest_valid_parameters (numerics supplied as oracles recorded from the real run),
      triangular_root, flattened_to_symmetric, cov2corr, corr2cov (exact rationals).
Mon : the property statement evaluated on the real objects: names / variances /
      covariances preserved, block-diagonal covariance matrix, order changes only when
      needed, nearest(A) PSD (exact rational LDL^T on the returned floats, tolerance
      stated below) and nearest in the Frobenius norm (projection conditions), valid
      values untouched, sd/corr <-> cov and UCP round trips.
"""
from __future__ import annotations

import itertools
import math
import os

for _v in ("OMP_NUM_THREADS", "OPENBLAS_NUM_THREADS", "MKL_NUM_THREADS"):
    os.environ.setdefault(_v, "1")      # one BLAS thread per worker process
import random
import re
from fractions import Fraction

ID = "C11"
DRIVER = "drv_c11"
LEAN_TARGETS = ["PharmpyProofs.C11.Properties", "drv_c11"]
PROPERTIES = ["PharmpyProofs/C11/Properties.lean"]
LEAN_SOURCES = ["PharmpyModel/C11/*.lean", "PharmpyProofs/C11/*.lean", "Drivers/C11.lean"]
TIME_LIMIT = {"quick": 900, "thorough": 3000}
CASE_CPU_LIMIT = 60
RULE = ("six case kinds. shared (10%): a collection whose parameters are shared between distributions (IOV layout: the same variance symbol in 2-3 normal distributions, the same symbolic 2x2/3x3 block repeated per occasion, a variance that is also a diagonal element of a block) next to ordinary IIV/RUV distributions and an unused parameter, in seeded order, with exact sd/correlation values (mild, strong or any): parameters_sdcorr (values from the definition, inverse round trip, frame, a second seeded order), validate_parameters / nearest_valid_parameters, the UCP round trip of a model with them, and 3-7 operations of the algebra on the same collection. model (16%): a small Model (2-4 etas with exp effects on CL/V/KA/Q, one epsilon, a FOCE step; no dataset) built with Model.create, then 2-5 steps: raw mode = replace(random_variables=partition of the etas into blocks over pre-existing covariance parameters) / replace(parameters=new covariance values) / both / neither, with covariances corr*sd_i*sd_j of style mild, strong (+-15/16: pairwise fine, jointly indefinite), over (|corr| > 1) or any, so values are valid for one block structure and invalid for another; modeling mode = create_joint_distribution (with or without seeded individual estimates) / split_joint_distribution / remove_iiv / add_iiv / set every covariance of the present blocks to a given correlation. The remaining 74% as follows. ops (3/5): a collection of 1-6 random variables in normal / joint-normal blocks of size 1-4 "
        "(entries: symbols, integers, dyadic rationals, zero covariances; levels IIV/IOV/RUV) and 3-7 operations from "
        "unjoin / join (fill 0, numeric or symbolic fill, name template; rarely an empty, repeated or unknown name) / "
        "index by collection / subs (rename, swap, numeric) [every name list in the order a caller may write it: shuffled, with a repeated name in ~20%, some names as Expr symbols] / + distribution (rarely a duplicate name or unknown level) / "
        "+ collection / create / JointNormalDistribution[sub-collection of a joint block, names shuffled, repeated in 25%, list or tuple, rarely an Expr], each followed by the queries "
        "names, covariance_matrix, get_covariance, variance_parameters. psd (1/5): symmetric dyadic-rational matrix, "
        "n=1-5, positive definite / singular PSD / indefinite / negative / large condition number, through "
        "nearest_positive_semidefinite, validate_parameters, nearest_valid_parameters, "
        "Model._canonicalize_parameter_estimates. conv (1/10): covariance matrices with exactly representable standard "
        "deviations through cov2corr/corr2cov, parameters_sdcorr, pharmpy.modeling calculate_* conversions, "
        "triangular_root, flattened_to_symmetric. ucp (1/10): a model with bounded/unbounded thetas, omega blocks with "
        "positive/negative/zero covariances and a sigma through calculate_ucp_scale / calculate_parameters_from_ucp. "
        "non-trivial = ops: at least one operation changed the block structure; psd: n >= 2; conv/ucp: at least one "
        "off-diagonal element; model: the block structure changed at least once. distinct = distinct case JSON")
TRUSTED = [
    "Lean 4.33 kernel; axioms propext, Quot.sound, Classical.choice only (audited per theorem each run)",
    "hand-written model PharmpyModel/C11/Model.lean tied to random_variables.py / distributions/symbolic.py / "
    "internals/math.py by the correspondence run of this invocation",
    "symengine/sympy: Matrix element access, subs with symbol keys is simultaneous, == 0 on entries",
    "numpy: eig/svd/cholesky/inv numerics (abstract in the theorems; the monitors re-check results in exact rational "
    "arithmetic with the tolerances stated in ASSUMPTIONS)",
    "harness/corr/c11.py (generator, wire conversion, exact rational LDL^T, monitors)",
]
ASSUMPTIONS = [
    "entries of generated distributions are symbols or rational numbers (no compound expressions)",
    "PSD within tolerance: B + tol*I is exactly PSD (rational LDL^T on the float values) with tol = 1e-9*max(1,max|A|)",
    "nearest within tolerance: (B - A) + tol*I is exactly PSD and |trace(B(B-A))| <= 1e-7*max(1,max|A|)^2 "
    "(the two conditions characterise the Frobenius projection onto the PSD cone)",
    "round trips are compared with relative tolerance 1e-12 (UCP thetas: 1e-12 of the bound range, which is 2e6 "
    "for unbounded parameters; precision-matrix round trips: 1e-9)",
    "termination of the diagonal-bump loop of nearest_positive_semidefinite is numerical and is not claimed",
]

LEVELS = ["IIV", "IOV", "RUV"]


def budget(tier):
    return int(os.environ.get("VERIF_BUDGET", 0)) or {"quick": 3000, "thorough": 60000}[tier]


# ---------------------------------------------------------------- generation

_NUM = re.compile(r"^-?\d+(/\d+)?$")


def is_num(s: str) -> bool:
    return bool(_NUM.match(s))


def gen_block(rng: random.Random, names, level, style):
    n = len(names)
    var = [[None] * n for _ in range(n)]
    for i in range(n):
        if style == "sym" or (style == "mixed" and rng.random() < 0.6):
            var[i][i] = f"V_{names[i]}"
        else:
            var[i][i] = str(rng.randint(2, 9))
    for i in range(n):
        for j in range(i):
            r = rng.random()
            if style == "sym":
                e = f"C_{names[j]}_{names[i]}" if r < 0.85 else "0"
            elif style == "num":
                e = rng.choice(["0", "1/4", "-1/4", "1/8", "1/2", "-1/2"])
            else:
                e = f"C_{names[j]}_{names[i]}" if r < 0.5 else rng.choice(["0", "1/4", "-1/8"])
            var[i][j] = var[j][i] = e
    return {"names": list(names), "level": level, "joint": True, "mean": ["0"] * n, "var": var}


def gen_normal(rng, name, level):
    r = rng.random()
    v = f"V_{name}" if r < 0.75 else (str(rng.randint(1, 9)) if r < 0.93 else ("1/4" if r < 0.97 else "0"))
    m = "0" if rng.random() < 0.9 else f"M_{name}"
    return {"names": [name], "level": level, "joint": False, "mean": [m], "var": [[v]]}


def gen_dists(rng: random.Random, prefix="e", maxn=6, shared=False):
    nv = rng.randint(1, maxn)
    names = [f"{prefix}{i+1}" for i in range(nv)]
    dists = []
    i = 0
    while i < nv:
        size = min(nv - i, rng.choice([1, 1, 2, 2, 3, 3, 4]))
        r = rng.random()
        level = "IIV" if r < 0.6 else ("IOV" if r < 0.8 else "RUV")
        if size == 1:
            dists.append(gen_normal(rng, names[i], level))
        else:
            dists.append(gen_block(rng, names[i:i + size], level, rng.choice(["sym", "sym", "mixed", "num"])))
        i += size
    if shared and len(dists) >= 2 and rng.random() < 0.5:
        # IOV style: two distributions share their parameters
        a = dists[0]
        for d in dists[1:]:
            if len(d["names"]) == len(a["names"]) and d["joint"] == a["joint"]:
                d["var"] = [row[:] for row in a["var"]]
                break
    return dists


def mixnames(rng: random.Random, lst, p_expr=0.15, p_rep=0.2):
    """a selection as a caller may write it: any order, a repeated name, some names as Expr symbols ("$name")"""
    lst = list(lst)
    if lst and rng.random() < p_rep:
        lst.append(rng.choice(lst))
    rng.shuffle(lst)
    return [("$" + x if rng.random() < p_expr else x) for x in lst]


def gen_ops(rng: random.Random, dists):
    names = [n for d in dists for n in d["names"]]
    fresh = itertools.count(1)
    ops = []
    for _ in range(rng.randint(3, 7)):
        if not names:
            names = ["e1"]
        r = rng.random()
        pool = names + (["nope"] if rng.random() < 0.08 else [])
        if r < 0.22:
            k = rng.randint(1, min(3, len(pool)))
            ops.append(["unjoin", mixnames(rng, rng.sample(pool, k))])
        elif r < 0.50:
            k = rng.randint(0 if rng.random() < 0.05 else 1, min(4, len(pool)))
            inds = mixnames(rng, rng.sample(pool, k), p_expr=0.03, p_rep=0.15)
            f = rng.random()
            if f < 0.35:
                fill = ["fill", "0"]
            elif f < 0.5:
                fill = ["fill", rng.choice(["1/8", "1/16", "1"])]
            elif f < 0.65:
                fill = ["fill", "FILL"]
            else:
                fill = ["template", "IIV_", "_IIV_", rng.choice(["", "_X"]), [f"p{i}" for i in range(len({x.lstrip("$") for x in inds}))]]
            ops.append(["join", inds, fill])
        elif r < 0.64:
            k = rng.randint(0 if rng.random() < 0.1 else 1, len(pool))
            inds = rng.sample(pool, k)
            ops.append(["getitem", mixnames(rng, inds)])
            names = [n for n in names if n in inds]
        elif r < 0.78:
            pairs = []
            kind = rng.random()
            params = sorted({f"V_{n}" for n in names} | {f"C_{a}_{b}" for a in names for b in names if a < b})
            if kind < 0.35:
                old = rng.choice(names)
                new = f"z{next(fresh)}" if rng.random() < 0.85 else rng.choice(names)
                pairs.append([old, new])
                names = [new if n == old else n for n in names]
                if len(set(names)) != len(names):   # will be refused
                    names = [old if (n == new and i == names.index(new)) else n for i, n in enumerate(names)]
            elif kind < 0.6 and len(params) >= 2:
                a, b = rng.sample(params, 2)
                pairs += [[a, b], [b, a]]
            elif kind < 0.8:
                pairs.append([rng.choice(params), rng.choice(["2", "1/2", "0", "3"])])
            else:
                for p in rng.sample(params, min(len(params), 2)):
                    pairs.append([p, f"W{next(fresh)}"])
            ops.append(["subs", pairs])
        elif r < 0.86:
            if rng.random() < 0.5:
                nm = f"n{next(fresh)}" if rng.random() < 0.93 else rng.choice(names)
                lv = rng.choice(LEVELS) if rng.random() < 0.9 else "XYZ"
                ops.append(["add", gen_normal(rng, nm, lv)])
                if lv != "XYZ":
                    names = names + [nm]
            else:
                k = next(fresh)
                extra = gen_dists(rng, prefix=f"a{k}_", maxn=3)
                ops.append(["addrvs", extra])
                names = names + [n for d in extra for n in d["names"]]
        elif r < 0.89:
            ops.append(["create"])
        else:
            # JointNormalDistribution[...]: the k-th joint distribution of the current state, indexed by the names
            # selected by the mask (plus, rarely, a name it does not have)
            mask = [rng.random() < 0.55 for _ in range(6)]
            extra = [rng.choice(pool)] if rng.random() < 0.1 else []
            ops.append(["distget", rng.randrange(6), mask, extra, rng.randrange(1 << 20), rng.random() < 0.25, rng.random() < 0.08])
    return ops


def sym_matrix(rng: random.Random, n: int, kind: str):
    """Symmetric matrix of dyadic rationals (exact as floats), as strings."""
    den = rng.choice([1, 2, 4, 8, 16])

    def q(lo, hi):
        return Fraction(rng.randint(lo * den, hi * den), den)

    if kind in ("pd", "illcond"):
        L = [[q(-2, 2) if j < i else (q(1, 3) if j == i else Fraction(0)) for j in range(n)] for i in range(n)]
        if kind == "illcond":
            e = rng.choice([2, 4, 6])
            for i in range(n):
                L[i][i] = L[i][i] * Fraction(1, 2 ** (e * i))
        A = [[sum(L[i][k] * L[j][k] for k in range(n)) for j in range(n)] for i in range(n)]
    elif kind == "singular":
        r = rng.randint(0, max(0, n - 1))
        G = [[q(-2, 2) for _ in range(r)] for _ in range(n)]
        A = [[sum(G[i][k] * G[j][k] for k in range(r)) for j in range(n)] for i in range(n)]
    elif kind == "negative":
        L = [[q(-1, 1) if j < i else (q(1, 2) if j == i else Fraction(0)) for j in range(n)] for i in range(n)]
        A = [[-sum(L[i][k] * L[j][k] for k in range(n)) for j in range(n)] for i in range(n)]
    else:  # indefinite / random
        A = [[Fraction(0)] * n for _ in range(n)]
        for i in range(n):
            A[i][i] = q(0, 3) if kind == "indef" else q(-2, 3)
            for j in range(i):
                A[i][j] = A[j][i] = q(-3, 3)
    return [[str(x) for x in row] for row in A]


def _partition(rng, k):
    idx = list(range(k))
    rng.shuffle(idx)
    parts, i = [], 0
    while i < k:
        size = min(k - i, rng.choice([1, 1, 2, 3, 4]))
        parts.append(sorted(idx[i:i + size]))
        i += size
    return sorted(parts)


def _cov_values(rng, k, sd, style):
    """covariances C_i_j (i > j) as exact dyadic rationals: corr * sd_i * sd_j"""
    vals = {}
    for i in range(k):
        for j in range(i):
            if style == "mild":
                c = Fraction(rng.randint(-4, 4), 16)
            elif style == "strong":      # 0.9 / 0.9 / -0.9 style: pairwise fine, jointly indefinite for k >= 3
                c = Fraction(rng.choice([-15, -14, 14, 15]), 16)
            elif style == "over":        # covariance larger than the variances allow
                c = Fraction(rng.choice([-18, 17, 18, 20]), 16)
            else:
                c = Fraction(rng.randint(-16, 16), 16)
            vals[f"C_{i}_{j}"] = str(c * Fraction(sd[i]) * Fraction(sd[j]))
    return vals


def gen_model_case(rng: random.Random, seed):
    k = rng.choice([2, 3, 3, 4, 4, 5])
    sd = [str(Fraction(rng.choice([2, 3, 4, 6, 8]), 4)) for _ in range(k)]
    mode = "raw" if rng.random() < 0.65 else "modeling"
    ops = []
    if mode == "raw":
        # every covariance parameter exists from the start; the block structure decides which are used
        part0 = [[i] for i in range(k)] if rng.random() < 0.6 else _partition(rng, k)
        vals0 = _cov_values(rng, k, sd, rng.choice(["mild", "strong", "over", "any"]))
        for _ in range(rng.randint(2, 5)):
            r = rng.random()
            if r < 0.45:
                ops.append(["rvs", _partition(rng, k)])
            elif r < 0.75:
                ops.append(["params", _cov_values(rng, k, sd, rng.choice(["mild", "strong", "over", "any"]))])
            elif r < 0.88:
                ops.append(["both", _partition(rng, k), _cov_values(rng, k, sd, rng.choice(["mild", "strong", "any"]))])
            elif r < 0.94:
                # covariances recomputed from the model's present variances (valid: |c| < 1 and small blocks; invalid: |c| > 1)
                ops.append(["setcorr", str(Fraction(rng.choice([-15, -12, -4, 4, 12, 15, 17, 18]), 16)), rng.random() < 0.5])
            else:
                ops.append(["neither"])
    else:
        part0 = [[i] for i in range(k)]
        vals0 = {}
        for _ in range(rng.randint(2, 5)):
            r = rng.random()
            if r < 0.4:
                sel = None if rng.random() < 0.4 else sorted(rng.sample(range(k), rng.randint(2, k)))
                ie = None
                if rng.random() < 0.5:
                    ie = [[rng.randint(-9, 9) for _ in range(k)] for _ in range(rng.randint(3, 6))]
                ops.append(["cjd", sel, ie])
            elif r < 0.55:
                ops.append(["sjd", None if rng.random() < 0.4 else sorted(rng.sample(range(k), rng.randint(1, k)))])
            elif r < 0.8:
                ops.append(["setcorr", str(Fraction(rng.choice([-15, -12, -4, 4, 12, 15, 17, 18]), 16)), rng.random() < 0.5])
            elif r < 0.9:
                ops.append(["remove_iiv", rng.randrange(k)])
            else:
                ops.append(["add_iiv"])
    return {"kind": "model", "k": k, "sd": sd, "part": part0, "vals": vals0, "mode": mode, "ops": ops, "seed": seed}


def gen_shared_case(rng: random.Random, seed):
    """A collection whose parameters are shared between distributions (IOV layout): the same variance symbol in
    several normal distributions, the same symbolic block repeated per occasion, a variance that is also a
    diagonal element of a block; plus ordinary IIV / RUV distributions. Values: sd (dyadic) and correlations."""
    nocc = rng.choice([2, 2, 3])
    dists, sd, corr = [], {}, {}
    cnt = itertools.count(1)

    def new_var(prefix):
        nm = f"{prefix}{next(cnt)}"
        sd[nm] = str(Fraction(rng.randint(1, 12), rng.choice([2, 4, 8])))
        return nm

    def block(names, level, vs, style):
        n = len(names)
        var = [[None] * n for _ in range(n)]
        for i in range(n):
            var[i][i] = vs[i]
            for j in range(i):
                cn = f"C_{vs[i]}_{vs[j]}"
                if cn not in corr:
                    lim = {"mild": 4, "strong": 15, "any": 16}[style]
                    corr[cn] = [str(Fraction(rng.randint(-lim, lim), 16)), vs[i], vs[j]]
                var[i][j] = var[j][i] = cn
        return {"names": names, "level": level, "joint": True, "mean": ["0"] * n, "var": var}

    style = rng.choice(["mild", "mild", "mild", "strong", "any"])
    # ordinary IIV part
    if rng.random() < 0.7:
        k = rng.choice([1, 2, 3])
        vs = [new_var("IIV") for _ in range(k)]
        if k == 1:
            dists.append({"names": ["ETA_I1"], "level": "IIV", "joint": False, "mean": ["0"], "var": [[vs[0]]]})
        else:
            dists.append(block([f"ETA_I{i+1}" for i in range(k)], "IIV", vs, style))
    # IOV normals sharing one variance per parameter
    shared_normal = [new_var("IOVN") for _ in range(rng.choice([0, 1, 1, 2]))]
    for v in shared_normal:
        for occ in range(nocc):
            dists.append({"names": [f"ETA_{v}_{occ+1}"], "level": "IOV", "joint": False, "mean": ["0"], "var": [[v]]})
    # IOV blocks repeated per occasion with the same symbolic matrix
    if rng.random() < 0.8 or not shared_normal:
        k = rng.choice([2, 2, 3])
        vs = [new_var("IOVB") for _ in range(k)]
        if shared_normal and rng.random() < 0.3:
            vs[0] = shared_normal[0]            # a variance that is also the diagonal element of a block
        for occ in range(nocc):
            dists.append(block([f"ETA_B{i+1}_{occ+1}" for i in range(k)], "IOV", vs, style))
    dists.append({"names": ["EPS_1"], "level": "RUV", "joint": False, "mean": ["0"], "var": [[new_var("SIG")]]})
    if rng.random() < 0.4:
        sd["UNUSED"] = "3/2"
    order = list(range(len(dists)))
    if rng.random() < 0.5:
        rng.shuffle(order)
    dists = [dists[i] for i in order]
    perm = list(range(len(dists)))
    rng.shuffle(perm)
    return {"kind": "shared", "dists": dists, "sd": sd, "corr": corr, "perm": perm, "ops": gen_ops(rng, dists), "seed": seed}


def gen_cases(rng: random.Random, n: int, tier: str):
    out = []
    for _ in range(n):
        r = rng.random()
        seed = rng.randrange(1 << 30)
        if r < 0.16:
            out.append(gen_model_case(rng, seed))
            continue
        if r < 0.26:
            out.append(gen_shared_case(rng, seed))
            continue
        r = (r - 0.26) / 0.74
        if r < 0.6:
            dists = gen_dists(rng, shared=rng.random() < 0.15)
            out.append({"kind": "ops", "dists": dists, "ops": gen_ops(rng, dists), "seed": seed})
        elif r < 0.8:
            nn = rng.choice([1, 2, 2, 3, 3, 4, 5, 6])
            kind = rng.choice(["pd", "pd", "singular", "indef", "indef", "random", "negative", "illcond"])
            out.append({"kind": "psd", "A": sym_matrix(rng, nn, kind), "mkind": kind,
                        "zero_entry": rng.random() < 0.1, "seed": seed})
        elif r < 0.9:
            nn = rng.choice([1, 2, 3, 4, 5])
            sd = [str(Fraction(rng.randint(1, 24), rng.choice([1, 2, 4, 8]))) for _ in range(nn)]
            corr = [[None] * nn for _ in range(nn)]
            for i in range(nn):
                corr[i][i] = "1"
                for j in range(i):
                    corr[i][j] = corr[j][i] = str(Fraction(rng.randint(-3, 3), 8 * nn))
            out.append({"kind": "conv", "sd": sd, "corr": corr, "tri": rng.randint(0, 40),
                        "flat": [str(rng.randint(-9, 9)) for _ in range(rng.choice([0, 1, 3, 6, 10, 15]))], "seed": seed})
        else:
            nb = rng.randint(0 if rng.random() < 0.08 else 1, 3)
            blocks = []
            for _ in range(nb):
                k = rng.choice([1, 1, 2, 3])
                sign = rng.choice(["pos", "neg", "zero", "mixed"])
                L = [[Fraction(0)] * k for _ in range(k)]
                for i in range(k):
                    L[i][i] = Fraction(rng.randint(2, 12), 8)
                    for j in range(i):
                        v = Fraction(rng.randint(1, 6), 16)
                        L[i][j] = {"pos": v, "neg": -v, "zero": Fraction(0), "mixed": v * rng.choice([1, -1, 0])}[sign]
                A = [[sum(L[i][t] * L[j][t] for t in range(k)) for j in range(k)] for i in range(k)]
                blocks.append({"A": [[str(x) for x in row] for row in A], "fix": rng.random() < 0.15})
            thetas = []
            for i in range(rng.randint(0, 3)):
                b = rng.random()
                init = Fraction(rng.randint(1, 400), 16)
                if b < 0.4:
                    thetas.append([str(init), "0", None])
                elif b < 0.7:
                    thetas.append([str(init), None, None])
                else:
                    thetas.append([str(init), str(init / 4), str(init * 3)])
            out.append({"kind": "ucp", "blocks": blocks, "thetas": thetas, "sigma": str(Fraction(rng.randint(1, 64), 64)),
                        "eps": rng.random() > 0.05, "seed": seed})
    return out


def _blk3():
    return {"names": ["ra", "rb", "rc"], "level": "IIV", "joint": True, "mean": ["0", "0", "0"],
            "var": [["A", "AB", "AC"], ["AB", "B", "BC"], ["AC", "BC", "C"]]}


def _nrm(n, v, level="IIV"):
    return {"names": [n], "level": level, "joint": False, "mean": ["0"], "var": [[v]]}


def corpus_cases():
    return [
        # removed variable in the middle / at the end of a larger block; join across two existing blocks
        {"kind": "ops", "dists": [_blk3(), _nrm("rd", "D"), _nrm("re", "VE", "RUV")],
         "ops": [["unjoin", ["rb"]], ["join", ["ra", "rd"], ["fill", "0"]], ["getitem", ["rd", "ra", "re"]]], "seed": 1},
        {"kind": "ops", "dists": [_blk3(), _nrm("rd", "D")], "ops": [["unjoin", ["rc"]]], "seed": 2},
        {"kind": "ops", "dists": [_blk3(), _nrm("rd", "D")],
         "ops": [["join", ["rc", "rd"], ["template", "IIV_", "_IIV_", "", ["p0", "p1"]]]], "seed": 3},
        {"kind": "ops", "dists": [_nrm("ra", "A"), _nrm("rb", "0")], "ops": [["join", ["ra", "rb"], ["fill", "1/8"]]], "seed": 4},
        # selections listed in another order than the block's, with a repeat, as symbols
        {"kind": "ops", "dists": [_blk3(), _nrm("rd", "D")],
         "ops": [["distget", 0, ["rc", "ra"]], ["distget", 1, ["rc", "rb", "rc"]], ["getitem", ["rd", "$rc", "ra", "rd"]],
                 ["unjoin", ["$ra"]]], "seed": 18},
        {"kind": "ops", "dists": [_blk3(), _nrm("rd", "D")], "ops": [["join", ["$rc", "rd"], ["fill", "0"]]], "seed": 19},
        {"kind": "ops", "dists": [_nrm("ra", "A")], "ops": [["join", [], ["fill", "0"]]], "seed": 5},
        {"kind": "ops", "dists": [_nrm("ra", "A"), _nrm("rb", "B")],
         "ops": [["join", ["ra", "rb"], ["fill", "0"]], ["subs", [["A", "B"], ["B", "A"]]], ["add", _nrm("ra", "3")]], "seed": 6},
        # clearly indefinite 3x3 and 4x4 blocks with pairwise different entries (|cov(1,3)| far above sqrt(var1*var3)):
        # the write-back of nearest_valid_parameters must put every entry of the nearest matrix at its own position
        {"kind": "psd", "A": [["1", "3/10", "12/5"], ["3/10", "9", "1/10"], ["12/5", "1/10", "4"]], "mkind": "indef",
         "zero_entry": False, "seed": 20},
        {"kind": "psd", "A": [["2", "1/2", "-3", "1/4"], ["1/2", "5", "1/3", "4"], ["-3", "1/3", "1", "1/5"], ["1/4", "4", "1/5", "3"]],
         "mkind": "indef", "zero_entry": False, "seed": 21},
        # the same through a model: invalid 3x3 block at Model.create, then covariances set from the variances
        {"kind": "model", "k": 3, "sd": ["1", "3", "2"], "part": [[0, 1, 2]],
         "vals": {"C_1_0": "3/10", "C_2_0": "12/5", "C_2_1": "1/10"}, "mode": "raw",
         "ops": [["setcorr", "1/2", False], ["neither"], ["setcorr", "5/4", True]], "seed": 22},
        {"kind": "psd", "A": [["1", "1/2", "1/4"], ["1/2", "1/4", "1/8"], ["1/4", "1/8", "1/16"]], "mkind": "singular",
         "zero_entry": False, "seed": 7},
        {"kind": "psd", "A": [["1", "2"], ["2", "1"]], "mkind": "indef", "zero_entry": False, "seed": 8},
        {"kind": "psd", "A": [["1", "0"], ["0", "-1"]], "mkind": "indef", "zero_entry": True, "seed": 9},
        {"kind": "ucp", "blocks": [{"A": [["1/2", "-1/10"], ["-1/10", "2/5"]], "fix": False}], "thetas": [["3/2", "0", None]],
         "sigma": "1/10", "eps": True, "seed": 10},
        {"kind": "ucp", "blocks": [], "thetas": [["3/2", "0", None]], "sigma": "1/10", "eps": True, "seed": 11},
        {"kind": "conv", "sd": ["2", "3"], "corr": [["1", "1/3"], ["1/3", "1"]], "tri": 10, "flat": ["1", "2", "3"], "seed": 12},
        # Model level: estimates valid for three separate etas, indefinite for the joint block (0.9/0.9/-0.9) ...
        {"kind": "model", "k": 3, "sd": ["1", "1", "1"], "part": [[0], [1], [2]],
         "vals": {"C_1_0": "9/10", "C_2_0": "9/10", "C_2_1": "-9/10"}, "mode": "raw",
         "ops": [["rvs", [[0, 1, 2]]], ["neither"], ["rvs", [[0], [1, 2]]]], "seed": 14},
        # ... and a covariance of 1.1 with unit variances; then valid values must stay as they are
        {"kind": "model", "k": 2, "sd": ["1", "1"], "part": [[0], [1]], "vals": {"C_1_0": "11/10"}, "mode": "raw",
         "ops": [["rvs", [[0, 1]]], ["params", {"C_1_0": "1/4"}], ["both", [[0], [1]], {"C_1_0": "3"}], ["rvs", [[0, 1]]]], "seed": 15},
        {"kind": "model", "k": 3, "sd": ["1", "3/2", "2"], "part": [[0], [1], [2]], "vals": {}, "mode": "modeling",
         "ops": [["cjd", None, [[1, 2, 5], [2, 4, 4], [3, 6, 3], [4, 9, 1]]], ["setcorr", "15/16", True], ["sjd", [1]],
                 ["remove_iiv", 0], ["add_iiv"], ["cjd", None, None]], "seed": 16},
        # shared parameters (IOV): two normals with one variance, one 2x2 block repeated per occasion
        {"kind": "shared", "dists": [
            {"names": ["ETA_KA_1"], "level": "IOV", "joint": False, "mean": ["0"], "var": [["IOV_KA"]]},
            {"names": ["ETA_KA_2"], "level": "IOV", "joint": False, "mean": ["0"], "var": [["IOV_KA"]]},
            {"names": ["ETA_CL_1", "ETA_V_1"], "level": "IOV", "joint": True, "mean": ["0", "0"],
             "var": [["IOV_CL", "C_IOV_V_IOV_CL"], ["C_IOV_V_IOV_CL", "IOV_V"]]},
            {"names": ["ETA_CL_2", "ETA_V_2"], "level": "IOV", "joint": True, "mean": ["0", "0"],
             "var": [["IOV_CL", "C_IOV_V_IOV_CL"], ["C_IOV_V_IOV_CL", "IOV_V"]]},
            {"names": ["EPS_1"], "level": "RUV", "joint": False, "mean": ["0"], "var": [["SIGMA"]]}],
         "sd": {"IOV_KA": "1/4", "IOV_CL": "1/2", "IOV_V": "3/4", "SIGMA": "1/8"},
         "corr": {"C_IOV_V_IOV_CL": ["1/4", "IOV_V", "IOV_CL"]}, "perm": [4, 2, 0, 3, 1],
         "ops": [["unjoin", ["ETA_V_1"]], ["join", ["ETA_KA_1", "ETA_KA_2"], ["fill", "0"]]], "seed": 17},
        {"kind": "conv", "sd": ["2", "3"], "corr": [["1", "0"], ["0", "1"]], "tri": 3, "flat": ["1", "2", "3", "4", "5", "6"], "seed": 13},
    ]


def shrink(case):
    if case["kind"] == "ops":
        ops = case["ops"]
        for i in range(len(ops)):
            if len(ops) > 1:
                c = dict(case)
                c["ops"] = ops[:i] + ops[i + 1:]
                yield c
        ds = case["dists"]
        for i in range(len(ds)):
            if len(ds) > 1:
                c = dict(case)
                c["dists"] = ds[:i] + ds[i + 1:]
                yield c
    elif case["kind"] == "shared":
        ds = case["dists"]
        for i in range(len(ds)):
            if len(ds) > 1:
                c = dict(case)
                c["dists"] = ds[:i] + ds[i + 1:]
                c["perm"] = list(range(len(c["dists"])))[::-1]
                c["ops"] = []
                yield c
        if case["ops"]:
            c = dict(case)
            c["ops"] = []
            yield c
    elif case["kind"] == "model":
        ops = case["ops"]
        for i in range(len(ops)):
            if len(ops) > 1:
                c = dict(case)
                c["ops"] = ops[:i] + ops[i + 1:]
                yield c
    elif case["kind"] == "ucp":
        for i in range(len(case["blocks"])):
            c = dict(case)
            c["blocks"] = case["blocks"][:i] + case["blocks"][i + 1:]
            yield c
        if case["thetas"]:
            c = dict(case)
            c["thetas"] = case["thetas"][1:]
            yield c


# ---------------------------------------------------------------- real-code side

def worker_init():
    global np, pd, sympy, Expr, Matrix, RandomVariables, NormalDistribution, JointNormalDistribution
    global Parameters, Parameter, Model, pmath, modeling, warnings
    import warnings  # noqa
    import numpy as np  # noqa
    import pandas as pd  # noqa
    import sympy  # noqa
    import pharmpy.internals.math as pmath  # noqa
    import pharmpy.modeling as modeling  # noqa
    from pharmpy.basic import Expr, Matrix  # noqa
    global Assignment, Statements, ExecutionSteps, EstimationStep
    from pharmpy.model import (Assignment, EstimationStep, ExecutionSteps, JointNormalDistribution,  # noqa
                               Model, NormalDistribution, Parameter, Parameters, RandomVariables, Statements)


def to_expr(s: str):
    if is_num(s):
        return Expr(sympy.Rational(s))
    return Expr.symbol(s)


_CREATED = {}   # (mean, matrix) -> (Matrix mean, Matrix variance) of a distribution made by the real `create`


def build_dist(d):
    """The first distribution with a given mean vector and matrix goes through JointNormalDistribution.create (whose
    symbolic PSD test dominates the run time); repetitions of the same matrix (other names / level: the blocks of
    later occasions, the same collection built twice) reuse its Matrix objects through the constructor."""
    if d["joint"]:
        key = (tuple(d["mean"]), tuple(tuple(r) for r in d["var"]))
        hit = _CREATED.get(key)
        if hit is not None:
            return JointNormalDistribution(tuple(d["names"]), d["level"].upper(), hit[0], hit[1])
        dist = JointNormalDistribution.create(d["names"], d["level"], [to_expr(m) for m in d["mean"]],
                                              [[to_expr(x) for x in row] for row in d["var"]])
        if len(_CREATED) > 2000:
            _CREATED.clear()
        _CREATED[key] = (dist.mean, dist.variance)
        return dist
    return NormalDistribution.create(d["names"][0], d["level"], to_expr(d["mean"][0]), to_expr(d["var"][0][0]))


def wire_entry(e):
    s = sympy.sympify(e)
    if s.is_Symbol:
        return s.name
    if s.is_Rational:
        return ["q", str(s.p), str(s.q)]
    raise RuntimeError(f"entry outside the modelled fragment: {s!r}")


def wire_dist(d):
    if isinstance(d, JointNormalDistribution):
        n = len(d.names)
        return [list(d.names), d.level, "true", [wire_entry(d.mean[i, 0]) for i in range(d.mean.rows)],
                [[wire_entry(d.variance[i, j]) for j in range(d.variance.cols)] for i in range(d.variance.rows)]]
    return [list(d.names), d.level, "false", [wire_entry(d.mean)], [[wire_entry(d.variance)]]]


def wire_rvs(rvs):
    return [wire_dist(d) for d in rvs]


def wire_spec(d):
    """case-JSON distribution -> wire (for distributions that are arguments of an op)."""
    return wire_dist(build_dist(d))


def entry_to_wire(s: str):
    if is_num(s):
        f = Fraction(s)
        return ["q", str(f.numerator), str(f.denominator)]
    return s


def exc_class(e):
    return ["err", type(e).__name__]


def blocks_of(rvs):
    return [tuple(d.names) for d in rvs]


def block_index(rvs):
    m = {}
    for i, d in enumerate(rvs):
        for n in d.names:
            m.setdefault(n, i)
    return m


def dist_cov(d, a, b):
    """entry of the block holding a and b, read from the distribution object itself"""
    if isinstance(d, JointNormalDistribution):
        i, j = d.names.index(a), d.names.index(b)
        return sympy.sympify(d.variance[i, j])
    return sympy.sympify(d.variance)


def cov_table(rvs):
    """{(a, b): entry} for pairs in one block, read block by block (independent of get_covariance)."""
    t = {}
    for d in rvs:
        for a in d.names:
            for b in d.names:
                t.setdefault((a, b), dist_cov(d, a, b))
    return t


def contiguous(sub, seq):
    pos = [i for i, x in enumerate(seq) if x in sub]
    return not pos or pos == list(range(pos[0], pos[-1] + 1))


def M(cls, what):
    return {"cls": cls, "what": what}


def check_matrix(rvs, mon, label):
    """overall covariance matrix == block-diagonal composition; get_covariance agrees"""
    names = rvs.names
    try:
        C = rvs.covariance_matrix
    except Exception as e:
        mon.append(M("internal-error", f"{label}: covariance_matrix raised {type(e).__name__}: {e}"))
        return
    if C.rows != len(names) or C.cols != len(names):
        mon.append(M("cov-matrix-shape", f"{label}: covariance_matrix is {C.rows}x{C.cols} for {len(names)} names"))
        return
    if len(set(names)) != len(names):
        return
    bi = block_index(rvs)
    t = cov_table(rvs)
    for i, a in enumerate(names):
        for j, b in enumerate(names):
            want = t[(a, b)] if bi[a] == bi[b] else sympy.Integer(0)
            got = sympy.sympify(C[i, j])
            if got != want:
                mon.append(M("cov-matrix-not-block-diagonal",
                             f"{label}: covariance_matrix[{a},{b}]={got}, composition of the blocks gives {want}"))
                return
    for a, b in [(names[0], names[-1]), (names[-1], names[0]), (names[len(names) // 2], names[0])] if names else []:
        got = sympy.sympify(rvs.get_covariance(a, b))
        want = t[(a, b)] if bi[a] == bi[b] else sympy.Integer(0)
        if got != want:
            mon.append(M("get-covariance", f"{label}: get_covariance({a},{b})={got}, block entry {want}"))
            return


def run_ops(case, drv):
    k, mon, tags = [], [], []
    try:
        with warnings.catch_warnings():
            warnings.simplefilter("ignore")
            rvs = RandomVariables.create([build_dist(d) for d in case["dists"]])
    except ValueError:
        return {"k": k, "mon": mon, "tags": ["gen-invalid-block"], "nontrivial": False}
    tags.append(f"nvars={len(rvs.names)}")
    tags.append(f"nblocks={len(rvs)}")
    changed_structure = False
    qrng = random.Random(case["seed"])
    check_matrix(rvs, mon, "initial")
    for op in case["ops"]:
        kind = op[0]
        if len(rvs.names) > 14:
            tags.append("state-too-large-stopped")
            break
        tags.append(f"op:{kind}")
        old = rvs
        real_inds = wire_inds = None
        has_expr = False
        if kind in ("unjoin", "join", "getitem"):
            raw = list(op[1])
            has_expr = any(x.startswith("$") for x in raw)
            real_inds = [Expr.symbol(x[1:]) if x.startswith("$") else x for x in raw]
            plain = [x[1:] if x.startswith("$") else x for x in raw]
            # unjoin / __getitem__ take a symbol for its name; join compares the items with the names (strings)
            wire_inds = ["sym:" + x[1:] if (x.startswith("$") and kind == "join") else (x[1:] if x.startswith("$") else x) for x in raw]
            op = [kind, plain] + list(op[2:])
            if has_expr:
                tags.append(f"{kind}:expr-symbols")
            if len(set(plain)) != len(plain):
                tags.append(f"{kind}:repeated-name")
        w_old = wire_rvs(old)
        oldnames = old.names
        unique = len(set(oldnames)) == len(oldnames)
        ob = block_index(old)
        ot = cov_table(old)
        new = None
        code = None
        extra = None
        req = None
        try:
            if kind == "unjoin":
                req = ["unjoin", w_old, wire_inds]
                new = old.unjoin(real_inds)
            elif kind == "join":
                fill = op[2]
                if fill[0] == "fill":
                    req = ["join", w_old, wire_inds, ["fill", entry_to_wire(fill[1])]]
                    fv = to_expr(fill[1])
                    fv = 0 if fv == 0 else fv
                    new, extra = old.join(real_inds, fill=fv)
                else:
                    req = ["join", w_old, wire_inds, ["template", fill[1], fill[2], fill[3], fill[4]]]
                    new, extra = old.join(real_inds, name_template=fill[1] + "{}" + fill[2] + "{}" + fill[3],
                                          param_names=list(fill[4]))
            elif kind == "getitem":
                req = ["getitem", w_old, wire_inds]
                new = old[list(real_inds)]
            elif kind == "subs":
                req = ["subs", w_old, [[a, entry_to_wire(b)] for a, b in op[1]]]
                new = old.subs({Expr.symbol(a): to_expr(b) for a, b in op[1]})
            elif kind == "add":
                d = build_dist(op[1])
                req = ["add", w_old, wire_dist(d)]
                new = old + d
            elif kind == "addrvs":
                ds = [build_dist(d) for d in op[1]]
                req = ["addrvs", w_old, [wire_dist(d) for d in ds]]
                new = old + ds
            elif kind == "create":
                req = ["create", w_old]
                new = RandomVariables.create(list(old))
            elif kind == "distget":
                if len(old) == 0:
                    continue
                joint = [d for d in old if isinstance(d, JointNormalDistribution)]
                if not joint:
                    continue
                d = joint[op[1] % len(joint)]
                as_expr = False
                if op[2] and isinstance(op[2][0], str):      # explicit selection (corpus)
                    sel = list(op[2])
                    op = ["distget", op[1], sel, []]
                else:
                    sel = [n for n, m_ in zip(d.names, op[2]) if m_] + list(op[3])
                if len(op) > 4:      # the caller's order: shuffled, possibly a repeated name, possibly one Expr symbol
                    r2 = random.Random(op[4])
                    if op[5] and sel:
                        sel.append(r2.choice(sel))
                    r2.shuffle(sel)
                    as_expr = bool(op[6]) and bool(sel)
                op = ["distget", op[1], sel]
                real_sel = list(sel)
                wire_sel = list(sel)
                if as_expr:          # JointNormalDistribution[...] takes names (and ints) only: an Expr is refused
                    real_sel[0] = Expr.symbol(sel[0])
                    wire_sel[0] = "sym:" + sel[0]
                if [n for n in d.names if n in sel] != [n for n in sel if n in d.names]:
                    tags.append("distget:not-in-block-order")
                req = ["distget", wire_dist(d), wire_sel]
                res = d[real_sel if r_tuple(op[1]) else tuple(real_sel)]
                code = ["ok", wire_dist(res)]
                # monitor: restriction of the block
                if list(res.names) != [n for n in d.names if n in op[2]]:
                    mon.append(M("dist-getitem-names", f"{d.names}[{op[2]}] has names {res.names}"))
                for a in res.names:
                    for b in res.names:
                        if dist_cov(res, a, b) != dist_cov(d, a, b):
                            mon.append(M("dist-getitem-cov", f"{d.names}[{op[2]}]: cov({a},{b}) changed"))
        except Exception as e:      # whatever the code under test raises is an observation, never a harness error
            code = exc_class(e)
            tags.append(f"{kind}-raises-{type(e).__name__}")
            # documented refusals: join of a non-existing variable (KeyError), duplicate names (ValueError),
            # unknown level (ValueError), JointNormalDistribution[bad collection] (KeyError)
            refusal = (
                (kind == "join" and isinstance(e, KeyError) and any(i not in oldnames for i in op[1]))
                or (kind in ("subs", "create") and isinstance(e, ValueError) and "unique" in str(e))
                or (kind == "add" and isinstance(e, ValueError) and op[1]["level"] not in LEVELS)
                or (kind == "distget" and isinstance(e, KeyError))
            )
            if (kind == "join" and has_expr and isinstance(e, KeyError) and all(i in oldnames for i in op[1])):
                mon.append(M("join-expr-symbol-keyerror", f"join({real_inds}) raised KeyError although every variable exists: "
                             f"a symbol is compared with the names (strings)"))
            elif not refusal and not unique:
                tags.append("error-in-state-with-duplicate-names")
            elif not refusal:
                if kind == "join" and isinstance(e, IndexError) and len(op[1]) == 0:
                    mon.append(M("join-empty-indexerror", f"join([]) raised IndexError: {e}"))
                else:
                    mon.append(M("internal-error", f"{kind}{op[1:]} raised {type(e).__name__}: {e}"))
        if new is not None:
            code = ["ok", wire_rvs(new)] if kind not in ("unjoin", "getitem", "addrvs") else wire_rvs(new)
            if kind == "join":
                named = sorted([nm, a, b] for nm, (a, b) in extra.items())
                code = ["ok", [wire_rvs(new), named]]
        # ---- K
        if drv is not None and req is not None and code is not None:
            m = drv.ask(req)
            cm = _norm(code)
            if kind == "join" and isinstance(m, list) and m and m[0] == "ok":
                m = ["ok", [m[1][0], sorted([[wire_name(t[0]), wire_name(t[1]), wire_name(t[2])] for t in m[1][1]])]]
            if m != cm:
                k.append(f"{kind}{op[1:]} on {blocks_of(old)}: model {str(m)[:300]} code {str(cm)[:300]}")
        if new is None:
            continue
        rvs = new
        newnames = new.names
        if blocks_of(new) != blocks_of(old):
            changed_structure = True
        nb = block_index(new)
        nt = cov_table(new)
        label = f"{kind}{op[1:]} on {blocks_of(old)}"
        # ---- monitors (the property statement on the real objects)
        if not unique:
            tags.append("state-with-duplicate-names")
            check_queries(new, drv, k, mon, tags, label, qrng)
            continue
        if kind in ("unjoin", "join", "create"):
            if sorted(newnames) != sorted(oldnames):
                mon.append(M("names-not-preserved", f"{label}: names {oldnames} -> {newnames}"))
                continue
        if kind == "getitem":
            want = [n for n in oldnames if n in op[1]]
            if newnames != want:
                mon.append(M("getitem-names", f"{label}: names {newnames}, expected {want}"))
                continue
        if kind in ("add", "addrvs"):
            added = [n for d in (op[1] if kind == "addrvs" else [op[1]]) for n in d["names"]]
            if newnames != oldnames + added:
                mon.append(M("add-names", f"{label}: names {newnames}, expected {oldnames + added}"))
                continue
            if len(set(newnames)) != len(newnames):
                tags.append("add-accepts-duplicate-name")
        if kind in ("unjoin", "join", "getitem", "create", "add", "addrvs"):
            inds = set(op[1]) if kind in ("unjoin", "join") else set()
            for a in newnames:
                if a not in ob:
                    continue
                for b in newnames:
                    if b not in ob or nb[a] != nb[b]:
                        continue
                    newc = nt[(a, b)]
                    same_old = ob[a] == ob[b]
                    oldc = ot[(a, b)] if same_old else sympy.Integer(0)
                    if a == b:
                        if newc != oldc:
                            zero_var = kind == "join" and oldc == 0 and op[2][0] == "fill" and op[2][1] != "0"
                            mon.append(M("join-fill-overwrites-zero-variance" if zero_var else "variance-not-preserved",
                                         f"{label}: variance of {a} {oldc} -> {newc}"))
                        continue
                    if kind == "join" and a in inds and b in inds and oldc == 0:
                        # a new covariance (or a previous zero one, documented): fill / named symbol / 0
                        if op[2][0] == "fill":
                            wantc = sympy.sympify(to_expr(op[2][1]))
                            if newc != wantc:
                                mon.append(M("join-new-covariance", f"{label}: new cov({a},{b})={newc}, fill {wantc}"))
                        else:
                            jn = [n for n in oldnames if n in inds]
                            i, j = sorted((jn.index(a), jn.index(b)))
                            pn = op[2][4]
                            wantc = sympy.Symbol(op[2][1] + pn[i] + op[2][2] + pn[j] + op[2][3]) if max(i, j) < len(pn) else None
                            if wantc is not None and newc != wantc:
                                mon.append(M("join-new-covariance", f"{label}: new cov({a},{b})={newc}, expected {wantc}"))
                        if newc != nt[(b, a)]:
                            mon.append(M("join-asymmetric", f"{label}: cov({a},{b})={newc} but cov({b},{a})={nt[(b, a)]}"))
                        continue
                    if not same_old and not (kind == "join" and a in inds and b in inds):
                        mon.append(M("blocks-merged", f"{label}: {a} and {b} were in different blocks and are now in one"))
                        continue
                    if newc != oldc:
                        mon.append(M("covariance-not-preserved", f"{label}: cov({a},{b}) {oldc} -> {newc}"))
            # block membership
            if kind == "unjoin":
                for a in newnames:
                    if a in inds and len(new[nb[a]].names) != 1:
                        mon.append(M("unjoin-still-joint", f"{label}: {a} is still in block {new[nb[a]].names}"))
            if kind == "join" and not inds and (new != old or extra):
                mon.append(M("join-empty-changes-collection", f"{label}: join([]) returned a different collection or new parameters"))
            if kind == "join" and inds:
                blk = {tuple(new[nb[a]].names) for a in inds}
                if len(blk) != 1 or set(next(iter(blk))) != inds:
                    mon.append(M("join-block", f"{label}: joined variables are in blocks {sorted(blk)}"))
                if len({old[ob[a]].level for a in inds}) > 1:
                    tags.append("join-mixed-levels")
            if kind in ("unjoin", "join", "getitem"):
                for a in newnames:
                    for b in newnames:
                        if a in inds or b in inds or a not in ob or b not in ob:
                            continue
                        if (ob[a] == ob[b]) != (nb[a] == nb[b]):
                            mon.append(M("untouched-block-changed", f"{label}: {a},{b} together before: {ob[a] == ob[b]}, after: {nb[a] == nb[b]}"))
            # order: changes only as far as needed to keep each joint block contiguous
            if kind in ("unjoin", "join") and newnames != oldnames:
                touched = [d for d in old if isinstance(d, JointNormalDistribution) and inds & set(d.names)]
                rest_ok = all(contiguous(set(d.names) - inds, list(d.names)) for d in touched)
                joined_ok = kind == "unjoin" or contiguous(inds, oldnames)
                if rest_ok and joined_ok:
                    mon.append(M(f"{kind}-needless-reorder", f"{label}: names {oldnames} -> {newnames} although the required "
                                 f"blocks are contiguous in the original order"))
        if kind == "subs":
            sub = {sympy.Symbol(a): sympy.sympify(to_expr(b)) for a, b in op[1]}
            ren = {a: b for a, b in op[1]}
            want = [ren.get(n, n) for n in oldnames]
            if newnames != want:
                mon.append(M("subs-names", f"{label}: names {newnames}, expected {want}"))
            else:
                for a, fa in zip(oldnames, want):
                    for b, fb in zip(oldnames, want):
                        if ob[a] != ob[b]:
                            continue
                        wantc = ot[(a, b)].xreplace(sub)
                        if nb.get(fa) != nb.get(fb) or nt[(fa, fb)] != wantc:
                            mon.append(M("subs-covariance", f"{label}: cov({fa},{fb}) is not the substituted {wantc}"))
        if len(set(newnames)) == len(newnames) or kind in ("add", "addrvs"):
            pass
        else:
            mon.append(M("names-not-unique", f"{label}: names {newnames}"))
        check_matrix(new, mon, label)
        check_queries(new, drv, k, mon, tags, label, qrng)
    check_sample_inputs(rvs, qrng, mon, tags)
    return {"k": k, "mon": _dedupe(mon), "tags": tags, "nontrivial": changed_structure}


def check_sample_inputs(rvs, rng, mon, tags):
    """what RandomVariables.sample feeds to the sampler: filter_distributions (restriction of every block to the
    symbols of the expression) and subs_distributions (the numeric covariance of each restricted block)"""
    from pharmpy.model.random_variables import filter_distributions, subs_distributions
    names = rvs.names
    if not names or len(set(names)) != len(names):
        return
    sub = set(rng.sample(names, rng.randint(1, len(names))))
    tags.append("sample-inputs")
    try:
        ys = list(filter_distributions(rvs, {sympy.Symbol(n) for n in sub}))
    except Exception as e:
        mon.append(M("internal-error", f"filter_distributions({sorted(sub)}) raised {type(e).__name__}: {e}"))
        return
    t = cov_table(rvs)
    want = [tuple(n for n in d.names if n in sub) for d in rvs if any(n in sub for n in d.names)]
    if [tuple(y.names) for y in ys] != want:
        mon.append(M("filter-distributions-names", f"filter_distributions({sorted(sub)}) on {blocks_of(rvs)} yields "
                     f"{[tuple(y.names) for y in ys]}, expected {want}"))
        return
    vals = {}
    for y in ys:
        for a in y.names:
            for b in y.names:
                if dist_cov(y, a, b) != t[(a, b)]:
                    mon.append(M("filter-distributions-cov", f"filter_distributions({sorted(sub)}): cov({a},{b})="
                                 f"{dist_cov(y, a, b)} in the restricted block, {t[(a, b)]} in the collection"))
                    return
                for sym_ in t[(a, b)].free_symbols:
                    vals.setdefault(sym_, rng.randint(1, 64) / 16)
    for y in ys:
        if isinstance(y, JointNormalDistribution) and all(sympy.sympify(m_) == 0 for m_ in y.mean):
            try:
                nd = y.evalf(vals)
            except Exception as e:
                mon.append(M("internal-error", f"evalf of the restricted block {y.names} raised {type(e).__name__}: {e}"))
                return
            sig = np.array(nd._sigma, dtype=float)
            for i, a in enumerate(y.names):
                for j, b in enumerate(y.names):
                    w_ = float(t[(a, b)].xreplace(vals))
                    if not close(float(sig[i, j]), w_, rel=1e-12, abs_=1e-15):
                        mon.append(M("sample-inputs-cov", f"numeric covariance of ({a},{b}) handed to the sampler is {sig[i, j]}, "
                                     f"the collection has {w_}"))
                        return


def r_tuple(k):
    """list or tuple as the collection type, decided by the case"""
    return k % 2 == 0


def wire_name(x):
    return x if isinstance(x, str) else (x[1] if x[2] == "1" else f"{x[1]}/{x[2]}")


def check_queries(rvs, drv, k, mon, tags, label, rng=None):
    """names / covariance_matrix / get_covariance / variance_parameters: K only"""
    if drv is None:
        return
    w = wire_rvs(rvs)
    m = drv.ask(["names", w])
    if m != list(rvs.names):
        k.append(f"names after {label}: model {m} code {rvs.names}")
    means, C, nms = rvs._calc_covariance_matrix()
    code = _norm([[wire_entry(x) for x in means], [[wire_entry(C[i, j]) for j in range(C.cols)] for i in range(C.rows)], list(nms)])
    m = drv.ask(["cov", w])
    if m != code:
        k.append(f"_calc_covariance_matrix after {label}: model {str(m)[:300]} code {str(code)[:300]}")
    names = rvs.names
    probes = []
    if names:
        probes = [(names[0], names[-1]), (names[-1], names[len(names) // 2]), (names[0], "nope")]
    if rng is not None and names:
        for _ in range(2):
            probes.append((rng.choice(names), rng.choice(names)))
    for a, b in probes:
        try:
            ra = Expr.symbol(a) if (rng is not None and rng.random() < 0.3) else a
            rb = Expr.symbol(b) if (rng is not None and rng.random() < 0.3) else b
            code = ["ok", _norm(wire_entry(rvs.get_covariance(ra, rb)))]
        except Exception as e:
            code = exc_class(e)
        m = drv.ask(["getcov", w, a, b])
        if m != code:
            k.append(f"get_covariance({a},{b}) after {label}: model {m} code {code}")
    try:
        code = ["ok", list(rvs.variance_parameters)]
    except ValueError as e:
        code = exc_class(e)
        tags.append("variance_parameters-refuses-numeric-variance")
    m = drv.ask(["varparams", w])
    if m != code:
        k.append(f"variance_parameters after {label}: model {m} code {code}")


def _dedupe(mon):
    seen, out = set(), []
    for m in mon:
        if m["cls"] not in seen:
            seen.add(m["cls"])
            out.append(m)
    return out


def _norm(x):
    if isinstance(x, (list, tuple)):
        return [_norm(y) for y in x]
    return str(x)


# ---------------------------------------------------------------- exact rational linear algebra

def frac_matrix(rows):
    return [[Fraction(x) for x in row] for row in rows]


def exact_psd(A):
    """A symmetric matrix of Fractions is PSD? (symmetric elimination, exact)"""
    n = len(A)
    A = [row[:] for row in A]
    for p in range(n):
        d = A[p][p]
        if d < 0:
            return False
        if d == 0:
            if any(A[p][j] != 0 for j in range(p, n)):
                return False
            continue
        for i in range(p + 1, n):
            f = A[i][p] / d
            if f != 0:
                for j in range(p + 1, n):
                    A[i][j] -= f * A[p][j]
    return True


def exact_pd(A):
    n = len(A)
    bound = 0
    A = [row[:] for row in A]
    for p in range(n):
        d = A[p][p]
        if d <= bound:
            return False
        for i in range(p + 1, n):
            f = A[i][p] / d
            if f != 0:
                for j in range(p + 1, n):
                    A[i][j] -= f * A[p][j]
    return True


def float_to_frac_matrix(B):
    return [[Fraction(float(x)) for x in row] for row in B]


def plus_tol(A, tol):
    return [[A[i][j] + (tol if i == j else 0) for j in range(len(A))] for i in range(len(A))]


def _k_nearblocks(rvs, tbl, values, near, drv, k, label):
    """K for the write-back of nearest_valid_parameters: every joint block read back from the result
    (`dist.variance.subs(nearest)`, the real code) against the Lean `blockAfter` of the model's assignments
    (driver op `nearblocks`; "-" = the model wrote nothing there, the given value stays)."""
    m = drv.ask(["nearblocks", wire_rvs(rvs), tbl])
    joint = [d for d in rvs if isinstance(d, JointNormalDistribution)]
    if not isinstance(m, list) or len(m) != len(joint):
        k.append(f"{label}: nearblocks answered {str(m)[:200]} for {len(joint)} joint blocks")
        return
    for d, mb in zip(joint, m):
        n = d.variance.rows
        code, model = [], []
        for i in range(n):
            for j in range(n):
                e = sympy.sympify(d.variance[i, j])
                if e.is_Symbol:
                    code.append(repr(float(near[e.name])) if e.name in near else "missing")
                    model.append(mb[i][j] if mb[i][j] != "-" else (repr(float(values[e.name])) if e.name in values else "missing"))
                else:
                    code.append("num")
                    model.append("num" if mb[i][j] == "-" else mb[i][j])
        if code != model:
            pos = next(t for t in range(n * n) if code[t] != model[t])
            k.append(f"{label}: block {list(d.names)} read back after nearest_valid_parameters: position "
                     f"({pos // n},{pos % n}) is {code[pos]} in the code, {model[pos]} in the model "
                     f"(code {code}, model {model})")
            return


def run_psd(case, drv):
    k, mon, tags = [], [], []
    A = frac_matrix(case["A"])
    n = len(A)
    scale = max(1, max(abs(x) for row in A for x in row))
    tol = Fraction(1, 10 ** 9) * scale
    Af = np.array([[float(x) for x in row] for row in A])
    valid = exact_psd(A)
    # positive definite and not numerically singular: smallest eigenvalue >= 1e-10*max(1,max|A|) (exact test)
    pd_ = exact_psd(plus_tol(A, -Fraction(1, 10 ** 10) * scale))
    tags += [f"psd:n={n}", f"psd:{case['mkind']}", "psd:valid" if valid else "psd:invalid"]
    if valid and not pd_:
        tags.append("psd:valid-singular")
    # ---- nearest_positive_semidefinite with recorded is_positive_semidefinite answers
    answers = []
    real_isp = pmath.is_positive_semidefinite

    def rec(X):
        r = bool(real_isp(X))
        answers.append(r)
        return r

    pmath.is_positive_semidefinite = rec
    try:
        with warnings.catch_warnings():
            warnings.simplefilter("ignore")
            A_in = Af.copy()
            B = pmath.nearest_positive_semidefinite(A_in)
    finally:
        pmath.is_positive_semidefinite = real_isp
    same = B is A_in
    if same:
        path = "same"
    elif len(answers) == 2:
        path = "higham"
    else:
        path = ["bumped", str(len(answers) - 2)]
    tags.append("nearest-path:" + (path if isinstance(path, str) else "bumped"))
    if drv is not None:
        ans = answers[:2] + answers[3:]
        if len(answers) > 2 and answers[2] != answers[1]:
            k.append(f"is_positive_semidefinite gave two answers for the same matrix: {answers}")
        m = drv.ask(["nearpath", ["true" if a else "false" for a in ans]])
        if m != path:
            k.append(f"nearest_positive_semidefinite path: model {m} code {path} (answers {answers})")
    if not np.array_equal(A_in, Af) and not same:
        tags.append("nearest-mutates-input")
    Bq = float_to_frac_matrix(B)
    if valid:
        if not same and Bq != A:
            cls = "nearest-alters-singular-psd" if not pd_ else "nearest-alters-valid"
            dmax = max(abs(Bq[i][j] - A[i][j]) for i in range(n) for j in range(n))
            mon.append(M(cls, f"A={case['A']} is exactly PSD{'' if pd_ else ' (smallest eigenvalue below 1e-10*max(1,max|A|))'} but nearest_positive_semidefinite "
                         f"returned a different matrix (max change {float(dmax):.3g})"))
    else:
        if same:
            mon.append(M("nearest-keeps-invalid", f"A={case['A']} is not PSD (exact test) but was returned unchanged"))
    if not same:
        if any(abs(Bq[i][j] - Bq[j][i]) > tol for i in range(n) for j in range(n)):
            mon.append(M("nearest-asymmetric", f"nearest({case['A']}) is not symmetric"))
        sym = [[(Bq[i][j] + Bq[j][i]) / 2 for j in range(n)] for i in range(n)]
        if not exact_psd(plus_tol(sym, tol)):
            mon.append(M("nearest-not-psd", f"nearest({case['A']})={B.tolist()} is not PSD within tol={float(tol):.3g}"))
        D = [[sym[i][j] - A[i][j] for j in range(n)] for i in range(n)]
        tr = sum(sym[i][j] * D[j][i] for i in range(n) for j in range(n))
        if not exact_psd(plus_tol(D, tol)) or abs(tr) > Fraction(1, 10 ** 7) * scale * scale:
            mon.append(M("nearest-not-nearest", f"nearest({case['A']})={B.tolist()} is not the Frobenius projection "
                         f"(B-A PSD: {exact_psd(plus_tol(D, tol))}, trace(B(B-A))={float(tr):.3g})"))
    # ---- validate_parameters / nearest_valid_parameters / Model._canonicalize_parameter_estimates
    names = [f"x{i}" for i in range(n)]
    zero_entry = case.get("zero_entry") and n >= 2 and A[1][0] == 0
    var = [[Expr.symbol(f"P{max(i, j)}{min(i, j)}") for j in range(n)] for i in range(n)]
    if zero_entry:
        var[1][0] = var[0][1] = Expr.integer(0)
        tags.append("psd:block-with-numeric-entry")
    if n >= 2:
        dist = JointNormalDistribution(tuple(names), "IIV", Matrix([0] * n), Matrix(var))
    else:
        dist = JointNormalDistribution(tuple(names), "IIV", Matrix([0]), Matrix(var))
    other = NormalDistribution.create("y", "IIV", 0, Expr.symbol("PY"))
    rvs = RandomVariables.create([other, dist])
    values = {"PY": 0.5}
    for i in range(n):
        for j in range(i + 1):
            if not (zero_entry and (i, j) == (1, 0)):
                values[f"P{i}{j}"] = float(A[i][j])
    with warnings.catch_warnings():
        warnings.simplefilter("ignore")
        ok = rvs.validate_parameters(values)
        try:
            near = rvs.nearest_valid_parameters(values)
            near_code = None
        except ValueError as e:
            near = None
            near_code = exc_class(e)
            if "no name" in str(e):
                mon.append(M("nearest-valid-numeric-entry-error",
                             f"nearest_valid_parameters raised ValueError('{e}') for a block with a numeric entry"))
            else:
                mon.append(M("internal-error", f"nearest_valid_parameters raised ValueError: {e}"))
    if bool(ok) != bool(answers[0]):
        mon.append(M("validate-disagrees", f"validate_parameters={ok}, is_positive_semidefinite={answers[0]} for {case['A']}"))
    if near is not None:
        if valid and pd_ and near != values:
            mon.append(M("nearest-valid-alters-valid", f"valid values {values} changed to {near}"))
        if near.get("PY") != 0.5:
            mon.append(M("nearest-valid-frame", f"value of a parameter outside the block changed: {near.get('PY')}"))
        if not same and not zero_entry:
            for i in range(n):
                for j in range(i + 1):
                    if near[f"P{i}{j}"] != B[i, j]:
                        mon.append(M("nearest-valid-values", f"nearest_valid_parameters[P{i}{j}]={near[f'P{i}{j}']}, "
                                     f"nearest matrix has {B[i, j]}"))
        ps = Parameters.create([Parameter.create(nm, v) for nm, v in values.items()])
        with warnings.catch_warnings():
            warnings.simplefilter("ignore")
            ps2 = Model._canonicalize_parameter_estimates(ps, rvs)
        if bool(ok):
            if ps2 is not ps and ps2.inits != ps.inits:
                mon.append(M("canonicalize-alters-valid", f"valid initial estimates changed: {ps.inits} -> {ps2.inits}"))
        else:
            if not rvs.validate_parameters(ps2.inits):
                mon.append(M("canonicalize-leaves-invalid", f"initial estimates still invalid: {ps2.inits}"))
    if drv is not None:
        w = wire_rvs(rvs)
        wv = [[wire_entry(x) for x in row] for row in var]
        m = drv.ask(["validate", w, [[wv, "true" if answers[0] else "false"]]])
        if m != ("true" if ok else "false"):
            k.append(f"validate_parameters: model {m} code {ok}")
        tbl = [[wv, "same" if same else [[repr(float(B[i, j])) for j in range(n)] for i in range(n)]]]
        m = drv.ask(["nearestvalid", w, tbl, [[kk, repr(float(v))] for kk, v in values.items()]])
        if near is None:
            code = near_code
        else:
            code = ["ok", [[kk, repr(float(v))] for kk, v in near.items()]]
        if m[0] == "ok" and code[0] == "ok":
            if dict(map(tuple, m[1])) != dict(map(tuple, code[1])):
                k.append(f"nearest_valid_parameters: model {m} code {code}")
        elif m != code:
            k.append(f"nearest_valid_parameters: model {m} code {code}")
        if near is not None:
            _k_nearblocks(rvs, tbl, values, near, drv, k, "nearest_valid_parameters")
    if not valid and not same and n >= 3:
        tags.append(f"nvp:invalid-block-dim={n}")
    return {"k": k, "mon": _dedupe(mon), "tags": tags, "nontrivial": n >= 2}


def close(a, b, rel=1e-12, abs_=0.0):
    return abs(a - b) <= rel * max(abs(a), abs(b)) + abs_


def run_conv(case, drv):
    k, mon, tags = [], [], []
    sd = [Fraction(x) for x in case["sd"]]
    corr = frac_matrix(case["corr"])
    n = len(sd)
    cov = [[sd[i] * corr[i][j] * sd[j] for j in range(n)] for i in range(n)]
    tags.append(f"conv:n={n}")
    covf = np.array([[float(x) for x in row] for row in cov]).reshape(n, n)
    sdf = np.array([float(x) for x in sd])
    with warnings.catch_warnings():
        warnings.simplefilter("ignore")
        c1 = pmath.cov2corr(covf.copy())
        back = pmath.corr2cov(c1, sdf)
    for i in range(n):
        for j in range(n):
            if not close(c1[i, j], float(corr[i][j]), abs_=1e-15):
                mon.append(M("cov2corr", f"cov2corr entry ({i},{j}) {c1[i, j]} expected {float(corr[i][j])}"))
            if not close(back[i, j], covf[i, j], abs_=1e-15):
                mon.append(M("sdcorr-roundtrip", f"corr2cov(cov2corr(C), sd)[{i},{j}]={back[i, j]}, C has {covf[i, j]}"))
    # pharmpy.modeling conversions (DataFrames)
    idx = [f"p{i}" for i in range(n)]
    cdf = pd.DataFrame(covf, index=idx, columns=idx)
    se = modeling.calculate_se_from_cov(cdf)
    cr = modeling.calculate_corr_from_cov(cdf)
    back2 = modeling.calculate_cov_from_corrse(cr, se)
    if not all(close(back2.values[i, j], covf[i, j], abs_=1e-15) for i in range(n) for j in range(n)):
        mon.append(M("sdcorr-roundtrip", f"calculate_cov_from_corrse(calculate_corr_from_cov(C), calculate_se_from_cov(C)) != C for {case}"))
    if list(back2.index) != idx or list(back2.columns) != idx:
        mon.append(M("sdcorr-labels", "conversion lost the parameter labels"))
    if exact_pd(cov):
        prec = modeling.calculate_prec_from_cov(cdf)
        back3 = modeling.calculate_cov_from_prec(prec)
        cond = float(np.linalg.cond(covf))
        if cond < 1e4 and not all(close(back3.values[i, j], covf[i, j], rel=1e-9, abs_=1e-12) for i in range(n) for j in range(n)):
            mon.append(M("prec-roundtrip", f"calculate_cov_from_prec(calculate_prec_from_cov(C)) != C for {case}"))
        c4 = modeling.calculate_corr_from_prec(prec)
        s4 = modeling.calculate_se_from_prec(prec)
        if cond < 1e4 and not all(close(c4.values[i, j], float(corr[i][j]), rel=1e-9, abs_=1e-12) for i in range(n) for j in range(n)):
            mon.append(M("prec-roundtrip", f"calculate_corr_from_prec differs from the correlation for {case}"))
        if cond < 1e4 and not all(close(s4.values[i], float(sd[i]), rel=1e-9) for i in range(n)):
            mon.append(M("prec-roundtrip", f"calculate_se_from_prec differs from the standard deviations for {case}"))
        tags.append("conv:pd")
    # parameters_sdcorr on a symbolic block + a normal distribution
    if n >= 2:
        var = [[Expr.symbol(f"P{max(i, j)}{min(i, j)}") for j in range(n)] for i in range(n)]
        dist = JointNormalDistribution(tuple(f"x{i}" for i in range(n)), "IIV", Matrix([0] * n), Matrix(var))
        other = NormalDistribution.create("y", "IIV", 0, Expr.symbol("PY"))
        rvs = RandomVariables.create([dist, other])
        values = {f"P{i}{j}": float(cov[i][j]) for i in range(n) for j in range(i + 1)}
        values["PY"] = 6.25
        values["TH"] = 3.0
        with warnings.catch_warnings():
            warnings.simplefilter("ignore")
            sc = rvs.parameters_sdcorr(values)
        for i in range(n):
            for j in range(i + 1):
                want = float(sd[i]) if i == j else float(corr[i][j])
                if not close(float(sc[f"P{i}{j}"]), want, abs_=1e-15):
                    mon.append(M("parameters-sdcorr", f"parameters_sdcorr[P{i}{j}]={sc[f'P{i}{j}']}, expected {want}"))
        if corr[1][0] == 0:
            # the same block with the structural zero written as a number (what join(fill=0) produces)
            var0 = [row[:] for row in var]
            var0[1][0] = var0[0][1] = Expr.integer(0)
            dist0 = JointNormalDistribution(tuple(f"x{i}" for i in range(n)), "IIV", Matrix([0] * n), Matrix(var0))
            tags.append("conv:block-with-numeric-entry")
            try:
                with warnings.catch_warnings():
                    warnings.simplefilter("ignore")
                    sc0 = RandomVariables.create([dist0, other]).parameters_sdcorr(values)
                if not close(float(sc0["P00"]), float(sd[0])):
                    mon.append(M("parameters-sdcorr", f"parameters_sdcorr[P00]={sc0['P00']}, expected {float(sd[0])}"))
            except ValueError as e:
                mon.append(M("sdcorr-numeric-entry-error" if "no name" in str(e) else "internal-error",
                             f"parameters_sdcorr raised ValueError('{e}') for a block with a numeric entry"))
        if not close(float(sc["PY"]), 2.5) or sc["TH"] != 3.0:
            mon.append(M("parameters-sdcorr", f"parameters_sdcorr: PY={sc['PY']} (expected 2.5), TH={sc['TH']} (expected 3.0)"))
    # triangular_root / flattened_to_symmetric
    t = case["tri"]
    tn = t * (t + 1) // 2
    if pmath.triangular_root(tn) != t:
        mon.append(M("triangular-root", f"triangular_root({tn})={pmath.triangular_root(tn)}, expected {t}"))
    flat = [int(x) for x in case["flat"]]
    S = pmath.flattened_to_symmetric(flat) if flat else None
    if S is not None:
        m_ = S.shape[0]
        pos = 0
        for i in range(m_):
            for j in range(i + 1):
                if S[i, j] != flat[pos] or S[j, i] != flat[pos]:
                    mon.append(M("flattened-to-symmetric", f"flattened_to_symmetric({flat})[{i},{j}]={S[i, j]}, expected {flat[pos]}"))
                pos += 1
    if drv is not None:
        m = drv.ask(["triroot", tn])
        if m != str(pmath.triangular_root(tn)):
            k.append(f"triangular_root({tn}): model {m} code {pmath.triangular_root(tn)}")
        for x in (tn + 1, tn + t):
            m = drv.ask(["triroot", x])
            if m != str(pmath.triangular_root(x)):
                k.append(f"triangular_root({x}): model {m} code {pmath.triangular_root(x)}")
        if S is not None:
            m = drv.ask(["flat2sym", [["q", str(x), "1"] for x in flat]])
            code = [[["q", str(int(S[i, j])), "1"] for j in range(S.shape[1])] for i in range(S.shape[0])]
            if m != code:
                k.append(f"flattened_to_symmetric({flat}): model {m} code {code}")
        q = lambda f: ["q", str(f.numerator), str(f.denominator)]
        m = drv.ask(["cov2corr", [q(x) for x in sd], [[q(x) for x in row] for row in cov]])
        mc = [[Fraction(int(e[1]), int(e[2])) for e in row] for row in m]
        if any(not close(float(mc[i][j]), c1[i, j], abs_=1e-15) for i in range(n) for j in range(n)):
            k.append(f"cov2corr: model {mc} code {c1.tolist()}")
        m = drv.ask(["corr2cov", [[q(x) for x in row] for row in corr], [q(x) for x in sd]])
        mc = [[Fraction(int(e[1]), int(e[2])) for e in row] for row in m]
        c5 = pmath.corr2cov(np.array([[float(x) for x in row] for row in corr]).reshape(n, n), sdf)
        if any(not close(float(mc[i][j]), c5[i, j], abs_=1e-15) for i in range(n) for j in range(n)):
            k.append(f"corr2cov: model {mc} code {c5.tolist()}")
        if mc != cov:
            k.append("corr2cov model is not exact")
    return {"k": k, "mon": _dedupe(mon), "tags": tags, "nontrivial": n >= 2}


def run_ucp(case, drv):
    k, mon, tags = [], [], []
    params, dists = [], []
    inits = {}
    ei = 0
    has_neg = False
    for bi, b in enumerate(case["blocks"]):
        A = frac_matrix(b["A"])
        kk = len(A)
        names = [f"eta{ei + i + 1}" for i in range(kk)]
        ei += kk
        sym = [[f"OM_{bi}_{max(i, j)}_{min(i, j)}" for j in range(kk)] for i in range(kk)]
        for i in range(kk):
            for j in range(i + 1):
                params.append(Parameter.create(sym[i][j], float(A[i][j]), fix=b["fix"]))
                inits[sym[i][j]] = float(A[i][j])
        if kk > 1 and not b["fix"]:
            ch = np.linalg.cholesky(np.array([[float(x) for x in row] for row in A]))
            if any(ch[i, j] < -1e-13 for i in range(kk) for j in range(i)):
                has_neg = True
        if kk == 1:
            dists.append(NormalDistribution.create(names[0], "IIV", 0, Expr.symbol(sym[0][0])))
        else:
            dists.append(JointNormalDistribution.create(names, "IIV", [0] * kk, [[Expr.symbol(s) for s in row] for row in sym]))
    if case["eps"]:
        params.append(Parameter.create("SI", float(Fraction(case["sigma"]))))
        inits["SI"] = float(Fraction(case["sigma"]))
        dists.append(NormalDistribution.create("eps1", "RUV", 0, Expr.symbol("SI")))
    ranges = {}
    for i, (init, lo, up) in enumerate(case["thetas"]):
        kw = {}
        if lo is not None:
            kw["lower"] = float(Fraction(lo))
        if up is not None:
            kw["upper"] = float(Fraction(up))
        params.append(Parameter.create(f"TH{i}", float(Fraction(init)), **kw))
        inits[f"TH{i}"] = float(Fraction(init))
        ranges[f"TH{i}"] = min(kw.get("upper", 1e6), 1e6) - max(kw.get("lower", -1e6), -1e6)
    model = Model.create(name="m", parameters=Parameters.create(params), random_variables=RandomVariables.create(dists))
    tags.append(f"ucp:blocks={len(case['blocks'])}")
    tags.append("ucp:negative-cholesky-factor" if has_neg else "ucp:nonnegative-cholesky-factors")
    if not case["blocks"]:
        tags.append("ucp:no-etas")
    if not case["eps"]:
        tags.append("ucp:no-epsilons")
    if model.parameters.inits != inits:
        mon.append(M("canonicalize-alters-valid", f"valid initial estimates changed by Model.create: {inits} -> {model.parameters.inits}"))
    try:
        with warnings.catch_warnings():
            warnings.simplefilter("ignore")
            scale = modeling.calculate_ucp_scale(model)
            ucps = {p.name: 0.1 for p in model.parameters if not p.fix}
            back = modeling.calculate_parameters_from_ucp(model, scale, ucps)
    except Exception as e:      # whatever the real code raises here is a finding, not a harness error
        if not case["blocks"] or not case["eps"]:
            mon.append(M("ucp-empty-level-error", f"calculate_ucp_scale / calculate_parameters_from_ucp raised "
                         f"{type(e).__name__} for a model without {'etas' if not case['blocks'] else 'epsilons'}: {e}"))
        else:
            mon.append(M("internal-error", f"calculate_ucp_scale / calculate_parameters_from_ucp raised {type(e).__name__}: {e}"))
        return {"k": k, "mon": mon, "tags": tags, "nontrivial": False}
    for p in model.parameters:
        if p.fix:
            if p.name in back:
                mon.append(M("ucp-roundtrip", f"fixed parameter {p.name} returned"))
            continue
        got = float(back[p.name])
        want = inits[p.name]
        tol = 1e-12 * ranges[p.name] if p.name in ranges else 0.0
        if not close(got, want, rel=1e-12, abs_=tol + 1e-15):
            if p.name.startswith("OM_") and has_neg:
                mon.append(M("ucp-negative-covariance-sign-lost",
                             f"from_ucp(scale(M), 0.1)[{p.name}]={got}, initial estimate {want}"))
            else:
                mon.append(M("ucp-roundtrip", f"from_ucp(scale(M), 0.1)[{p.name}]={got}, initial estimate {want}"))
    return {"k": k, "mon": _dedupe(mon), "tags": tags,
            "nontrivial": any(len(b["A"]) > 1 for b in case["blocks"])}


PK = ["CL", "V", "KA", "Q", "MAT"]


def _model_rvs(part, k):
    dists = []
    for grp in part:
        if len(grp) == 1:
            i = grp[0]
            dists.append(NormalDistribution.create(f"ETA{i}", "IIV", 0, Expr.symbol(f"O_{i}")))
        else:
            hit = _CREATED.get(("model", tuple(grp)))
            if hit is None:     # the real `create` once per block shape (its symbolic PSD test dominates the run time)
                var = [[Expr.symbol(f"O_{a}") if a == b else Expr.symbol(f"C_{max(a, b)}_{min(a, b)}") for b in grp] for a in grp]
                hit = JointNormalDistribution.create([f"ETA{i}" for i in grp], "IIV", [0] * len(grp), var)
                _CREATED[("model", tuple(grp))] = hit
            dists.append(hit)
    dists.append(NormalDistribution.create("EPS1", "RUV", 0, Expr.symbol("SI")))
    return RandomVariables.create(dists)


def _block_matrices(rvs, inits):
    """[(names of the lower-triangle parameters, Fraction matrix)] of every joint block at the given values;
    None when a value is missing"""
    out = []
    for d in rvs:
        if isinstance(d, JointNormalDistribution):
            n = len(d.names)
            A = [[None] * n for _ in range(n)]
            nm = [[None] * n for _ in range(n)]
            for i in range(n):
                for j in range(n):
                    e = sympy.sympify(d.variance[i, j])
                    if e.is_Symbol:
                        if e.name not in inits:
                            return None
                        A[i][j] = Fraction(float(inits[e.name]))
                        nm[i][j] = e.name
                    else:
                        A[i][j] = Fraction(int(e.p), int(e.q)) if e.is_Rational else Fraction(float(e))
            out.append((d.names, nm, A))
    return out


def check_model_valid(model, mon, label):
    """every joint block of the model at model.parameters.inits is PSD (exact LDL^T, tol 1e-9*max(1,max|A|))"""
    blocks = _block_matrices(model.random_variables, model.parameters.inits)
    if blocks is None:
        mon.append(M("model-missing-parameter", f"{label}: a covariance parameter of the model has no initial estimate"))
        return
    for names, _, A in blocks:
        n = len(A)
        scale = max(1, max(abs(x) for row in A for x in row))
        sym = [[(A[i][j] + A[j][i]) / 2 for j in range(n)] for i in range(n)]
        if not exact_psd(plus_tol(sym, Fraction(1, 10 ** 9) * scale)):
            mon.append(M("model-estimates-not-psd", f"{label}: block {list(names)} at the initial estimates "
                         f"{[[float(x) for x in row] for row in A]} is not positive semidefinite"))
            return


def _replace_step(model, label, new_params, new_rvs, drv, k, mon, tags):
    """model.replace(parameters=?, random_variables=?) with K on the decision and the three monitors"""
    cand_params = new_params if new_params is not None else model.parameters
    cand_rvs = new_rvs if new_rvs is not None else model.random_variables
    cand = dict(cand_params.inits)
    kwargs = {}
    if new_params is not None:
        kwargs["parameters"] = new_params
    if new_rvs is not None:
        kwargs["random_variables"] = new_rvs
    blocks = _block_matrices(cand_rvs, cand)
    with warnings.catch_warnings():
        warnings.simplefilter("ignore")
        code_valid = bool(cand_rvs.validate_parameters(cand))
        new = model.replace(**kwargs)
    got = dict(new.parameters.inits)
    decision = "keep" if all(float(got[n]) == float(cand[n]) for n in cand) and set(got) == set(cand) else "repair"
    tags.append(f"model:{'+'.join(sorted(kwargs)) or 'neither'}:{'valid' if code_valid else 'invalid'}")
    if drv is not None:
        m = drv.ask(["replace", "true" if new_params is not None else "false", "true" if new_rvs is not None else "false",
                     "true" if code_valid else "false"])
        if m != decision:
            k.append(f"{label}: replace({', '.join(sorted(kwargs))}) with validate_parameters={code_valid}: model says "
                     f"{m}, the code {'kept' if decision == 'keep' else 'changed'} the estimates")
    check_model_valid(new, mon, label)
    all_well = True
    clearly_bad = []
    for names, nm, A in blocks:
        n = len(A)
        scale = max(1, max(abs(x) for row in A for x in row))
        if not exact_psd(plus_tol(A, -Fraction(1, 10 ** 10) * scale)):
            all_well = False
        if not exact_psd(plus_tol(A, Fraction(1, 10 ** 9) * scale)):
            clearly_bad.append((names, nm, A))
    if all_well and decision != "keep":
        ch = {n: (cand[n], got.get(n)) for n in cand if got.get(n) != cand[n]}
        mon.append(M("model-alters-valid-estimates", f"{label}: every block is positive definite at the given estimates "
                     f"but replace changed {ch}"))
    if clearly_bad:
        touched = set()
        for names, nm, A in clearly_bad:
            n = len(A)
            with warnings.catch_warnings():
                warnings.simplefilter("ignore")
                B = pmath.nearest_positive_semidefinite(np.array([[float(x) for x in row] for row in A]))
            for i in range(n):
                for j in range(i + 1):
                    if nm[i][j] is None:
                        continue
                    touched.add(nm[i][j])
                    if not close(float(got[nm[i][j]]), float(B[i, j]), rel=1e-12, abs_=1e-15):
                        mon.append(M("model-replacement-not-nearest", f"{label}: block {list(names)} is not PSD at the given "
                                     f"estimates; {nm[i][j]}={got[nm[i][j]]} afterwards, nearest_positive_semidefinite gives {B[i, j]}"))
                        break
                else:
                    continue
                break
        # parameters of no joint block at all are never changed
        in_blocks = {x for _, nm, _ in blocks for row in nm for x in row if x is not None}
        for n_, v in cand.items():
            if n_ not in in_blocks and got.get(n_) != v:
                mon.append(M("model-repair-frame", f"{label}: {n_} is in no joint block but changed {v} -> {got.get(n_)}"))
                break
    return new


def run_model(case, drv):
    k, mon, tags = [], [], []
    kk = case["k"]
    sd = [Fraction(x) for x in case["sd"]]
    S_ = Expr.symbol
    params = [Parameter.create(f"TH_{PK[i]}", float(i + 1), lower=0) for i in range(kk)]
    params += [Parameter.create(f"O_{i}", float(sd[i] * sd[i])) for i in range(kk)]
    if case["mode"] == "raw":
        for i in range(kk):
            for j in range(i):
                params.append(Parameter.create(f"C_{i}_{j}", float(Fraction(case["vals"].get(f"C_{i}_{j}", "0")))))
    params.append(Parameter.create("SI", 0.25))
    sts = [Assignment.create(PK[i], S_(f"TH_{PK[i]}") * S_(f"ETA{i}").exp()) for i in range(kk)]
    y = S_(PK[0])
    for i in range(1, kk):
        y = y + S_(PK[i])
    sts.append(Assignment.create("Y", y + S_("EPS1")))
    cand_params = Parameters.create(params)
    cand_rvs = _model_rvs(case["part"], kk)
    with warnings.catch_warnings():
        warnings.simplefilter("ignore")
        code_valid = bool(cand_rvs.validate_parameters(cand_params.inits))
        model = Model.create(name="m", parameters=cand_params, random_variables=cand_rvs, statements=Statements(sts),
                             execution_steps=ExecutionSteps.create([EstimationStep.create("FOCE")]))
    tags += [f"model:k={kk}", f"model:{case['mode']}", f"model:create:{'valid' if code_valid else 'invalid'}"]
    if drv is not None:
        m = drv.ask(["mcreate", "true" if code_valid else "false"])
        dec = "keep" if model.parameters.inits == cand_params.inits else "repair"
        if m != dec:
            k.append(f"Model.create with validate_parameters={code_valid}: model says {m}, code {dec}")
    check_model_valid(model, mon, "Model.create")
    structure_changed = False
    for n_op, op in enumerate(case["ops"]):
        label = f"step {n_op} {op[0]}"
        before = blocks_of(model.random_variables)
        tags.append(f"mop:{op[0]}")
        if op[0] in ("rvs", "params", "both", "neither"):
            new_rvs = _model_rvs(op[1], kk) if op[0] in ("rvs", "both") else None
            vals = op[1] if op[0] == "params" else (op[2] if op[0] == "both" else None)
            new_params = None
            if vals is not None:
                new_params = model.parameters.set_initial_estimates({n_: float(Fraction(v)) for n_, v in vals.items()})
            model = _replace_step(model, label, new_params, new_rvs, drv, k, mon, tags)
        elif op[0] == "setcorr":
            # set every covariance parameter of the present joint blocks to c*sd_i*sd_j (alternating sign on request)
            inits = model.parameters.inits
            upd = {}
            neg_var = None
            for d in model.random_variables:
                if isinstance(d, JointNormalDistribution) and d.level == "IIV":
                    n = len(d.names)
                    for i in range(n):
                        for j in range(i):
                            e = sympy.sympify(d.variance[i, j])
                            vi, vj = sympy.sympify(d.variance[i, i]), sympy.sympify(d.variance[j, j])
                            if e.is_Symbol and vi.is_Symbol and vj.is_Symbol:
                                sgn = -1 if (op[2] and (i + j) % 2 == 0) else 1
                                prod = float(inits[vi.name]) * float(inits[vj.name])
                                if not prod >= 0:
                                    # a negative (or nan) variance among the model's estimates: the block is not PSD,
                                    # which the statement forbids of every model — a failing input, not a harness error
                                    bad_ = vi.name if not float(inits[vi.name]) >= 0 else vj.name
                                    if not float(inits[bad_]) >= -1e-9:
                                        neg_var = neg_var or bad_
                                        continue
                                    prod = 0.0      # a rounding-size negative variance counts as 0
                                upd[e.name] = sgn * float(Fraction(op[1])) * math.sqrt(prod)
            if neg_var is not None:
                mon.append(M("model-estimates-not-psd", f"{label}: the model's initial estimate of the variance {neg_var} is "
                             f"{float(inits[neg_var])!r} (blocks {before}): a covariance block with a negative variance "
                             f"is not positive semidefinite"))
            if not upd:
                tags.append("mop:setcorr-no-block")
                continue
            model = _replace_step(model, label, model.parameters.set_initial_estimates(upd), None, drv, k, mon, tags)
        else:
            etas = [n_ for n_ in model.random_variables.etas.names]
            try:
                with warnings.catch_warnings():
                    warnings.simplefilter("ignore")
                    if op[0] == "cjd":
                        sel = None if op[1] is None else [f"ETA{i}" for i in op[1] if f"ETA{i}" in etas]
                        if (sel is None and len(model.random_variables.iiv.names) < 2) or (sel is not None and len(sel) < 2):
                            tags.append("mop:cjd-skipped")
                            continue
                        ie = None
                        if op[2] is not None:
                            ie = pd.DataFrame({f"ETA{i}": [float(row[i]) for row in op[2]] for i in range(kk)})
                        model = modeling.create_joint_distribution(model, sel, individual_estimates=ie)
                    elif op[0] == "sjd":
                        sel = None if op[1] is None else [f"ETA{i}" for i in op[1] if f"ETA{i}" in etas]
                        if sel is not None and not sel:
                            continue
                        model = modeling.split_joint_distribution(model, sel)
                    elif op[0] == "remove_iiv":
                        nm_ = f"ETA{op[1]}"
                        if nm_ not in etas or len(etas) < 2:
                            tags.append("mop:remove_iiv-skipped")
                            continue
                        model = modeling.remove_iiv(model, [nm_])
                    elif op[0] == "add_iiv":
                        used = {str(x) for s_ in model.statements for x in s_.rhs_symbols}
                        free = [PK[i] for i in range(kk) if not any(str(e) in {str(x) for x in model.statements.find_assignment(PK[i]).rhs_symbols} for e in etas)]
                        if not free:
                            tags.append("mop:add_iiv-skipped")
                            continue
                        model = modeling.add_iiv(model, [free[0]], "exp")
            except Exception as e:
                if op[0] == "cjd" and isinstance(e, ValueError) and "must be unique" in str(e):
                    # the covariance names are built from param_names in the order of the `rvs` argument while join
                    # orders the block as the collection does
                    mon.append(M("cjd-rvs-order-name-collision", f"{label}: create_joint_distribution({op[1]}) on blocks "
                                 f"{before} raised ValueError: {e}"))
                else:
                    mon.append(M("internal-error", f"{label}: {op} raised {type(e).__name__}: {e}"))
                continue
            check_model_valid(model, mon, label)
        if blocks_of(model.random_variables) != before:
            structure_changed = True
    return {"k": k, "mon": _dedupe(mon), "tags": tags, "nontrivial": structure_changed}


def _spec_sdcorr(case):
    """the sd/corr form from the definition: sd = sqrt(var), corr = cov / (sd_i sd_j) — exact rationals"""
    sd = {n: Fraction(v) for n, v in case["sd"].items()}
    values = {n: v * v for n, v in sd.items()}
    expect = dict(sd)
    for cn, (c, a, b) in case["corr"].items():
        values[cn] = Fraction(c) * sd[a] * sd[b]
        expect[cn] = Fraction(c)
    used = {e for d in case["dists"] for row in d["var"] for e in row}
    for n in values:
        if n not in used:
            expect[n] = values[n]       # a parameter of no distribution is not converted
    return values, expect


def run_shared(case, drv):
    k, mon, tags = [], [], []
    dists = [build_dist(d) for d in case["dists"]]
    rvs = RandomVariables.create(dists)
    values, expect = _spec_sdcorr(case)
    fvals = {n: float(v) for n, v in values.items()}
    nshared = sum(1 for n in values if sum(1 for d in case["dists"] if any(n in row for row in d["var"])) > 1)
    tags += [f"shared:dists={len(dists)}", f"shared:params-in-several-dists={min(nshared, 4)}"]
    if any(d["joint"] for d in case["dists"]) and any(
            sum(1 for e in case["dists"] if e["joint"] and e["var"] == d["var"]) > 1 for d in case["dists"] if d["joint"]):
        tags.append("shared:repeated-block")
    # ---- parameters_sdcorr: values, round trip, frame, order independence
    with warnings.catch_warnings():
        warnings.simplefilter("ignore")
        got = rvs.parameters_sdcorr(dict(fvals))
        got2 = RandomVariables.create([dists[i] for i in case["perm"]]).parameters_sdcorr(dict(fvals))
    if set(got) != set(fvals):
        mon.append(M("parameters-sdcorr", f"parameters_sdcorr changed the parameter names: {sorted(got)}"))
    else:
        for n in sorted(fvals):
            if not close(float(got[n]), float(expect[n]), rel=1e-12, abs_=1e-15):
                role = "correlation" if n in case["corr"] else "standard deviation"
                mon.append(M("parameters-sdcorr", f"parameters_sdcorr[{n}]={float(got[n])!r}, the {role} of the given "
                             f"values is {float(expect[n])!r} (blocks {[tuple(d['names']) for d in case['dists']]})"))
                break
        # inverse conversion with the structure of the collection (sd^2, corr*sd_i*sd_j), read from the result
        back = {}
        for n in fvals:
            if n in case["corr"]:
                _, a, b = case["corr"][n]
                back[n] = float(got[n]) * float(got[a]) * float(got[b])
            elif expect[n] is values[n] or n not in case["sd"] or not any(n in row for d in case["dists"] for row in d["var"]):
                back[n] = float(got[n])
            else:
                back[n] = float(got[n]) ** 2
        for n in sorted(fvals):
            if not close(back[n], fvals[n], rel=1e-12, abs_=1e-15):
                mon.append(M("sdcorr-roundtrip", f"sdcorr^-1(sdcorr(x))[{n}]={back[n]!r}, x[{n}]={fvals[n]!r}"))
                break
        for n in sorted(fvals):
            if not close(float(got2[n]), float(got[n]), rel=1e-12, abs_=1e-15):
                mon.append(M("sdcorr-order-dependent", f"parameters_sdcorr[{n}] is {float(got[n])!r} with the distributions in "
                             f"the given order and {float(got2[n])!r} in the order {case['perm']}"))
                break
    if drv is not None:
        q = lambda f: ["q", str(f.numerator), str(f.denominator)]
        m = drv.ask(["sdcorr", wire_rvs(rvs), [[n, q(v)] for n, v in values.items()]])
        if m[0] != "ok":
            k.append(f"parameters_sdcorr: model {m}, code returned values")
        else:
            md = {n: Fraction(int(e[1]), int(e[2])) for n, e in m[1]}
            bad = [n for n in fvals if not close(float(md[n]), float(got.get(n, float('nan'))), rel=1e-12, abs_=1e-15)]
            if bad:
                k.append(f"parameters_sdcorr[{bad[0]}]: model {float(md[bad[0]])!r} code {float(got.get(bad[0]))!r}")
            if m[2] != "true":
                k.append("parameters_sdcorr: the Lean certificate `agree` (one value per parameter) fails on a generated collection")
            if m[3] != "true":
                k.append("parameters_sdcorr: model inverse(model sdcorr(values)) != values")
    # ---- validate_parameters / nearest_valid_parameters with shared blocks
    blocks = _block_matrices(rvs, fvals)
    with warnings.catch_warnings():
        warnings.simplefilter("ignore")
        ok = bool(rvs.validate_parameters(fvals))
        near = rvs.nearest_valid_parameters(fvals)
    all_well, all_psd = True, True
    for names, nm, A in blocks:
        scale = max(1, max(abs(x) for row in A for x in row))
        if not exact_psd(plus_tol(A, -Fraction(1, 10 ** 10) * scale)):
            all_well = False
        if not exact_psd(plus_tol(A, Fraction(1, 10 ** 9) * scale)):
            all_psd = False
    tags.append("shared:valid" if all_well else ("shared:invalid" if not all_psd else "shared:borderline"))
    if all_well and (not ok or any(float(near[n]) != fvals[n] for n in fvals)):
        mon.append(M("nearest-valid-alters-valid", f"valid values of a collection with shared parameters: validate_parameters={ok}, "
                     f"nearest_valid_parameters changed {[n for n in fvals if float(near[n]) != fvals[n]]}"))
    if not all_psd and ok:
        mon.append(M("validate-accepts-invalid", "validate_parameters accepted a block that is not PSD"))
    nb = _block_matrices(rvs, near)
    for names, nm, A in nb:
        n_ = len(A)
        scale = max(1, max(abs(x) for row in A for x in row))
        sym = [[(A[i][j] + A[j][i]) / 2 for j in range(n_)] for i in range(n_)]
        if not exact_psd(plus_tol(sym, Fraction(1, 10 ** 9) * scale)):
            mon.append(M("nearest-valid-leaves-invalid", f"block {list(names)} is not PSD at nearest_valid_parameters(values)"))
            break
    if drv is not None:
        w = wire_rvs(rvs)
        vt, nt, seen = [], [], []
        for d in rvs:
            if isinstance(d, JointNormalDistribution):
                wv = [[wire_entry(d.variance[i, j]) for j in range(d.variance.cols)] for i in range(d.variance.rows)]
                if wv in seen:
                    continue
                seen.append(wv)
                A = d.variance.subs(fvals).to_numpy()
                with warnings.catch_warnings():
                    warnings.simplefilter("ignore")
                    vt.append([wv, "true" if pmath.is_positive_semidefinite(A) else "false"])
                    B = pmath.nearest_positive_semidefinite(A)
                nt.append([wv, "same" if B is A else [[repr(float(B[i, j])) for j in range(len(A))] for i in range(len(A))]])
        m = drv.ask(["validate", w, vt])
        if m != ("true" if ok else "false"):
            k.append(f"validate_parameters (shared parameters): model {m} code {ok}")
        m = drv.ask(["nearestvalid", w, nt, [[kk_, repr(float(v))] for kk_, v in fvals.items()]])
        code = {kk_: repr(float(v)) for kk_, v in near.items()}
        if m[0] != "ok" or dict(map(tuple, m[1])) != code:
            k.append(f"nearest_valid_parameters (shared parameters): model {str(m)[:300]} code {str(code)[:300]}")
        _k_nearblocks(rvs, nt, fvals, near, drv, k, "nearest_valid_parameters (shared parameters)")
    # ---- invalid values are replaced by the nearest valid matrix: a clearly invalid block whose parameters are
    # symbols, pairwise distinct in the lower triangle and part of no different block, read back from the result,
    # is nearest_positive_semidefinite(block at the given values) itself, position by position
    for bi, (names, nm, A) in enumerate(blocks):
        n_ = len(A)
        scale = max(1, max(abs(x) for row in A for x in row))
        if exact_psd(plus_tol(A, Fraction(1, 10 ** 9) * scale)):
            continue
        tri = [nm[i][j] for i in range(n_) for j in range(i + 1)]
        if any(x is None for x in tri) or len(set(tri)) != len(tri) or any(nm[i][j] != nm[j][i] for i in range(n_) for j in range(n_)):
            continue
        if any(nm2 != nm and set(tri) & {x for row in nm2 for x in row} for _, nm2, _ in blocks):
            continue
        with warnings.catch_warnings():
            warnings.simplefilter("ignore")
            B = pmath.nearest_positive_semidefinite(np.array([[float(x) for x in row] for row in A]))
        if n_ >= 3:
            tags.append(f"nvp:invalid-block-dim={n_}")
        bad = [(i, j) for i in range(n_) for j in range(i + 1) if float(near[nm[i][j]]) != float(B[i, j])]
        if bad:
            i, j = bad[0]
            where = [(a, b) for a in range(n_) for b in range(a + 1) if float(near[nm[i][j]]) == float(B[a, b])]
            mon.append(M("nearest-valid-block-not-nearest", f"block {list(names)} is not PSD at the given values; afterwards "
                         f"{nm[i][j]} (position ({i},{j})) is {float(near[nm[i][j]])!r}, the nearest valid matrix has "
                         f"{float(B[i, j])!r} there" + (f" (that value stands at position {where[0]} of the nearest matrix)" if where else "")))
            break
    # ---- UCP round trip on a model with these random variables (needs positive definite blocks)
    if all_well and all(exact_pd(A) for _, _, A in blocks):
        has_neg = False
        for _, _, A in blocks:
            ch = np.linalg.cholesky(np.array([[float(x) for x in row] for row in A]))
            if any(ch[i, j] < -1e-13 for i in range(len(A)) for j in range(i)):
                has_neg = True
        model = Model.create(name="m", parameters=Parameters.create([Parameter.create(n, v) for n, v in fvals.items()]),
                             random_variables=rvs)
        try:
            with warnings.catch_warnings():
                warnings.simplefilter("ignore")
                scale = modeling.calculate_ucp_scale(model)
                back = modeling.calculate_parameters_from_ucp(model, scale, {n: 0.1 for n in fvals})
            tags.append("shared:ucp")
            used_ = {e for d in case["dists"] for row in d["var"] for e in row}
            for n in fvals:
                # a parameter of no distribution is an unbounded theta: tolerance 1e-12 of its range 2e6
                if not close(float(back[n]), fvals[n], rel=1e-12, abs_=1e-15 if n in used_ else 2e-6):
                    cls = "ucp-negative-covariance-sign-lost" if has_neg else "ucp-roundtrip"
                    mon.append(M(cls, f"shared parameters: from_ucp(scale(M), 0.1)[{n}]={float(back[n])!r}, initial estimate {fvals[n]!r}"))
                    break
        except Exception as e:
            lv = {d["level"] for d in case["dists"]}
            if "RUV" not in lv or not (lv - {"RUV"}):
                mon.append(M("ucp-empty-level-error", f"calculate_ucp_scale / calculate_parameters_from_ucp raised {type(e).__name__} "
                             f"for a model without {'epsilons' if 'RUV' not in lv else 'etas'}: {e}"))
            else:
                mon.append(M("internal-error", f"shared parameters: calculate_ucp_scale / calculate_parameters_from_ucp raised {type(e).__name__}: {e}"))
    # ---- the algebra (join / unjoin / index / subs / +) on the same collection
    if case["ops"]:
        r = run_ops({"kind": "ops", "dists": case["dists"], "ops": case["ops"], "seed": case["seed"]}, drv)
        k += r["k"]
        mon += r["mon"]
        tags += r["tags"]
    return {"k": k, "mon": _dedupe(mon), "tags": tags, "nontrivial": nshared > 0}


def run_case(case, drv):
    """An exception that escapes a run_* function is a harness error only if it was raised by harness code; if the
    innermost frame is in the code under test (pharmpy or its dependencies) it is reported as a monitor failure."""
    import traceback
    try:
        return _run_case(case, drv)
    except Exception as e:
        frames = traceback.extract_tb(e.__traceback__)
        inner = frames[-1].filename if frames else ""
        if "/harness/" in inner:
            raise
        where = next((f"{f.filename.split('/src/')[-1]}:{f.lineno} in {f.name}" for f in reversed(frames) if "/pharmpy/" in f.filename), inner)
        call = next((f.line for f in reversed(frames) if "/harness/" in f.filename), "")
        return {"k": [], "mon": [M("internal-error", f"{type(e).__name__}: {e} raised at {where} while the harness evaluated `{call}`")],
                "tags": [f"code-raised-{type(e).__name__}"], "nontrivial": False}


def _run_case(case, drv):
    kind = case["kind"]
    if kind == "shared":
        return run_shared(case, drv)
    if kind == "model":
        return run_model(case, drv)
    if kind == "ops":
        return run_ops(case, drv)
    if kind == "psd":
        return run_psd(case, drv)
    if kind == "conv":
        return run_conv(case, drv)
    if kind == "ucp":
        return run_ucp(case, drv)
    raise ValueError(kind)
